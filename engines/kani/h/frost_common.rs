// C15 (FROST wire formats, totality of FROST entry points, `choose`) -- Kani harness TEMPLATE.
//
// This file is not compiled as is: props/C15.py instantiates it once per ciphersuite
// (placeholders @S@, @PTP@, @PENC@, @HLEN@, @HDR_OK@, @NEUTRAL_ENC@, @MULGEN_HDR@ and the
// `//@if <flag>` ... `//@endif` sections), writes the result to a temporary file and has the
// runner include it as a child module at the end of `pub mod @S@ { ... }` in src/frost.rs,
// so that the private fields of the FROST types and the private helper functions
// (`scalar_decode`, `point_decode`, `H1`...) are in scope.
//
// Design rules of the harnesses (see NOTES_C15.md):
//  * every input value is produced through the real API (decode functions, `Point::mulgen`,
//    struct literals of decoded parts), never through a stub-only constructor, so that the
//    harness body is an ordinary native test of the real code when Kani's concrete playback
//    replays a counterexample WITHOUT stubs;
//  * every `kani::any()` of the harness body is drawn before the first call into stubbed code
//    (stubs that draw nondeterministic values come later in the trace, so that the playback
//    values stay aligned natively);
//  * all lengths that drive copies are concrete; loops over lengths have concrete bounds.
//
// Stub model (the assumptions of every claim made with this file):
//  * scalars: `set_decode32`/`encode32` (ModInt256) resp. `set_decode_ct`/`encode` (ed448
//    Scalar) are replaced by the *plain* representation: the internal limbs hold the integer
//    itself instead of its Montgomery form; decode accepts exactly len == 32 (56) and
//    value < MODULUS (the exact canonical range), encode returns the limbs.  This is a
//    bijection canonical-bytes <-> values, which is C05's contract.  `iszero`, `equals`,
//    `set_cond`, addition, subtraction stay REAL (they commute with that change of
//    representation); `set_mul`, `set_div` return an arbitrary canonical scalar;
//    `from_w64le` (reached from `from_u64`) is the plain value.
//  * points: an opaque wrapper of the NE encoding bytes stored in the first bytes of the real
//    `Point` structure.  `set_decode` accepts exactly len == NE and a fixed predicate of the
//    bytes (`pt_decodable`), `encode` returns the bytes (C06's contract: decode∘encode = id on
//    canonical encodings, decode strict in length), `equals` compares the bytes,
//    `isneutral` compares with the suite's neutral encoding, `is_in_subgroup` is another fixed
//    predicate bit of the bytes; `set_add`, `set_mul` return an arbitrary decodable subgroup
//    point; `set_mulgen` is a fixed deterministic function of the scalar that is never the
//    neutral; `verify_helper_vartime` returns an arbitrary bool.
//  * hashes H1, H2 return an arbitrary canonical scalar; H4, H5 arbitrary bytes (C17).
//  * L0: `addcarry_u64`/`subborrow_u64` are replaced by the portable definitions of the same
//    file (Kani does not model the x86 intrinsics).

use super::*;
#[allow(unused_imports)]
use core::convert::TryInto;

// ------------------------------------------------------------------ L0

#[allow(dead_code)]
fn st_addcarry_u64(x: u64, y: u64, c: u8) -> (u64, u8) {
    let z = (x as u128).wrapping_add(y as u128).wrapping_add(c as u128);
    (z as u64, (z >> 64) as u8)
}

#[allow(dead_code)]
fn st_subborrow_u64(x: u64, y: u64, c: u8) -> (u64, u8) {
    let z = (x as u128).wrapping_sub(y as u128).wrapping_sub(c as u128);
    (z as u64, (z >> 127) as u8)
}

/// N little-endian 64-bit words from the first 8*N bytes of buf (buf.len() >= 8*N)
fn rd_words<const N: usize>(buf: &[u8]) -> [u64; N] {
    let mut w = [0u64; N];
    let mut i = 0;
    while i < N {
        w[i] = u64::from_le(unsafe { core::ptr::read_unaligned(buf.as_ptr().add(8 * i) as *const u64) });
        i += 1;
    }
    w
}

fn wr_words<const N: usize>(d: &mut [u8], w: &[u64; N]) {
    let mut i = 0;
    while i < N {
        unsafe { core::ptr::write_unaligned(d.as_mut_ptr().add(8 * i) as *mut u64, w[i].to_le()); }
        i += 1;
    }
}

// ------------------------------------------------------------------ scalars

//@if modint
use crate::backend::w64::modint::ModInt256;

fn mi_lt_mod<const M0: u64, const M1: u64, const M2: u64, const M3: u64>(w: &[u64; 4]) -> bool {
    if w[3] != M3 { return w[3] < M3; }
    if w[2] != M2 { return w[2] < M2; }
    if w[1] != M1 { return w[1] < M1; }
    w[0] < M0
}

fn mi_put<const M0: u64, const M1: u64, const M2: u64, const M3: u64>(
    this: &mut ModInt256<M0, M1, M2, M3>, w: [u64; 4])
{
    unsafe { *(this as *mut ModInt256<M0, M1, M2, M3> as *mut [u64; 4]) = w; }
}

fn mi_get<const M0: u64, const M1: u64, const M2: u64, const M3: u64>(
    this: &ModInt256<M0, M1, M2, M3>) -> [u64; 4]
{
    unsafe { *(this as *const ModInt256<M0, M1, M2, M3> as *const [u64; 4]) }
}

fn mi_any<const M0: u64, const M1: u64, const M2: u64, const M3: u64>() -> [u64; 4] {
    let w: [u64; 4] = kani::any();
    kani::assume(mi_lt_mod::<M0, M1, M2, M3>(&w));
    w
}

fn st_mi_set_decode32<const M0: u64, const M1: u64, const M2: u64, const M3: u64>(
    this: &mut ModInt256<M0, M1, M2, M3>, buf: &[u8]) -> u32
{
    let mut w = [0u64; 4];
    let mut ok = false;
    if buf.len() == 32 {
        w = rd_words::<4>(buf);
        ok = mi_lt_mod::<M0, M1, M2, M3>(&w);
        if !ok {
            w = [0u64; 4];
        }
    }
    mi_put(this, w);
    if ok { 0xFFFFFFFF } else { 0 }
}

fn st_mi_encode32<const M0: u64, const M1: u64, const M2: u64, const M3: u64>(
    this: ModInt256<M0, M1, M2, M3>) -> [u8; 32]
{
    let w = mi_get(&this);
    let mut d = [0u8; 32];
    wr_words::<4>(&mut d, &w);
    d
}

fn st_mi_set_mul<const M0: u64, const M1: u64, const M2: u64, const M3: u64>(
    this: &mut ModInt256<M0, M1, M2, M3>, _rhs: &ModInt256<M0, M1, M2, M3>)
{
    mi_put(this, mi_any::<M0, M1, M2, M3>());
}

fn st_mi_set_div<const M0: u64, const M1: u64, const M2: u64, const M3: u64>(
    this: &mut ModInt256<M0, M1, M2, M3>, _rhs: &ModInt256<M0, M1, M2, M3>)
{
    mi_put(this, mi_any::<M0, M1, M2, M3>());
}

fn st_mi_from_w64le<const M0: u64, const M1: u64, const M2: u64, const M3: u64>(
    x0: u64, x1: u64, x2: u64, x3: u64) -> ModInt256<M0, M1, M2, M3>
{
    let mut w = [x0, x1, x2, x3];
    if !mi_lt_mod::<M0, M1, M2, M3>(&w) {
        w = mi_any::<M0, M1, M2, M3>();
    }
    let mut r = ModInt256::<M0, M1, M2, M3>::ZERO;
    mi_put(&mut r, w);
    r
}

fn mi_any_sc<const M0: u64, const M1: u64, const M2: u64, const M3: u64>() -> ModInt256<M0, M1, M2, M3> {
    let mut r = ModInt256::<M0, M1, M2, M3>::ZERO;
    mi_put(&mut r, mi_any::<M0, M1, M2, M3>());
    r
}

fn sc_any() -> Scalar {
    mi_any_sc()
}

/// the integer value as little-endian words (stub side only)
fn sc_limbs(x: &Scalar) -> [u64; 4] {
    mi_get(x)
}
#[allow(dead_code)]
const SCL: usize = 4;
//@endif

//@if gfgen
const SN: usize = 7;

fn gg_lt_mod(w: &[u64; SN]) -> bool {
    let m = Scalar::MODULUS;
    if w[6] != m[6] { return w[6] < m[6]; }
    if w[5] != m[5] { return w[5] < m[5]; }
    if w[4] != m[4] { return w[4] < m[4]; }
    if w[3] != m[3] { return w[3] < m[3]; }
    if w[2] != m[2] { return w[2] < m[2]; }
    if w[1] != m[1] { return w[1] < m[1]; }
    w[0] < m[0]
}

fn gg_put(this: &mut Scalar, w: [u64; SN]) {
    unsafe { *(this as *mut Scalar as *mut [u64; SN]) = w; }
}

fn gg_get(this: &Scalar) -> [u64; SN] {
    unsafe { *(this as *const Scalar as *const [u64; SN]) }
}

fn gg_any() -> [u64; SN] {
    let w: [u64; SN] = kani::any();
    kani::assume(gg_lt_mod(&w));
    w
}

fn st_gg_set_decode_ct(this: &mut Scalar, buf: &[u8]) -> u32 {
    let mut w = [0u64; SN];
    let mut ok = false;
    if buf.len() == 56 {
        w = rd_words::<SN>(buf);
        ok = gg_lt_mod(&w);
        if !ok {
            w = [0u64; SN];
        }
    }
    gg_put(this, w);
    if ok { 0xFFFFFFFF } else { 0 }
}

fn st_gg_encode(this: Scalar) -> [u8; 56] {
    let w = gg_get(&this);
    let mut d = [0u8; 56];
    wr_words::<SN>(&mut d, &w);
    d
}

fn st_gg_set_mul(this: &mut Scalar, _rhs: &Scalar) {
    gg_put(this, gg_any());
}

fn st_gg_set_div(this: &mut Scalar, _rhs: &Scalar) {
    gg_put(this, gg_any());
}

fn st_gg_from_w64le(x: [u64; SN]) -> Scalar {
    let mut w = x;
    if !gg_lt_mod(&w) {
        w = gg_any();
    }
    let mut r = Scalar::ZERO;
    gg_put(&mut r, w);
    r
}

fn sc_any() -> Scalar {
    let mut r = Scalar::ZERO;
    gg_put(&mut r, gg_any());
    r
}

fn sc_limbs(x: &Scalar) -> [u64; SN] {
    gg_get(x)
}
#[allow(dead_code)]
const SCL: usize = SN;
//@endif

// ------------------------------------------------------------------ points

/// number of 64-bit words that hold the NE encoding bytes (little-endian packing) at the
/// beginning of the real `Point` structure (whose fields are all arrays of u64 limbs).
/// Helper code avoids `for` loops and byte loops: in the dev profile every iteration of an
/// iterator loop costs ~150 symex steps.
const PK: usize = (NE + 7) / 8;
const _PT_FITS: () = assert!(core::mem::size_of::<Point>() >= 8 * PK && NE % 8 <= 1);

/// packs NE bytes (buf.len() == NE) into PK little-endian words
fn pt_limbs(buf: &[u8]) -> [u64; PK] {
    let mut w = [0u64; PK];
    let mut i = 0;
    while i < NE / 8 {
        w[i] = u64::from_le(unsafe { core::ptr::read_unaligned(buf.as_ptr().add(8 * i) as *const u64) });
        i += 1;
    }
    if NE % 8 != 0 {
        w[PK - 1] = buf[NE - 1] as u64;
    }
    w
}

fn pt_unlimbs(w: &[u64; PK]) -> [u8; NE] {
    let mut b = [0u8; NE];
    let mut i = 0;
    while i < NE / 8 {
        unsafe { core::ptr::write_unaligned(b.as_mut_ptr().add(8 * i) as *mut u64, w[i].to_le()); }
        i += 1;
    }
    if NE % 8 != 0 {
        b[NE - 1] = w[PK - 1] as u8;
    }
    b
}

fn pt_put(p: &mut Point, w: &[u64; PK]) {
    let base = p as *mut Point as *mut u64;
    let mut i = 0;
    while i < PK {
        unsafe { *base.add(i) = w[i]; }
        i += 1;
    }
}

fn pt_get(p: &Point) -> [u64; PK] {
    let base = p as *const Point as *const u64;
    let mut w = [0u64; PK];
    let mut i = 0;
    while i < PK {
        w[i] = unsafe { *base.add(i) };
        i += 1;
    }
    w
}

fn pt_wrap(w: &[u64; PK]) -> Point {
    let mut p = Point::NEUTRAL;
    pt_put(&mut p, w);
    p
}

/// the fixed set of "canonical point encodings" of the model: bit 0 of byte 2 is clear
/// (and, for the SEC1 suites, the first byte is 0x02 or 0x03)
fn pt_decodable(w: &[u64; PK]) -> bool {
    let h = w[0] & 0xFF;
    let _ = h;
    ((w[0] >> 16) & 1) == 0 && @HDR_OK@
}

/// "is in the prime-order subgroup": bit 1 of byte 2 is clear
fn pt_subgroup(w: &[u64; PK]) -> bool {
    ((w[0] >> 17) & 1) == 0
}

/// the suite's encoding of the neutral: first word NEUTRAL_W0, all other words zero
const NEUTRAL_W0: Option<u64> = @NEUTRAL_W0@;

fn pt_is_neutral_enc(w: &[u64; PK]) -> bool {
    match NEUTRAL_W0 {
        None => false,
        Some(w0) => {
            let mut d = w[0] ^ w0;
            let mut i = 1;
            while i < PK {
                d |= w[i];
                i += 1;
            }
            d == 0
        }
    }
}

fn pt_any() -> Point {
    let mut w: [u64; PK] = kani::any();
    if NE % 8 != 0 {
        w[PK - 1] &= 0xFF;
    }
    kani::assume(pt_decodable(&w) && pt_subgroup(&w));
    pt_wrap(&w)
}

fn st_pt_set_decode(this: &mut Point, buf: &[u8]) -> u32 {
    if buf.len() == NE {
        let w = pt_limbs(buf);
        if pt_decodable(&w) {
            *this = pt_wrap(&w);
            return 0xFFFFFFFF;
        }
    }
    *this = Point::NEUTRAL;
    0
}

fn st_pt_encode(p: Point) -> [u8; NE] {
    pt_unlimbs(&pt_get(&p))
}

fn st_pt_equals(p: Point, q: Point) -> u32 {
    let a = pt_get(&p);
    let b = pt_get(&q);
    let mut d = 0u64;
    let mut i = 0;
    while i < PK {
        d |= a[i] ^ b[i];
        i += 1;
    }
    if d == 0 { 0xFFFFFFFF } else { 0 }
}

fn st_pt_isneutral(p: Point) -> u32 {
    if pt_is_neutral_enc(&pt_get(&p)) { 0xFFFFFFFF } else { 0 }
}

#[allow(dead_code)]
fn st_pt_is_in_subgroup(p: Point) -> u32 {
    if pt_subgroup(&pt_get(&p)) { 0xFFFFFFFF } else { 0 }
}

fn st_pt_set_add(this: &mut Point, _rhs: &Point) {
    *this = pt_any();
}

fn st_pt_set_mul(this: &mut Point, _n: &Scalar) {
    *this = pt_any();
}

/// deterministic function of the scalar, never the neutral, always decodable and in the
/// subgroup (byte 2 of the encoding has its low three bits forced to 100)
fn st_pt_set_mulgen(this: &mut Point, n: &Scalar) {
    let s = sc_limbs(n);
    let mut w = [0u64; PK];
//@if sec1
    w[0] = (s[0] << 8) | 2;
    w[1] = s[1];
    w[2] = s[2];
    w[3] = s[3];
    w[4] = s[0] >> 56;
//@endif
//@if edw
    let mut i = 0;
    while i < SCL {
        w[i] = s[i];
        i += 1;
    }
//@endif
    w[0] = (w[0] & !(7u64 << 16)) | (4u64 << 16);
    *this = pt_wrap(&w);
}

//@if ristretto
/// ristretto255::Point::mulgen goes through ed25519::Point::mulgen; the ristretto point is a
/// newtype around the ed25519 point (same layout)
fn st_ed_set_mulgen(this: &mut crate::ed25519::Point, n: &Scalar) {
    const _SAME: () = assert!(core::mem::size_of::<crate::ed25519::Point>() == core::mem::size_of::<Point>());
    let p = unsafe { &mut *(this as *mut crate::ed25519::Point as *mut Point) };
    st_pt_set_mulgen(p, n);
}
//@endif

fn st_pt_verify_helper(_p: Point, _r: &Point, _s: &Scalar, _k: &Scalar) -> bool {
    kani::any()
}

// ------------------------------------------------------------------ hashes

fn st_h1(_m: &[u8]) -> Scalar { sc_any() }
fn st_h2(_a: &[u8], _b: &[u8], _c: &[u8]) -> Scalar { sc_any() }
fn st_h4(_m: &[u8]) -> [u8; @HLEN@] { kani::any() }
fn st_h5(_m: &[u8]) -> [u8; @HLEN@] { kani::any() }

// ------------------------------------------------------------------ harness wrapper

// The stub list of every harness.  props/C15.py replaces each `//@harness NAME UNWIND` line by
// `#[kani::proof] #[kani::unwind(UNWIND)]`, the attributes listed between `//@stublist` and
// `//@endstublist` (without the leading `//# `), and `fn NAME()`.
//@stublist
//# #[kani::stub(crate::backend::w64::addcarry_u64, st_addcarry_u64)]
//# #[kani::stub(crate::backend::w64::subborrow_u64, st_subborrow_u64)]
//@if modint
//# #[kani::stub(crate::backend::w64::modint::ModInt256::set_decode32, st_mi_set_decode32)]
//# #[kani::stub(crate::backend::w64::modint::ModInt256::encode32, st_mi_encode32)]
//# #[kani::stub(crate::backend::w64::modint::ModInt256::set_mul, st_mi_set_mul)]
//# #[kani::stub(crate::backend::w64::modint::ModInt256::set_div, st_mi_set_div)]
//# #[kani::stub(crate::backend::w64::modint::ModInt256::from_w64le, st_mi_from_w64le)]
//@endif
//@if gfgen
//# #[kani::stub(crate::ed448::Scalar::set_decode_ct, st_gg_set_decode_ct)]
//# #[kani::stub(crate::ed448::Scalar::encode, st_gg_encode)]
//# #[kani::stub(crate::ed448::Scalar::set_mul, st_gg_set_mul)]
//# #[kani::stub(crate::ed448::Scalar::set_div, st_gg_set_div)]
//# #[kani::stub(crate::ed448::Scalar::from_w64le, st_gg_from_w64le)]
//@endif
//# #[kani::stub(@PTP@::set_decode, st_pt_set_decode)]
//# #[kani::stub(@PTP@::@PENC@, st_pt_encode)]
//# #[kani::stub(@PTP@::equals, st_pt_equals)]
//# #[kani::stub(@PTP@::isneutral, st_pt_isneutral)]
//@if subgroup
//# #[kani::stub(@PTP@::is_in_subgroup, st_pt_is_in_subgroup)]
//@endif
//# #[kani::stub(@PTP@::set_add, st_pt_set_add)]
//# #[kani::stub(@PTP@::set_mul, st_pt_set_mul)]
//# #[kani::stub(@PTP@::set_mulgen, st_pt_set_mulgen)]
//@if ristretto
//# #[kani::stub(crate::ed25519::Point::set_mulgen, st_ed_set_mulgen)]
//@endif
//# #[kani::stub(@PTP@::verify_helper_vartime, st_pt_verify_helper)]
//# #[kani::stub(crate::frost::@S@::H1, st_h1)]
//# #[kani::stub(crate::frost::@S@::H2, st_h2)]
//# #[kani::stub(crate::frost::@S@::H4, st_h4)]
//# #[kani::stub(crate::frost::@S@::H5, st_h5)]
//@endstublist

// ------------------------------------------------------------------ oracles on wire bytes

/// k-th 64-bit word (k = 0 least significant) of an NS-byte wire encoding of a scalar,
/// written directly on the wire convention of the suite (independent of
/// scalar_cmp_vartime / scalar_encode_le)
const NW: usize = (NS + 7) / 8;

fn wire_word(a: &[u8], k: usize) -> u64 {
    assert!(a.len() >= NS && k < NW);
//@if le
    if 8 * k + 8 <= NS {
        u64::from_le(unsafe { core::ptr::read_unaligned(a.as_ptr().add(8 * k) as *const u64) })
    } else {
        a[NS - 1] as u64
    }
//@endif
//@if be
    u64::from_be(unsafe { core::ptr::read_unaligned(a.as_ptr().add(NS - 8 - 8 * k) as *const u64) })
//@endif
}

/// big-integer "a < b" on two NS-byte wire encodings of scalars
fn wire_lt(a: &[u8], b: &[u8]) -> bool {
    let mut k = NW;
    while k > 0 {
        k -= 1;
        let (x, y) = (wire_word(a, k), wire_word(b, k));
        if x != y {
            return x < y;
        }
    }
    false
}

fn wire_eq(a: &[u8], b: &[u8]) -> bool {
    a[..NS] == b[..NS]
}

fn bytes_eq(a: &[u8], b: &[u8]) -> bool {
    a == b
}

fn seq(a: Scalar, b: Scalar) -> bool { a.equals(b) != 0 }
fn peq(a: Point, b: Point) -> bool { a.equals(b) != 0 }

/// a valid non-zero scalar from wire bytes (None natively if not canonical)
fn nz_scalar(b: &[u8]) -> Option<Scalar> {
    let s = scalar_decode(b)?;
    if s.iszero() != 0 { None } else { Some(s) }
}

// ================================================================== (a) wire formats
//
// SPEC harnesses (one per type): for ALL byte strings b of length ENC_LEN:
//   decode(b) is Some  <=>  every component decodes (and identifiers / keys are non-zero),
//   the fields of decode(b) are the component decodings, and encode(decode(b)) == b.
// Together with the bijectivity of the component codecs (stub contract) this is
// "decode(encode(x)) == x and encode(decode(b)) == b".

//@harness verif_frost_@S@_spec_nonce 180
{
    let b: [u8; 3 * NS] = kani::any();
    let r = Nonce::decode(&b);
    let i = scalar_decode(&b[0..NS]);
    let h = scalar_decode(&b[NS..2 * NS]);
    let k = scalar_decode(&b[2 * NS..3 * NS]);
    let exp = match (i, h, k) {
        (Some(i), Some(_), Some(_)) => i.iszero() == 0,
        _ => false,
    };
    assert!(r.is_some() == exp);
    if let Some(x) = r {
        assert!(seq(x.ident, i.unwrap()));
        assert!(seq(x.hiding, h.unwrap()));
        assert!(seq(x.binding, k.unwrap()));
        assert!(bytes_eq(&x.encode(), &b));
    }
    kani::cover!(r.is_some());
    kani::cover!(r.is_none() && i.is_some() && h.is_some() && k.is_some());
}

//@harness verif_frost_@S@_spec_sigshare 180
{
    let b: [u8; 2 * NS] = kani::any();
    let r = SignatureShare::decode(&b);
    let i = scalar_decode(&b[0..NS]);
    let z = scalar_decode(&b[NS..2 * NS]);
    let exp = match (i, z) {
        (Some(i), Some(_)) => i.iszero() == 0,
        _ => false,
    };
    assert!(r.is_some() == exp);
    if let Some(x) = r {
        assert!(seq(x.ident, i.unwrap()) && seq(x.zi, z.unwrap()));
        assert!(bytes_eq(&x.encode(), &b));
    }
    kani::cover!(r.is_some());
    kani::cover!(r.is_none() && i.is_some() && z.is_some());
}

//@harness verif_frost_@S@_spec_groupsk 180
{
    let b: [u8; NS] = kani::any();
    let r = GroupPrivateKey::decode(&b);
    let s = scalar_decode(&b);
    let exp = match s {
        Some(s) => s.iszero() == 0,
        _ => false,
    };
    assert!(r.is_some() == exp);
    if let Some(x) = r {
        assert!(seq(x.sk, s.unwrap()));
        assert!(bytes_eq(&x.encode(), &b));
        // cached public key = encoding of [sk]B
        assert!(peq(x.pk, Point::mulgen(&x.sk)));
        assert!(bytes_eq(&x.pk_enc, &point_encode(x.pk)));
        let gp = x.get_public_key();
        assert!(peq(gp.pk, x.pk) && bytes_eq(&gp.pk_enc, &x.pk_enc));
    }
    kani::cover!(r.is_some());
    kani::cover!(r.is_none() && s.is_some());
}

//@harness verif_frost_@S@_spec_grouppk 180
{
    let b: [u8; NE] = kani::any();
    let r = GroupPublicKey::decode(&b);
    let p = point_decode(&b);
    assert!(r.is_some() == p.is_some());
    if let Some(x) = r {
        assert!(peq(x.pk, p.unwrap()));
        assert!(bytes_eq(&x.pk_enc, &b));
        assert!(bytes_eq(&x.encode(), &b));
    }
    kani::cover!(r.is_some());
    kani::cover!(r.is_none());
}

//@harness verif_frost_@S@_spec_signerpk 180
{
    let b: [u8; NS + NE] = kani::any();
    let r = SignerPublicKey::decode(&b);
    let i = scalar_decode(&b[0..NS]);
    let p = point_decode(&b[NS..NS + NE]);
    let exp = match (i, p) {
        (Some(i), Some(_)) => i.iszero() == 0,
        _ => false,
    };
    assert!(r.is_some() == exp);
    if let Some(x) = r {
        assert!(seq(x.ident, i.unwrap()) && peq(x.pk, p.unwrap()));
        assert!(bytes_eq(&x.encode(), &b));
    }
    kani::cover!(r.is_some());
    kani::cover!(r.is_none() && i.is_some() && p.is_some());
}

//@harness verif_frost_@S@_spec_commitment 180
{
    let b: [u8; NS + 2 * NE] = kani::any();
    let r = Commitment::decode(&b);
    let i = scalar_decode(&b[0..NS]);
    let h = point_decode(&b[NS..NS + NE]);
    let k = point_decode(&b[NS + NE..NS + 2 * NE]);
    let exp = match (i, h, k) {
        (Some(i), Some(_), Some(_)) => i.iszero() == 0,
        _ => false,
    };
    assert!(r.is_some() == exp);
    if let Some(x) = r {
        assert!(seq(x.ident, i.unwrap()));
        assert!(peq(x.hiding, h.unwrap()));
        assert!(peq(x.binding, k.unwrap()));
        assert!(bytes_eq(&x.encode(), &b));
        assert!(!x.is_invalid());
    }
    kani::cover!(r.is_some());
    kani::cover!(r.is_none() && i.is_some() && h.is_some() && k.is_some());
}

//@harness verif_frost_@S@_spec_signature 180
{
    let b: [u8; NE + NS] = kani::any();
    let r = Signature::decode(&b);
    let p = point_decode(&b[0..NE]);
    let z = scalar_decode(&b[NE..NE + NS]);
    assert!(r.is_some() == (p.is_some() && z.is_some()));
    if let Some(x) = r {
        assert!(peq(x.R, p.unwrap()) && seq(x.z, z.unwrap()));
        assert!(bytes_eq(&x.encode(), &b));
    }
    kani::cover!(r.is_some());
    kani::cover!(r.is_none() && p.is_some());
}

//@harness verif_frost_@S@_spec_keyshare 180
{
    let b: [u8; 2 * NS + NE] = kani::any();
    let r = SignerPrivateKeyShare::decode(&b);
    let i = scalar_decode(&b[0..NS]);
    let s = scalar_decode(&b[NS..2 * NS]);
    let g = GroupPublicKey::decode(&b[2 * NS..2 * NS + NE]);
    let exp = match (i, s, g) {
        (Some(i), Some(s), Some(_)) => i.iszero() == 0 && s.iszero() == 0,
        _ => false,
    };
    assert!(r.is_some() == exp);
    if let Some(x) = r {
        let g = g.unwrap();
        assert!(seq(x.ident, i.unwrap()) && seq(x.sk, s.unwrap()));
        assert!(peq(x.group_pk.pk, g.pk));
        assert!(bytes_eq(&x.group_pk.pk_enc, &g.pk_enc));
        assert!(peq(x.pk, Point::mulgen(&x.sk)));
        assert!(bytes_eq(&x.encode(), &b));
        let sp = x.get_public_key();
        assert!(seq(sp.ident, x.ident) && peq(sp.pk, x.pk));
    }
    kani::cover!(r.is_some());
    kani::cover!(r.is_none() && i.is_some() && s.is_some() && g.is_some());
}

// ROUND-TRIP harnesses on values built through the real API only from canonical scalars
// (points are [k]B), so that a counterexample replays natively:
//   for all such x: decode(encode(x)) is Some(y) with y == x field-wise, and encode(x) is the
//   concatenation of the component encodings in the order of the FROST draft.

//@harness verif_frost_@S@_rt_scalars 180
{
    let b: [u8; 3 * NS] = kani::any();
    let id = match nz_scalar(&b[0..NS]) { Some(s) => s, None => return };
    let s1 = match scalar_decode(&b[NS..2 * NS]) { Some(s) => s, None => return };
    let s3 = match scalar_decode(&b[2 * NS..3 * NS]) { Some(s) => s, None => return };
    let eid = scalar_encode(id);
    let es1 = scalar_encode(s1);
    let es3 = scalar_encode(s3);
    // the scalar codec itself round-trips on these values (stub contract / native fact)
    assert!(bytes_eq(&eid, &b[0..NS]));
    assert!(bytes_eq(&es3, &b[2 * NS..3 * NS]));
    {
        let x = Nonce { ident: id, hiding: s1, binding: s3 };
        let e = x.encode();
        assert!(bytes_eq(&e[0..NS], &eid));
        assert!(bytes_eq(&e[NS..2 * NS], &es1));
        assert!(bytes_eq(&e[2 * NS..3 * NS], &es3));
        let y = Nonce::decode(&e).unwrap();
        assert!(seq(y.ident, id) && seq(y.hiding, s1) && seq(y.binding, s3));
    }
    {
        let x = SignatureShare { ident: id, zi: s3 };
        let e = x.encode();
        assert!(bytes_eq(&e[0..NS], &eid) && bytes_eq(&e[NS..2 * NS], &es3));
        let y = SignatureShare::decode(&e).unwrap();
        assert!(seq(y.ident, id) && seq(y.zi, s3));
    }
    kani::cover!(true);
}

//@harness verif_frost_@S@_rt_points 180
{
    let b: [u8; 4 * NS] = kani::any();
    let id = match nz_scalar(&b[0..NS]) { Some(s) => s, None => return };
    let s1 = match nz_scalar(&b[NS..2 * NS]) { Some(s) => s, None => return };
    let s2 = match nz_scalar(&b[2 * NS..3 * NS]) { Some(s) => s, None => return };
    let s3 = match scalar_decode(&b[3 * NS..4 * NS]) { Some(s) => s, None => return };
    let p1 = Point::mulgen(&s1);
    let p2 = Point::mulgen(&s2);
    let eid = scalar_encode(id);
    let es3 = scalar_encode(s3);
    let ep1 = point_encode(p1);
    let ep2 = point_encode(p2);
    {
        let x = Nonce { ident: id, hiding: s1, binding: s2 };
        let c = x.get_commitment();
        assert!(seq(c.ident, id) && peq(c.hiding, p1) && peq(c.binding, p2));
    }
    {
        let x = SignerPublicKey { ident: id, pk: p2 };
        let e = x.encode();
        assert!(bytes_eq(&e[0..NS], &eid) && bytes_eq(&e[NS..NS + NE], &ep2));
        let y = SignerPublicKey::decode(&e).unwrap();
        assert!(seq(y.ident, id) && peq(y.pk, p2));
    }
    {
        let x = Commitment { ident: id, hiding: p1, binding: p2 };
        let e = x.encode();
        assert!(bytes_eq(&e[0..NS], &eid));
        assert!(bytes_eq(&e[NS..NS + NE], &ep1));
        assert!(bytes_eq(&e[NS + NE..NS + 2 * NE], &ep2));
        let y = Commitment::decode(&e).unwrap();
        assert!(seq(y.ident, id) && peq(y.hiding, p1) && peq(y.binding, p2));
    }
    {
        let x = Signature { R: p2, z: s3 };
        let e = x.encode();
        assert!(bytes_eq(&e[0..NE], &ep2) && bytes_eq(&e[NE..NE + NS], &es3));
        let y = Signature::decode(&e).unwrap();
        assert!(peq(y.R, p2) && seq(y.z, s3));
    }
    kani::cover!(true);
}

//@harness verif_frost_@S@_rt_keys 180
{
    let b: [u8; 3 * NS] = kani::any();
    let id = match nz_scalar(&b[0..NS]) { Some(s) => s, None => return };
    let s1 = match nz_scalar(&b[NS..2 * NS]) { Some(s) => s, None => return };
    let s2 = match nz_scalar(&b[2 * NS..3 * NS]) { Some(s) => s, None => return };
    let p1 = Point::mulgen(&s1);
    let p2 = Point::mulgen(&s2);
    let eid = scalar_encode(id);
    let es1 = scalar_encode(s1);
    let ep1 = point_encode(p1);
    let gsk = GroupPrivateKey::decode(&es1).unwrap();
    assert!(bytes_eq(&gsk.encode(), &es1));
    let gpk = gsk.get_public_key();
    {
        let e = gpk.encode();
        assert!(bytes_eq(&e, &ep1));
        let y = GroupPublicKey::decode(&e).unwrap();
        assert!(peq(y.pk, p1) && bytes_eq(&y.pk_enc, &ep1));
    }
    {
        let x = SignerPrivateKeyShare { ident: id, sk: s2, pk: p2, group_pk: gpk };
        let e = x.encode();
        assert!(bytes_eq(&e[0..NS], &eid));
        assert!(bytes_eq(&e[NS..2 * NS], &scalar_encode(s2)));
        assert!(bytes_eq(&e[2 * NS..2 * NS + NE], &ep1));
        let y = SignerPrivateKeyShare::decode(&e).unwrap();
        assert!(seq(y.ident, id) && seq(y.sk, s2) && peq(y.pk, p2));
        assert!(peq(y.group_pk.pk, p1) && bytes_eq(&y.group_pk.pk_enc, &ep1));
    }
    kani::cover!(true);
}

// LENGTH harnesses: every decode function returns None on every length != ENC_LEN in
// 0..=ENC_LEN+1 (bytes arbitrary), without panicking.  Lengths are concrete (loop bounds are
// constants); the largest ENC_LEN is 2*NS+NE (171 for ed448), hence unwind 180.
// (Straight-line harnesses without assume / early return: nothing can make them vacuous.)

macro_rules! len_sweep {
    ($t:ident, $b:ident) => {
        let mut n = 0;
        while n <= $t::ENC_LEN + 1 {
            if n != $t::ENC_LEN {
                assert!($t::decode(&$b[..n]).is_none());
            }
            n += 1;
        }
    };
}

//@harness verif_frost_@S@_lengths_a 180
{
    let b: [u8; 3 * NS + NE + 1] = kani::any();
    len_sweep!(GroupPrivateKey, b);
    len_sweep!(GroupPublicKey, b);
    len_sweep!(SignatureShare, b);
    len_sweep!(Nonce, b);
    // the ENC_LEN constants are the ones of the FROST draft
    assert!(GroupPrivateKey::ENC_LEN == NS);
    assert!(GroupPublicKey::ENC_LEN == NE);
    assert!(SignerPrivateKeyShare::ENC_LEN == 2 * NS + NE);
    assert!(SignerPublicKey::ENC_LEN == NS + NE);
    assert!(Nonce::ENC_LEN == 3 * NS);
    assert!(Commitment::ENC_LEN == NS + 2 * NE);
    assert!(SignatureShare::ENC_LEN == 2 * NS);
    assert!(Signature::ENC_LEN == NE + NS);
}

//@harness verif_frost_@S@_lengths_b 180
{
    let b: [u8; 2 * NS + 2 * NE] = kani::any();
    len_sweep!(SignerPublicKey, b);
    len_sweep!(Signature, b);
}

//@harness verif_frost_@S@_lengths_c 180
{
    // the largest ENC_LEN is NS+2*NE (SEC1 suites) or 2*NS+NE; 2*NS+2*NE >= both + 1
    let b: [u8; 2 * NS + 2 * NE] = kani::any();
    len_sweep!(Commitment, b);
    len_sweep!(SignerPrivateKeyShare, b);
}

// IDENTIFIER 0: every type with an identifier rejects the zero identifier even when every other
// component is valid (a canonical scalar s, the valid point [k]B) -- natively replayable; the
// same strings with the identifier s != 0 are accepted.

//@harness verif_frost_@S@_ident0 180
{
    let kb: [u8; 2 * NS] = kani::any();
    let k = match nz_scalar(&kb[0..NS]) { Some(s) => s, None => return };
    let s = match nz_scalar(&kb[NS..2 * NS]) { Some(s) => s, None => return };
    let pe = point_encode(Point::mulgen(&k));
    let se = scalar_encode(s);
    let mut b = [0u8; 2 * NS + 2 * NE];
    // layouts: [id | s | pe]  [id | pe]  [id | s | s]  [id | pe | pe]  [id | s]
    {
        b[NS..2 * NS].copy_from_slice(&se);
        b[2 * NS..2 * NS + NE].copy_from_slice(&pe);
        assert!(SignerPrivateKeyShare::decode(&b[..2 * NS + NE]).is_none());
        assert!(SignatureShare::decode(&b[..2 * NS]).is_none());
        assert!(GroupPrivateKey::decode(&b[..NS]).is_none());
        b[2 * NS..3 * NS].copy_from_slice(&se);
        assert!(Nonce::decode(&b[..3 * NS]).is_none());
        b[0..NS].copy_from_slice(&se);
        assert!(Nonce::decode(&b[..3 * NS]).is_some());
        assert!(SignatureShare::decode(&b[..2 * NS]).is_some());
    }
    {
        let mut b = [0u8; NS + 2 * NE];
        b[NS..NS + NE].copy_from_slice(&pe);
        b[NS + NE..NS + 2 * NE].copy_from_slice(&pe);
        assert!(SignerPublicKey::decode(&b[..NS + NE]).is_none());
        assert!(Commitment::decode(&b).is_none());
        b[0..NS].copy_from_slice(&se);
        assert!(SignerPublicKey::decode(&b[..NS + NE]).is_some());
        assert!(Commitment::decode(&b).is_some());
    }
    // the zero scalar itself is a canonical scalar (so the rejections above are the explicit ones)
    assert!(scalar_decode(&[0u8; NS]).is_some());
    kani::cover!(true);
}

// SUITE GLUE: the five suite-specific functions (scalar_decode, scalar_encode, scalar_encode_le
// through scalar_cmp_vartime, point_decode, point_encode) against specifications written on the
// wire bytes -- natively replayable:
//  * scalar_decode(b) is Some <=> len == NS and the wire integer is < the group order
//    (Scalar::MODULUS), and then scalar_encode gives b back;
//  * scalar_cmp_vartime orders two scalars as their wire integers;
//  * point_decode(point_encode([k]B)) is [k]B; lengths NE-1, NE+1, 0 are rejected by both decoders.

fn wire_canonical(b: &[u8]) -> bool {
    let m = Scalar::MODULUS;
    let mut k = NW;
    while k > 0 {
        k -= 1;
        let x = wire_word(b, k);
        let y = if k < m.len() { m[k] } else { 0 };
        if x != y {
            return x < y;
        }
    }
    false
}

//@harness verif_frost_@S@_glue 180
{
    let b: [u8; 2 * NS + 1] = kani::any();
    let kb: [u8; NS] = kani::any();
    let (b0, b1) = (&b[0..NS], &b[NS..2 * NS]);
    let s0 = scalar_decode(b0);
    let s1 = scalar_decode(b1);
    assert!(s0.is_some() == wire_canonical(b0));
    assert!(scalar_decode(&b[..NS - 1]).is_none());
    assert!(scalar_decode(&b[..NS + 1]).is_none());
    assert!(scalar_decode(&b[..0]).is_none());
    if let (Some(x0), Some(x1)) = (s0, s1) {
        assert!(bytes_eq(&scalar_encode(x0), b0));
        let c = scalar_cmp_vartime(x0, x1);
        assert!((c == Ordering::Less) == wire_lt(b0, b1));
        assert!((c == Ordering::Equal) == wire_eq(b0, b1));
        assert!((x0.iszero() != 0) == wire_eq(b0, &[0u8; NS]));
        kani::cover!(c == Ordering::Greater);
    }
    kani::cover!(s0.is_none());
    let k = match nz_scalar(&kb) { Some(s) => s, None => return };
    let p = Point::mulgen(&k);
    let pe = point_encode(p);
    let q = point_decode(&pe);
    assert!(q.is_some() && peq(q.unwrap(), p));
    assert!(point_decode(&pe[..NE - 1]).is_none());
    assert!(point_decode(&pe[..0]).is_none());
    let mut pl = [0u8; NE + 1];
    pl[..NE].copy_from_slice(&pe);
    assert!(point_decode(&pl).is_none());
}

// ------------------------------------------------------------------ lists

const CL: usize = NS + 2 * NE;

// Commitment::decode_list on lists of 2 and 3 encoded commitments whose identifiers are ARBITRARY
// NS-byte strings and whose points are valid ([k]B; point validity inside a list is
// Commitment::decode's business, decided by spec_commitment) -- natively replayable:
// Some <=> every identifier is a canonical non-zero scalar and identifiers are strictly
// ascending as integers (oracle: wire_lt on the wire bytes); elements are the element decodings.
// Lists of 0 and 1 element are rejected.

fn put_comm(dst: &mut [u8], id: &[u8], pe0: &[u8; NE], pe1: &[u8; NE]) {
    dst[0..NS].copy_from_slice(id);
    dst[NS..NS + NE].copy_from_slice(pe0);
    dst[NS + NE..NS + 2 * NE].copy_from_slice(pe1);
}

//@harness verif_frost_@S@_clist2 180
{
    let ib: [u8; 2 * NS] = kani::any();
    let kb: [u8; 2 * NS] = kani::any();
    let k0 = match nz_scalar(&kb[0..NS]) { Some(s) => s, None => return };
    let k1 = match nz_scalar(&kb[NS..2 * NS]) { Some(s) => s, None => return };
    let (p0, p1) = (Point::mulgen(&k0), Point::mulgen(&k1));
    let (pe0, pe1) = (point_encode(p0), point_encode(p1));
    let (id0, id1) = (&ib[0..NS], &ib[NS..2 * NS]);
    let mut b = [0u8; 2 * CL];
    put_comm(&mut b[0..CL], id0, &pe0, &pe1);
    put_comm(&mut b[CL..2 * CL], id1, &pe1, &pe0);
    assert!(Commitment::decode_list(&b[..0]).is_none());
    assert!(Commitment::decode_list(&b[..CL]).is_none());
    let (i0, i1) = (nz_scalar(id0), nz_scalar(id1));
    let r = Commitment::decode_list(&b);
    let exp = i0.is_some() && i1.is_some() && wire_lt(id0, id1);
    assert!(r.is_some() == exp);
    if let Some(ref v) = r {
        assert!(v.len() == 2);
        assert!(seq(v[0].ident, i0.unwrap()));
        assert!(peq(v[0].hiding, p0));
        assert!(peq(v[0].binding, p1));
        assert!(seq(v[1].ident, i1.unwrap()));
        assert!(peq(v[1].hiding, p1));
        assert!(peq(v[1].binding, p0));
    }
    kani::cover!(r.is_some());
    kani::cover!(r.is_none() && i0.is_some() && i1.is_some());
}

// three elements: ordering is checked between every adjacent pair; encode_list(decode_list(b)) == b
// (applied to a fixed-size copy of the elements: iterating the decoded Vec itself makes CBMC
// unwind the slice iterator up to the bound, its length being a merged value)

//@harness verif_frost_@S@_clist3 520
{
    let ib: [u8; 3 * NS] = kani::any();
    let kb: [u8; NS] = kani::any();
    let k0 = match nz_scalar(&kb) { Some(s) => s, None => return };
    let p0 = Point::mulgen(&k0);
    let pe0 = point_encode(p0);
    let (id0, id1, id2) = (&ib[0..NS], &ib[NS..2 * NS], &ib[2 * NS..3 * NS]);
    let mut b = [0u8; 3 * CL];
    put_comm(&mut b[0..CL], id0, &pe0, &pe0);
    put_comm(&mut b[CL..2 * CL], id1, &pe0, &pe0);
    put_comm(&mut b[2 * CL..3 * CL], id2, &pe0, &pe0);
    let (i0, i1, i2) = (nz_scalar(id0), nz_scalar(id1), nz_scalar(id2));
    let r = Commitment::decode_list(&b);
    let exp = i0.is_some() && i1.is_some() && i2.is_some() && wire_lt(id0, id1) && wire_lt(id1, id2);
    assert!(r.is_some() == exp);
    if let Some(ref v) = r {
        assert!(v.len() == 3);
        assert!(seq(v[0].ident, i0.unwrap()));
        assert!(seq(v[1].ident, i1.unwrap()));
        assert!(seq(v[2].ident, i2.unwrap()));
        assert!(peq(v[2].hiding, p0) && peq(v[2].binding, p0));
        let e = Commitment::encode_list(&[v[0], v[1], v[2]]);
        assert!(e.len() == 3 * CL && bytes_eq(&e, &b));
    }
    kani::cover!(r.is_some());
    kani::cover!(r.is_none() && i0.is_some() && i1.is_some() && i2.is_some() && wire_lt(id0, id1));
}

// every length in 0..=2*CL+1 that is not a multiple of the element length is rejected, for
// both list decoders (concrete lengths: a symbolic length would drive `Vec::with_capacity`
// and the element loop); encode_list of the empty list is empty.

//@harness verif_frost_@S@_list_badlen 360
{
    let b: [u8; 2 * CL + 1] = kani::any();
    let mut n = 0;
    while n <= 2 * CL + 1 {
        if n % CL != 0 {
            assert!(Commitment::decode_list(&b[..n]).is_none());
        }
        if n % NE != 0 {
            assert!(VSSElement::decode_list(&b[..n]).is_none());
        }
        n += 1;
    }
    assert!(Commitment::encode_list(&[]).len() == 0);
    assert!(VSSElement::encode_list(&[]).len() == 0);
}

// VSSElement::decode_list on n*NE bytes (n = 0..3): Some <=> n >= 2 and every point decodes;
// elements are the point decodings; encode_list(decode_list(b)) == b.

//@harness verif_frost_@S@_vlist 180
{
    let b: [u8; 3 * NE] = kani::any();
    assert!(VSSElement::decode_list(&b[..0]).is_none());
    assert!(VSSElement::decode_list(&b[..NE]).is_none());
    let p0 = point_decode(&b[0..NE]);
    let p1 = point_decode(&b[NE..2 * NE]);
    let p2 = point_decode(&b[2 * NE..3 * NE]);
    {
        let r = VSSElement::decode_list(&b[..2 * NE]);
        assert!(r.is_some() == (p0.is_some() && p1.is_some()));
        if let Some(ref v) = r {
            assert!(v.len() == 2);
            assert!(peq(v[0].0, p0.unwrap()) && peq(v[1].0, p1.unwrap()));
            assert!(bytes_eq(&VSSElement::encode_list(&[v[0], v[1]]), &b[..2 * NE]));
        }
    }
    {
        let r = VSSElement::decode_list(&b[..3 * NE]);
        assert!(r.is_some() == (p0.is_some() && p1.is_some() && p2.is_some()));
        if let Some(ref v) = r {
            assert!(v.len() == 3);
            assert!(peq(v[0].0, p0.unwrap()));
            assert!(peq(v[1].0, p1.unwrap()));
            assert!(peq(v[2].0, p2.unwrap()));
            assert!(bytes_eq(&VSSElement::encode_list(&[v[0], v[1], v[2]]), &b[..3 * NE]));
        }
        kani::cover!(r.is_some());
        kani::cover!(r.is_none() && p0.is_some() && p1.is_some());
    }
}

// list round trip on natively valid values (points are [k]B): encode_list then decode_list.

//@harness verif_frost_@S@_list_rt 350
{
    let b: [u8; 4 * NS] = kani::any();
    let i0 = match nz_scalar(&b[0..NS]) { Some(s) => s, None => return };
    let i1 = match nz_scalar(&b[NS..2 * NS]) { Some(s) => s, None => return };
    let k0 = match nz_scalar(&b[2 * NS..3 * NS]) { Some(s) => s, None => return };
    let k1 = match nz_scalar(&b[3 * NS..4 * NS]) { Some(s) => s, None => return };
    let (p0, p1) = (Point::mulgen(&k0), Point::mulgen(&k1));
    let l = [
        Commitment { ident: i0, hiding: p0, binding: p1 },
        Commitment { ident: i1, hiding: p1, binding: p0 },
    ];
    let asc01 = wire_lt(&b[0..NS], &b[NS..2 * NS]);
    {
        let e = Commitment::encode_list(&l);
        assert!(e.len() == 2 * CL);
        assert!(bytes_eq(&e[..CL], &l[0].encode()));
        assert!(bytes_eq(&e[CL..], &l[1].encode()));
        let r = Commitment::decode_list(&e);
        assert!(r.is_some() == asc01);
        if let Some(ref v) = r {
            assert!(v.len() == 2 && seq(v[0].ident, i0) && seq(v[1].ident, i1));
            assert!(peq(v[0].hiding, p0));
            assert!(peq(v[0].binding, p1));
            assert!(peq(v[1].hiding, p1));
            assert!(peq(v[1].binding, p0));
        }
        kani::cover!(r.is_some());
        kani::cover!(r.is_none());
    }
    {
        let vl = [VSSElement(p0), VSSElement(p1)];
        let e = VSSElement::encode_list(&vl);
        assert!(e.len() == 2 * NE);
        assert!(bytes_eq(&e[..NE], &point_encode(p0)));
        assert!(bytes_eq(&e[NE..], &point_encode(p1)));
        let v = VSSElement::decode_list(&e).unwrap();
        assert!(v.len() == 2 && peq(v[0].0, p0) && peq(v[1].0, p1));
    }
}

// ================================================================== (b) totality
//
// Inputs are values obtainable through the public API: scalars (identifiers, shares) by
// decoding arbitrary bytes, ONE group element P = [k]B shared by every point-valued field
// (commitment points, signer key, group key): point arithmetic and the verification equation
// are stubbed by arbitrary results, so the identity of the points has no influence on the
// control flow of these functions, and one shared point keeps the formula small.
// Kani's default checks (assert!, unwrap, bounds, overflow) are the property: the calls must
// return.

fn mk_gpk(p: Point) -> GroupPublicKey {
    GroupPublicKey { pk: p, pk_enc: point_encode(p) }
}

// verify_signature_share on an ARBITRARY list of two commitments (any identifiers, any order).

//@harness verif_frost_@S@_vshare_anylist 180
{
    let kb: [u8; NS] = kani::any();
    let ib: [u8; 3 * NS] = kani::any();
    let zb: [u8; 2 * NS] = kani::any();
    let msg: [u8; 3] = kani::any();
    let k = match nz_scalar(&kb) { Some(s) => s, None => return };
    let i0 = match nz_scalar(&ib[0..NS]) { Some(s) => s, None => return };
    let i1 = match nz_scalar(&ib[NS..2 * NS]) { Some(s) => s, None => return };
    let sid = match nz_scalar(&ib[2 * NS..3 * NS]) { Some(s) => s, None => return };
    let ss = match SignatureShare::decode(&zb) { Some(s) => s, None => return };
    let p = Point::mulgen(&k);
    let list = [
        Commitment { ident: i0, hiding: p, binding: p },
        Commitment { ident: i1, hiding: p, binding: p },
    ];
    let spk = SignerPublicKey { ident: sid, pk: p };
    let r = spk.verify_signature_share(ss, &list, mk_gpk(p), &msg);
    kani::cover!(r);
}

// the same with the list precondition that `sign` and `decode_list` enforce (strictly
// ascending identifiers): no panic at all; a share for another identifier, or a signer absent
// from the list, is rejected.

//@harness verif_frost_@S@_vshare_sorted 180
{
    let kb: [u8; NS] = kani::any();
    let ib: [u8; 3 * NS] = kani::any();
    let zb: [u8; 2 * NS] = kani::any();
    let msg: [u8; 3] = kani::any();
    kani::assume(wire_lt(&ib[0..NS], &ib[NS..2 * NS]));
    let k = match nz_scalar(&kb) { Some(s) => s, None => return };
    let i0 = match nz_scalar(&ib[0..NS]) { Some(s) => s, None => return };
    let i1 = match nz_scalar(&ib[NS..2 * NS]) { Some(s) => s, None => return };
    let sid = match nz_scalar(&ib[2 * NS..3 * NS]) { Some(s) => s, None => return };
    let ss = match SignatureShare::decode(&zb) { Some(s) => s, None => return };
    let p = Point::mulgen(&k);
    let list = [
        Commitment { ident: i0, hiding: p, binding: p },
        Commitment { ident: i1, hiding: p, binding: p },
    ];
    let spk = SignerPublicKey { ident: sid, pk: p };
    let r = spk.verify_signature_share(ss, &list, mk_gpk(p), &msg);
    kani::cover!(r && seq(sid, i1));
    kani::cover!(!r && seq(sid, i0) && seq(ss.ident, sid));
    if !seq(ss.ident, sid) {
        assert!(!r);
    }
    if !seq(sid, i0) && !seq(sid, i1) {
        assert!(!r);
    }
}

// assemble_signature with the coordinator's own (sorted) list, arbitrary shares and keys.

//@harness verif_frost_@S@_assemble_sorted 180
{
    let kb: [u8; NS] = kani::any();
    let ib: [u8; 4 * NS] = kani::any();
    let zb: [u8; 4 * NS] = kani::any();
    let msg: [u8; 3] = kani::any();
    kani::assume(wire_lt(&ib[0..NS], &ib[NS..2 * NS]));
    let k = match nz_scalar(&kb) { Some(s) => s, None => return };
    let i0 = match nz_scalar(&ib[0..NS]) { Some(s) => s, None => return };
    let i1 = match nz_scalar(&ib[NS..2 * NS]) { Some(s) => s, None => return };
    let s0 = match nz_scalar(&ib[2 * NS..3 * NS]) { Some(s) => s, None => return };
    let s1 = match nz_scalar(&ib[3 * NS..4 * NS]) { Some(s) => s, None => return };
    let ss0 = match SignatureShare::decode(&zb[0..2 * NS]) { Some(s) => s, None => return };
    let ss1 = match SignatureShare::decode(&zb[2 * NS..4 * NS]) { Some(s) => s, None => return };
    let p = Point::mulgen(&k);
    let list = [
        Commitment { ident: i0, hiding: p, binding: p },
        Commitment { ident: i1, hiding: p, binding: p },
    ];
    let spks = [SignerPublicKey { ident: s0, pk: p }, SignerPublicKey { ident: s1, pk: p }];
    let co = Coordinator::new(2, mk_gpk(p)).unwrap();
    let r = co.assemble_signature(&[ss0, ss1], &list, &spks, &msg);
    kani::cover!(r.is_some());
    // a missing share or a missing key makes it fail
    let have_ss = (seq(ss0.ident, i0) || seq(ss1.ident, i0)) && (seq(ss0.ident, i1) || seq(ss1.ident, i1));
    let have_pk = (seq(s0, i0) || seq(s1, i0)) && (seq(s0, i1) || seq(s1, i1));
    kani::cover!(r.is_none() && have_ss && have_pk);
    if !have_ss || !have_pk {
        assert!(r.is_none());
    }
    assert!(Coordinator::new(0, mk_gpk(p)).is_none());
    assert!(Coordinator::new(1, mk_gpk(p)).is_none());
}

// assemble_signature with an arbitrary list of two commitments.

//@harness verif_frost_@S@_assemble_anylist 180
{
    let kb: [u8; NS] = kani::any();
    let ib: [u8; 2 * NS] = kani::any();
    let zb: [u8; 4 * NS] = kani::any();
    let msg: [u8; 3] = kani::any();
    let k = match nz_scalar(&kb) { Some(s) => s, None => return };
    let i0 = match nz_scalar(&ib[0..NS]) { Some(s) => s, None => return };
    let i1 = match nz_scalar(&ib[NS..2 * NS]) { Some(s) => s, None => return };
    let ss0 = match SignatureShare::decode(&zb[0..2 * NS]) { Some(s) => s, None => return };
    let ss1 = match SignatureShare::decode(&zb[2 * NS..4 * NS]) { Some(s) => s, None => return };
    let p = Point::mulgen(&k);
    let list = [
        Commitment { ident: i0, hiding: p, binding: p },
        Commitment { ident: i1, hiding: p, binding: p },
    ];
    let spks = [SignerPublicKey { ident: i0, pk: p }, SignerPublicKey { ident: i1, pk: p }];
    let co = Coordinator::new(2, mk_gpk(p)).unwrap();
    let r = co.assemble_signature(&[ss0, ss1], &list, &spks, &msg);
    kani::cover!(r.is_some());
}

// degenerate list lengths 0 and 1 for both verification entry points.

//@harness verif_frost_@S@_verify_shortlists 180
{
    let kb: [u8; NS] = kani::any();
    let ib: [u8; 2 * NS] = kani::any();
    let zb: [u8; 2 * NS] = kani::any();
    let msg: [u8; 3] = kani::any();
    let k = match nz_scalar(&kb) { Some(s) => s, None => return };
    let i0 = match nz_scalar(&ib[0..NS]) { Some(s) => s, None => return };
    let sid = match nz_scalar(&ib[NS..2 * NS]) { Some(s) => s, None => return };
    let ss = match SignatureShare::decode(&zb) { Some(s) => s, None => return };
    let p = Point::mulgen(&k);
    let list = [Commitment { ident: i0, hiding: p, binding: p }];
    let spk = SignerPublicKey { ident: sid, pk: p };
    let co = Coordinator::new(2, mk_gpk(p)).unwrap();
    assert!(!spk.verify_signature_share(ss, &list[..0], mk_gpk(p), &msg));
    let r1 = spk.verify_signature_share(ss, &list, mk_gpk(p), &msg);
    let r2 = co.assemble_signature(&[ss], &list[..0], &[spk], &msg);
    let r3 = co.assemble_signature(&[ss], &list, &[spk], &msg);
    let r4 = co.assemble_signature(&[], &list, &[], &msg);
    assert!(r4.is_none());
    kani::cover!(r1 && r2.is_some() && r3.is_some());
}

// sign: arbitrary share, nonce (with its own commitment, the documented precondition),
// arbitrary identifiers in a list of 0..2 commitments (first entry with the signer's points, second
// entry with a different hiding point).

//@harness verif_frost_@S@_sign_total 180
{
    let kb: [u8; 2 * NS] = kani::any();
    let ib: [u8; 3 * NS] = kani::any();
    let nb: [u8; 3 * NS] = kani::any();
    let msg: [u8; 3] = kani::any();
    let k = match nz_scalar(&kb[0..NS]) { Some(s) => s, None => return };
    let sk = match nz_scalar(&kb[NS..2 * NS]) { Some(s) => s, None => return };
    let i0 = match nz_scalar(&ib[0..NS]) { Some(s) => s, None => return };
    let i1 = match nz_scalar(&ib[NS..2 * NS]) { Some(s) => s, None => return };
    let sid = match nz_scalar(&ib[2 * NS..3 * NS]) { Some(s) => s, None => return };
    let nonce = match Nonce::decode(&nb) { Some(n) => n, None => return };
    let comm = nonce.get_commitment();
    let p = Point::mulgen(&k);
    // first entry carries the signer's commitment points, the second one a different hiding point
    let list = [
        Commitment { ident: i0, hiding: comm.hiding, binding: comm.binding },
        Commitment { ident: i1, hiding: p, binding: comm.binding },
    ];
    let share = SignerPrivateKeyShare { ident: sid, sk: sk, pk: p, group_pk: mk_gpk(p) };
    let r = share.sign(nonce, comm, &msg, &list);
    let asc = wire_lt(&ib[0..NS], &ib[NS..2 * NS]);
    kani::cover!(r.is_some());
    kani::cover!(r.is_none() && asc && seq(sid, i1));
    if !asc {
        assert!(r.is_none());
    }
    if !seq(sid, i0) && !seq(sid, i1) {
        assert!(r.is_none());
    }
    if let Some(s) = r {
        assert!(seq(s.ident, sid));
    }
    assert!(share.sign(nonce, comm, &msg, &list[..1]).is_none());
    assert!(share.sign(nonce, comm, &msg, &list[..0]).is_none());
}

// verify_split on VSS commitments of 1..3 elements: returns, no panic.

//@harness verif_frost_@S@_vsplit_total 180
{
    let kb: [u8; 4 * NS] = kani::any();
    let kid = match nz_scalar(&kb[0..NS]) { Some(s) => s, None => return };
    let sk = match nz_scalar(&kb[NS..2 * NS]) { Some(s) => s, None => return };
    let v0 = match nz_scalar(&kb[2 * NS..3 * NS]) { Some(s) => s, None => return };
    let v1 = match nz_scalar(&kb[3 * NS..4 * NS]) { Some(s) => s, None => return };
    let p = Point::mulgen(&sk);
    let q0 = Point::mulgen(&v0);
    let q1 = Point::mulgen(&v1);
    let share = SignerPrivateKeyShare { ident: kid, sk: sk, pk: p, group_pk: mk_gpk(q0) };
    let vss = [VSSElement(q0), VSSElement(q1), VSSElement(q0)];
    let r1 = share.verify_split(&vss[..1]);
    let r2 = share.verify_split(&vss[..2]);
    let r3 = share.verify_split(&vss[..3]);
    kani::cover!(r1 && r2 && !r3);
    kani::cover!(!r1 && r3);
    // with a single element the answer is pk == vss[0]
    assert!(r1 == peq(p, q0));
}

// verify_split on the EMPTY VSS commitment.

//@harness verif_frost_@S@_vsplit_empty 180
{
    let kb: [u8; 2 * NS] = kani::any();
    let kid = match nz_scalar(&kb[0..NS]) { Some(s) => s, None => return };
    let sk = match nz_scalar(&kb[NS..2 * NS]) { Some(s) => s, None => return };
    let p = Point::mulgen(&sk);
    let share = SignerPrivateKeyShare { ident: kid, sk: sk, pk: p, group_pk: mk_gpk(p) };
    let vss: [VSSElement; 0] = [];
    let r = share.verify_split(&vss);
    kani::cover!(!r);
}

// ================================================================== (c) Coordinator::choose
//
// min_signers = 2; lists of 0, 1, 2 commitments with arbitrary identifiers: the result is
// strictly ascending (hence duplicate-free), of size 2, made of the two inputs, or None iff
// fewer than 2 distinct identifiers; no panic.
// (Lists of 3 and more, even with a repeated identifier, are out of reach of CBMC: after the
// second loop iteration the vector length is a merged value, `Vec::insert` becomes a
// symbolic-length memmove and the insertion-sort loop is unwound to the bound; probed: OOM.)
// Stub specific to this harness: scalar_cmp_vartime (see st_scalar_cmp).

/// contract stub of scalar_cmp_vartime for the `choose` harness only: numeric comparison of
/// the canonical representatives (the real function is checked against the wire oracle in the
/// clist2 / clist3 harnesses).
fn st_scalar_cmp(x: Scalar, y: Scalar) -> Ordering {
    let (a, b) = (sc_limbs(&x), sc_limbs(&y));
    let mut k = SCL;
    while k > 0 {
        k -= 1;
        if a[k] != b[k] {
            return if a[k] < b[k] { Ordering::Less } else { Ordering::Greater };
        }
    }
    Ordering::Equal
}

fn same_comm(x: &Commitment, y: &Commitment) -> bool {
    seq(x.ident, y.ident) && peq(x.hiding, y.hiding) && peq(x.binding, y.binding)
}

//@harness verif_frost_@S@_choose2 60 crate::frost::@S@::scalar_cmp_vartime=st_scalar_cmp
{
    let kb: [u8; 2 * NS] = kani::any();
    let ib: [u8; 2 * NS] = kani::any();
    let k0 = match nz_scalar(&kb[0..NS]) { Some(s) => s, None => return };
    let k1 = match nz_scalar(&kb[NS..2 * NS]) { Some(s) => s, None => return };
    let (b0, b1) = (&ib[0..NS], &ib[NS..2 * NS]);
    let i0 = match nz_scalar(b0) { Some(s) => s, None => return };
    let i1 = match nz_scalar(b1) { Some(s) => s, None => return };
    let (p, q) = (Point::mulgen(&k0), Point::mulgen(&k1));
    let c0 = Commitment { ident: i0, hiding: p, binding: p };
    let c1 = Commitment { ident: i1, hiding: p, binding: q };
    let co = Coordinator::new(2, mk_gpk(p)).unwrap();
    let comms = [c0, c1];
    assert!(co.choose(&comms[..0]).is_none());
    assert!(co.choose(&comms[..1]).is_none());
    let r = co.choose(&comms);
    assert!(r.is_some() == !wire_eq(b0, b1));
    if let Some(ref v) = r {
        assert!(v.len() == 2);
        if wire_lt(b0, b1) {
            assert!(same_comm(&v[0], &c0) && same_comm(&v[1], &c1));
        } else {
            assert!(same_comm(&v[0], &c1) && same_comm(&v[1], &c0));
        }
    }
    kani::cover!(r.is_some() && wire_lt(b1, b0));
}
