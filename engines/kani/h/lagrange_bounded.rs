// C11 (engine K): the variable-time Lagrange routines of
// src/backend/w64/lagrange.rs.  Included as a child module at the end of
// lagrange.rs (sees private items).
//
// Two layers (assume-guarantee, DESIGN section 1):
//  A. the multi-limb primitives ZIntN::set_add_shifted / set_sub_shifted (the
//     only expensive ones) are decided exactly, for ALL limb values and ALL
//     shift counts, against a reference written differently (verif_lag_zint_*);
//  B. the reduction loops run as they are (real lt / swap / bitlength / ltnw /
//     is_negative, real loop bodies, real exit tests) on BOUNDED operands with
//     full unwinding, the two shifted primitives replaced by their layer-A
//     contract evaluated on 128-bit machine integers.  The replacement checks
//     its own domain (operands and result are sign-extended 128-bit values) with
//     assertions, so a run outside the domain cannot pass silently.
//
// Other stubs: addcarry_u64 / subborrow_u64 -> the portable definitions of
// src/backend/w64/mod.rs (Kani has no model of llvm.x86.addcarry.64).
use super::*;

pub fn st_addcarry_u64(x: u64, y: u64, c: u8) -> (u64, u8) {
    let z = (x as u128).wrapping_add(y as u128).wrapping_add(c as u128);
    (z as u64, (z >> 64) as u8)
}

pub fn st_subborrow_u64(x: u64, y: u64, c: u8) -> (u64, u8) {
    let z = (x as u128).wrapping_sub(y as u128).wrapping_sub(c as u128);
    (z as u64, (z >> 127) as u8)
}


// ------------------------------------------------------------------------
// Layer A: self +- (rhs << s) modulo 2^(64 N), reference by bit offsets

// bits [p, p+64) of x (zero outside 0..64N), p may be negative
fn ref_bits<const N: usize>(x: &[u64; N], p: i64) -> u64 {
    let q = p.div_euclid(64);
    let r = p.rem_euclid(64) as u32;
    let limb = |i: i64| -> u64 {
        let mut v = 0u64;
        let mut j = 0usize;
        while j < N {
            if j as i64 == i {
                v = x[j];
            }
            j += 1;
        }
        v
    };
    let lo = limb(q);
    let hi = limb(q + 1);
    if r == 0 { lo } else { (lo >> r) | (hi << (64 - r)) }
}

fn ref_addsub_shifted<const N: usize>(a: &[u64; N], b: &[u64; N], s: u32, sub: bool) -> [u64; N] {
    let mut d = [0u64; N];
    let mut cc = 0u128;
    let mut i = 0usize;
    while i < N {
        let w = ref_bits::<N>(b, 64 * (i as i64) - (s as i64));
        let t = if sub {
            (a[i] as u128).wrapping_sub(w as u128).wrapping_sub(cc)
        } else {
            (a[i] as u128).wrapping_add(w as u128).wrapping_add(cc)
        };
        d[i] = t as u64;
        cc = if sub { (t >> 127) & 1 } else { t >> 64 };
        i += 1;
    }
    d
}

macro_rules! zint_harness { ($name:ident, $ty:ident, $n:expr) => {
    // unwind: N + 2 limbs (<= 10)
    #[kani::proof]
    #[kani::unwind(10)]
    #[kani::stub(crate::backend::w64::addcarry_u64, st_addcarry_u64)]
    #[kani::stub(crate::backend::w64::subborrow_u64, st_subborrow_u64)]
    fn $name() {
        let a: [u64; $n] = kani::any();
        let b: [u64; $n] = kani::any();
        let s: u32 = kani::any();
        // the callers pass s, s + 1 and 2 s with s a difference of bit lengths
        kani::assume(s <= 2 * 64 * $n);
        let sub: bool = kani::any();
        let mut x = $ty(a);
        if sub {
            x.set_sub_shifted(&$ty(b), s);
        } else {
            x.set_add_shifted(&$ty(b), s);
        }
        let r = ref_addsub_shifted::<$n>(&a, &b, s, sub);
        let mut i = 0usize;
        while i < $n {
            assert!(x.0[i] == r[i]);
            i += 1;
        }
        kani::cover!(sub && s == 0);
        kani::cover!(!sub && s > 0 && s < 64);
        kani::cover!(sub && s >= 64 && (s & 63) == 0 && s < 64 * $n);
        kani::cover!(!sub && s > 64 && (s & 63) != 0 && s < 64 * $n);
        kani::cover!(s >= 64 * $n);
    }
} }

zint_harness!(verif_lag_zint_128, ZInt128, 2);
zint_harness!(verif_lag_zint_256, ZInt256, 4);
zint_harness!(verif_lag_zint_384, ZInt384, 6);
zint_harness!(verif_lag_zint_512, ZInt512, 8);

// ------------------------------------------------------------------------
// Layer B replacements of the shifted primitives (contract of layer A on
// sign-extended 128-bit values; domain asserted)

fn w_get<const N: usize>(x: &[u64; N]) -> i128 {
    let sx = ((x[1] as i64) >> 63) as u64;
    let mut i = 2usize;
    while i < N {
        assert!(x[i] == sx); // stub domain: a sign-extended 128-bit value
        i += 1;
    }
    ((x[0] as u128) | ((x[1] as u128) << 64)) as i128
}

fn w_put<const N: usize>(x: &mut [u64; N], v: i128) {
    x[0] = v as u64;
    x[1] = (v >> 64) as u64;
    let sx = (v >> 127) as u64;
    let mut i = 2usize;
    while i < N {
        x[i] = sx;
        i += 1;
    }
}

fn w_addsh<const N: usize>(this: &mut [u64; N], rhs: &[u64; N], s: u32, sub: bool) {
    if N == 2 {
        // 128-bit type: exact for every value (arithmetic modulo 2^128)
        let a = ((this[0] as u128) | ((this[1] as u128) << 64)) as i128;
        let b = ((rhs[0] as u128) | ((rhs[1] as u128) << 64)) as i128;
        let t = if s < 128 { ((b as u128) << s) as i128 } else { 0 };
        let r = if sub { a.wrapping_sub(t) } else { a.wrapping_add(t) };
        this[0] = r as u64;
        this[1] = (r >> 64) as u64;
        return;
    }
    let a = w_get::<N>(this);
    let b = w_get::<N>(rhs);
    assert!(s < 120); // stub domain
    let t = ((b as u128) << s) as i128;
    assert!((t >> s) == b); // stub domain: the shifted operand fits
    let r = if sub { a.checked_sub(t) } else { a.checked_add(t) };
    assert!(r.is_some()); // stub domain: the result fits
    w_put::<N>(this, r.unwrap());
}

fn st_z128_add(this: &mut ZInt128, rhs: &ZInt128, s: u32) { w_addsh::<2>(&mut this.0, &rhs.0, s, false) }
fn st_z128_sub(this: &mut ZInt128, rhs: &ZInt128, s: u32) { w_addsh::<2>(&mut this.0, &rhs.0, s, true) }
fn st_z256_add(this: &mut ZInt256, rhs: &ZInt256, s: u32) { w_addsh::<4>(&mut this.0, &rhs.0, s, false) }
fn st_z256_sub(this: &mut ZInt256, rhs: &ZInt256, s: u32) { w_addsh::<4>(&mut this.0, &rhs.0, s, true) }
fn st_z384_add(this: &mut ZInt384, rhs: &ZInt384, s: u32) { w_addsh::<6>(&mut this.0, &rhs.0, s, false) }
fn st_z384_sub(this: &mut ZInt384, rhs: &ZInt384, s: u32) { w_addsh::<6>(&mut this.0, &rhs.0, s, true) }
fn st_z512_add(this: &mut ZInt512, rhs: &ZInt512, s: u32) { w_addsh::<8>(&mut this.0, &rhs.0, s, false) }
fn st_z512_sub(this: &mut ZInt512, rhs: &ZInt512, s: u32) { w_addsh::<8>(&mut this.0, &rhs.0, s, true) }

// ------------------------------------------------------------------------
// lagrange128_basisconv_vartime(a, b), documented contract (comment above
// the function): for b >= 1 and a <= b < 2^127 the basis [[a,1],[b,0]] is
// turned into u = e0*[a,1] + e1*[b,0], v = f0*[a,1] + f1*[b,0], size-reduced,
// u not longer than v, bl_nv = bit length of N(v).  Checked for all
// a <= b < 2^BITS: determinant +-1 (same lattice), N(u) <= N(v),
// 2|<u,v>| <= N(u), bl_nv exact, no panic/overflow, termination within the
// unwinding bound.

fn basisconv_contract(bits: u32) {
    let a: u32 = kani::any();
    let b: u32 = kani::any();
    kani::assume(b >= 1 && a <= b && (b >> bits) == 0);
    let (e0, e1, f0, f1, bl_nv) = lagrange128_basisconv_vartime(&[a as u64, 0], &[b as u64, 0]);
    // reference arithmetic on i64 (all quantities below 2^(2*bits+6) <= 2^54 once
    // the size assertion holds; wrapping operators so that no overflow check is
    // posed on harness code)
    let (a, b) = (a as i64, b as i64);
    let bound = 1i64 << (bits + 2);
    assert!(e0 > -bound && e0 < bound && e1 > -bound && e1 < bound);
    assert!(f0 > -bound && f0 < bound && f1 > -bound && f1 < bound);
    let mul = |x: i64, y: i64| x.wrapping_mul(y);
    let add = |x: i64, y: i64| x.wrapping_add(y);
    let det = add(mul(e0, f1), -mul(e1, f0));
    assert!(det == 1 || det == -1);
    let u0 = add(mul(e0, a), mul(e1, b));
    let u1 = e0;
    let v0 = add(mul(f0, a), mul(f1, b));
    let v1 = f0;
    assert!(u0 > -bound && u0 < bound && v0 > -bound && v0 < bound);
    let nu = add(mul(u0, u0), mul(u1, u1));
    let nv = add(mul(v0, v0), mul(v1, v1));
    let sp = add(mul(u0, v0), mul(u1, v1));
    assert!(nu <= nv);
    assert!(add(sp, sp) <= nu && -add(sp, sp) <= nu);
    assert!(bl_nv == 64 - (nv as u64).leading_zeros());
    kani::cover!(a == b);
    kani::cover!(a == 0);
    kani::cover!(a > 0 && a < b && sp < 0);
    kani::cover!(a > 0 && a < b && sp > 0 && e1 != 0 && f1 != 0);
}

macro_rules! bc_harness { ($name:ident, $bits:expr, $unw:expr) => {
    // unwind = BITS + 4 (> every inner limb loop, bound 4 limbs + 1)
    #[kani::proof]
    #[kani::unwind($unw)]
    #[kani::stub(crate::backend::w64::addcarry_u64, st_addcarry_u64)]
    #[kani::stub(crate::backend::w64::subborrow_u64, st_subborrow_u64)]
    #[kani::stub(crate::backend::w64::lagrange::ZInt256::set_add_shifted, st_z256_add)]
    #[kani::stub(crate::backend::w64::lagrange::ZInt256::set_sub_shifted, st_z256_sub)]
    fn $name() {
        basisconv_contract($bits);
    }
} }

bc_harness!(verif_lag_basisconv_b4, 4, 8);
bc_harness!(verif_lag_basisconv_b6, 6, 10);
bc_harness!(verif_lag_basisconv_b8, 8, 12);
bc_harness!(verif_lag_basisconv_b12, 12, 16);

// ------------------------------------------------------------------------
// lagrange128_spec_vartime / lagrange192_spec_vartime(a0, a1, b0, b1):
// reduce the basis [[a0,a1],[b0,b1]] (signed coordinates) and return the
// SECOND coordinates of the reduced basis (shorter vector first) and the bit
// length of the squared norm of the longer one.  The routine's control flow
// depends on the Gram matrix only, which is invariant under exchanging the two
// coordinates, so a second call on [[a1,a0],[b1,b0]] returns the FIRST
// coordinates of the same reduced basis.  Checked for all |coordinates| <
// 2^BITS with a nonzero determinant: both vectors are in the lattice (Cramer:
// integer coefficients, determinant +-1), N(u) <= N(v), 2|<u,v>| <= N(u),
// bit length exact, both calls agree on it.

fn se2(x: i32) -> [u64; 2] {
    [x as i64 as u64, ((x as i64) >> 63) as u64]
}

fn se3(x: i32) -> [u64; 3] {
    [x as i64 as u64, ((x as i64) >> 63) as u64, ((x as i64) >> 63) as u64]
}

fn lo_i128(x: &[u64; 2]) -> i128 {
    ((x[0] as u128) | ((x[1] as u128) << 64)) as i128
}

fn spec_check(bits: u32, a0: i32, a1: i32, b0: i32, b1: i32,
    r1: ([u64; 2], [u64; 2], u32), r0: ([u64; 2], [u64; 2], u32))
{
    let (a0, a1, b0, b1) = (a0 as i64, a1 as i64, b0 as i64, b1 as i64);
    let mul = |x: i64, y: i64| x.wrapping_mul(y);
    let add = |x: i64, y: i64| x.wrapping_add(y);
    let d = add(mul(a0, b1), -mul(a1, b0));
    let (u1, v1, bl) = (lo_i128(&r1.0), lo_i128(&r1.1), r1.2);
    let (u0, v0, bl0) = (lo_i128(&r0.0), lo_i128(&r0.1), r0.2);
    assert!(bl == bl0);
    let bound = 1i128 << (bits + 2);
    assert!(u0 > -bound && u0 < bound && u1 > -bound && u1 < bound);
    assert!(v0 > -bound && v0 < bound && v1 > -bound && v1 < bound);
    // from here on i64 (everything below 2^(2*bits+6) <= 2^34)
    let (u0, u1, v0, v1) = (u0 as i64, u1 as i64, v0 as i64, v1 as i64);
    // u = x*a + y*b, v = z*a + w*b with x = det(u,b)/d, y = det(a,u)/d, ...
    let xn = add(mul(u0, b1), -mul(u1, b0));
    let yn = add(mul(a0, u1), -mul(a1, u0));
    let zn = add(mul(v0, b1), -mul(v1, b0));
    let wn = add(mul(a0, v1), -mul(a1, v0));
    assert!(xn % d == 0 && yn % d == 0 && zn % d == 0 && wn % d == 0);
    let det = add(mul(u0, v1), -mul(u1, v0));
    assert!(det == d || det == -d);
    let nu = add(mul(u0, u0), mul(u1, u1));
    let nv = add(mul(v0, v0), mul(v1, v1));
    let sp = add(mul(u0, v0), mul(u1, v1));
    assert!(nu <= nv);
    assert!(add(sp, sp) <= nu && -add(sp, sp) <= nu);
    assert!(bl == 64 - (nv as u64).leading_zeros());
    kani::cover!(sp < 0 && nu < nv);
    kani::cover!(sp > 0 && d < 0);
    kani::cover!(nu == nv);
}

fn spec_inputs(bits: u32) -> (i32, i32, i32, i32) {
    let a0: i32 = kani::any();
    let a1: i32 = kani::any();
    let b0: i32 = kani::any();
    let b1: i32 = kani::any();
    let lim = 1i32 << bits;
    kani::assume(a0 > -lim && a0 < lim && a1 > -lim && a1 < lim);
    kani::assume(b0 > -lim && b0 < lim && b1 > -lim && b1 < lim);
    kani::assume((a0 as i64) * (b1 as i64) != (a1 as i64) * (b0 as i64));
    (a0, a1, b0, b1)
}

// NOT INSTANTIATED in the posed set: the two-call harness does not close at 3-bit
// operands within 20 min (measured); kept for larger machines:
//   spec_harness!(verif_lag_spec128_b3, verif_lag_spec192_b3, 3, 11);
#[allow(unused_macros)]
macro_rules! spec_harness { ($n128:ident, $n192:ident, $bits:expr, $unw:expr) => {
    // unwind = BITS + 8
    #[kani::proof]
    #[kani::unwind($unw)]
    #[kani::stub(crate::backend::w64::addcarry_u64, st_addcarry_u64)]
    #[kani::stub(crate::backend::w64::subborrow_u64, st_subborrow_u64)]
    #[kani::stub(crate::backend::w64::lagrange::ZInt128::set_add_shifted, st_z128_add)]
    #[kani::stub(crate::backend::w64::lagrange::ZInt128::set_sub_shifted, st_z128_sub)]
    #[kani::stub(crate::backend::w64::lagrange::ZInt256::set_add_shifted, st_z256_add)]
    #[kani::stub(crate::backend::w64::lagrange::ZInt256::set_sub_shifted, st_z256_sub)]
    fn $n128() {
        let (a0, a1, b0, b1) = spec_inputs($bits);
        let r1 = lagrange128_spec_vartime(&se2(a0), &se2(a1), &se2(b0), &se2(b1));
        let r0 = lagrange128_spec_vartime(&se2(a1), &se2(a0), &se2(b1), &se2(b0));
        spec_check($bits, a0, a1, b0, b1, r1, r0);
    }

    #[kani::proof]
    #[kani::unwind($unw)]
    #[kani::stub(crate::backend::w64::addcarry_u64, st_addcarry_u64)]
    #[kani::stub(crate::backend::w64::subborrow_u64, st_subborrow_u64)]
    #[kani::stub(crate::backend::w64::lagrange::ZInt128::set_add_shifted, st_z128_add)]
    #[kani::stub(crate::backend::w64::lagrange::ZInt128::set_sub_shifted, st_z128_sub)]
    #[kani::stub(crate::backend::w64::lagrange::ZInt384::set_add_shifted, st_z384_add)]
    #[kani::stub(crate::backend::w64::lagrange::ZInt384::set_sub_shifted, st_z384_sub)]
    fn $n192() {
        let (a0, a1, b0, b1) = spec_inputs($bits);
        let r1 = lagrange192_spec_vartime(&se3(a0), &se3(a1), &se3(b0), &se3(b1));
        let r0 = lagrange192_spec_vartime(&se3(a1), &se3(a0), &se3(b1), &se3(b0));
        spec_check($bits, a0, a1, b0, b1, r1, r0);
    }
} }


// ------------------------------------------------------------------------
// The same two routines on the lattice shape used by split_vartime: a basis
// of L(k, n) = { (x, y) : x = y*k mod n }, presented as
// a = [k + t*n, 1], b = [+-n, 0] (t in -2..2, optionally exchanged).  Here the
// second coordinate of a lattice vector determines the first one modulo n, so
// ONE call suffices: u0 is the centered residue of u1*k (|u0| <= |u| < n/2),
// v0 is the residue r of v1*k, r - n or r + n (one of them must do).
// Checked for all k < n < 2^BITS (n >= 5): such (u0, v0) exist, the basis is
// size-reduced, N(u) <= N(v), returned bit length = bitlen(N(v)).

fn spec_kn_inputs(bits: u32) -> (i32, i32, [i32; 4]) {
    let k: i32 = kani::any();
    let n: i32 = kani::any();
    let t: i32 = kani::any();
    let neg: bool = kani::any();
    let swap: bool = kani::any();
    kani::assume(n >= 5 && k >= 0 && k < n && (n >> bits) == 0);
    kani::assume(t >= -2 && t <= 2);
    let a = (k + t * n, 1);
    let b = (if neg { -n } else { n }, 0);
    let (a, b) = if swap { (b, a) } else { (a, b) };
    (k, n, [a.0, a.1, b.0, b.1])
}

fn spec_kn_check(bits: u32, k: i32, n: i32, r: ([u64; 2], [u64; 2], u32)) {
    let (u1, v1, bl) = (lo_i128(&r.0), lo_i128(&r.1), r.2);
    let bound = 1i128 << (bits + 2);
    assert!(u1 > -bound && u1 < bound && v1 > -bound && v1 < bound);
    let (u1, v1, k, n) = (u1 as i64, v1 as i64, k as i64, n as i64);
    let mul = |x: i64, y: i64| x.wrapping_mul(y);
    let add = |x: i64, y: i64| x.wrapping_add(y);
    let cen = |x: i64| { let r = x.rem_euclid(n); if 2 * r > n { r - n } else { r } };
    let u0 = cen(mul(u1, k));
    let r = mul(v1, k).rem_euclid(n);
    let nu = add(mul(u0, u0), mul(u1, u1));
    // v0 is r, r - n or r + n: SOME candidate must complete u into a size-reduced
    // basis of determinant +-n whose squared norm has the returned bit length
    // (for |u1| = 2 two candidates have determinant +-n, only one is reduced)
    let good = |v0: i64| -> bool {
        let det = add(mul(u0, v1), -mul(u1, v0));
        let nv = add(mul(v0, v0), mul(v1, v1));
        let sp = add(mul(u0, v0), mul(u1, v1));
        (det == n || det == -n) && nu <= nv && add(sp, sp) <= nu && -add(sp, sp) <= nu
            && bl == 64 - (nv as u64).leading_zeros()
    };
    assert!(good(r) || good(r - n) || good(r + n));
    let v0 = if good(r) { r } else if good(r - n) { r - n } else { r + n };
    let nv = add(mul(v0, v0), mul(v1, v1));
    let sp = add(mul(u0, v0), mul(u1, v1));
    kani::cover!(sp < 0 && nu < nv);
    kani::cover!(sp > 0 && u1 < 0);
    kani::cover!(k == 0);
}

macro_rules! spec_kn_harness { ($n128:ident, $n192:ident, $bits:expr, $unw:expr) => {
    // unwind = BITS + 8
    #[kani::proof]
    #[kani::unwind($unw)]
    #[kani::stub(crate::backend::w64::addcarry_u64, st_addcarry_u64)]
    #[kani::stub(crate::backend::w64::subborrow_u64, st_subborrow_u64)]
    #[kani::stub(crate::backend::w64::lagrange::ZInt128::set_add_shifted, st_z128_add)]
    #[kani::stub(crate::backend::w64::lagrange::ZInt128::set_sub_shifted, st_z128_sub)]
    #[kani::stub(crate::backend::w64::lagrange::ZInt256::set_add_shifted, st_z256_add)]
    #[kani::stub(crate::backend::w64::lagrange::ZInt256::set_sub_shifted, st_z256_sub)]
    fn $n128() {
        let (k, n, c) = spec_kn_inputs($bits);
        let r = lagrange128_spec_vartime(&se2(c[0]), &se2(c[1]), &se2(c[2]), &se2(c[3]));
        spec_kn_check($bits, k, n, r);
    }

    #[kani::proof]
    #[kani::unwind($unw)]
    #[kani::stub(crate::backend::w64::addcarry_u64, st_addcarry_u64)]
    #[kani::stub(crate::backend::w64::subborrow_u64, st_subborrow_u64)]
    #[kani::stub(crate::backend::w64::lagrange::ZInt128::set_add_shifted, st_z128_add)]
    #[kani::stub(crate::backend::w64::lagrange::ZInt128::set_sub_shifted, st_z128_sub)]
    #[kani::stub(crate::backend::w64::lagrange::ZInt384::set_add_shifted, st_z384_add)]
    #[kani::stub(crate::backend::w64::lagrange::ZInt384::set_sub_shifted, st_z384_sub)]
    fn $n192() {
        let (k, n, c) = spec_kn_inputs($bits);
        let r = lagrange192_spec_vartime(&se3(c[0]), &se3(c[1]), &se3(c[2]), &se3(c[3]));
        spec_kn_check($bits, k, n, r);
    }
} }

spec_kn_harness!(verif_lag_spec128_kn_b4, verif_lag_spec192_kn_b4, 4, 12);
spec_kn_harness!(verif_lag_spec128_kn_b6, verif_lag_spec192_kn_b6, 6, 14);

// ------------------------------------------------------------------------
// lagrange256_vartime(k, n, max_bitlen): for 0 <= k < n returns (v0, v1), a
// nonzero vector of the lattice [[n,0],[k,1]] (v0 = v1*k mod n) with
// N(v) < 2^max_bitlen when the routine finds one; otherwise it stops at a
// shortest vector ("stuck" exit).  Checked for all k < n < 2^BITS, n odd, and
// all max_bitlen <= 2*BITS + 2: membership, v != 0, and either the requested
// length or the Hermite bound 3 N(v)^2 <= 4 n^2 of a shortest vector;
// termination within the unwinding bound.

fn l256_contract(bits: u32) {
    let k: u32 = kani::any();
    let n: u32 = kani::any();
    let mb: u32 = kani::any();
    kani::assume(n >= 3 && (n & 1) == 1 && k < n && (n >> bits) == 0);
    kani::assume(mb <= 2 * bits + 2);
    let (v0, v1) = lagrange256_vartime(&[k as u64, 0, 0, 0], &[n as u64, 0, 0, 0], mb);
    let (v0, v1) = (lo_i128(&v0), lo_i128(&v1));
    let bound = 1i128 << (bits + 2);
    assert!(v0 > -bound && v0 < bound && v1 > -bound && v1 < bound);
    assert!(v0 != 0 || v1 != 0);
    // from here on i64 (bits <= 14: N(v)^2 and n^2 stay below 2^62)
    let (v0, v1, k, n) = (v0 as i64, v1 as i64, k as i64, n as i64);
    let mul = |x: i64, y: i64| x.wrapping_mul(y);
    let add = |x: i64, y: i64| x.wrapping_add(y);
    // lattice membership
    assert!(add(v0, -mul(v1, k)) % n == 0);
    let nv = add(mul(v0, v0), mul(v1, v1));
    let short = 64 - (nv as u64).leading_zeros() <= mb;
    // requested length reached, or a shortest vector: 3 N(v)^2 <= 4 n^2 (Hermite)
    let lhs = (nv as u128) * (nv as u128) * 3;
    let rhs = (n as u128) * (n as u128) * 4;
    assert!(short || lhs <= rhs);
    kani::cover!(short && v1 < 0);
    kani::cover!(!short);
    kani::cover!(short && k == 0);
}

// NOT INSTANTIATED in the posed set: 1.85 M symex steps at 4-bit operands (8-limb
// ZInt512 products), CBMC ran out of memory (18 GB); kept for larger machines:
//   l256_harness!(verif_lag_l256_b4, 4, 10);
#[allow(unused_macros)]
macro_rules! l256_harness { ($name:ident, $bits:expr, $unw:expr) => {
    // unwind = BITS + 6 (>= 10: 8 limbs of ZInt512)
    #[kani::proof]
    #[kani::unwind($unw)]
    #[kani::stub(crate::backend::w64::addcarry_u64, st_addcarry_u64)]
    #[kani::stub(crate::backend::w64::subborrow_u64, st_subborrow_u64)]
    #[kani::stub(crate::backend::w64::lagrange::ZInt128::set_add_shifted, st_z128_add)]
    #[kani::stub(crate::backend::w64::lagrange::ZInt128::set_sub_shifted, st_z128_sub)]
    #[kani::stub(crate::backend::w64::lagrange::ZInt384::set_add_shifted, st_z384_add)]
    #[kani::stub(crate::backend::w64::lagrange::ZInt384::set_sub_shifted, st_z384_sub)]
    #[kani::stub(crate::backend::w64::lagrange::ZInt512::set_add_shifted, st_z512_add)]
    #[kani::stub(crate::backend::w64::lagrange::ZInt512::set_sub_shifted, st_z512_sub)]
    fn $name() {
        l256_contract($bits);
    }
} }

