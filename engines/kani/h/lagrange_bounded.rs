// C11 (engine K): the variable-time Lagrange routines of
// src/backend/w64/lagrange.rs on BOUNDED operand sizes, full unwinding.
// Included as a child module at the end of lagrange.rs (sees private items).
//
// Stubs: addcarry_u64 / subborrow_u64 -> the portable definitions of
// src/backend/w64/mod.rs (Kani has no model of llvm.x86.addcarry.64).
use super::*;

pub fn st_addcarry_u64(x: u64, y: u64, c: u8) -> (u64, u8) {
    let z = (x as u128).wrapping_add(y as u128).wrapping_add(c as u128);
    (z as u64, (z >> 64) as u8)
}

pub fn st_subborrow_u64(x: u64, y: u64, c: u8) -> (u64, u8) {
    let z = (x as u128).wrapping_sub(y as u128).wrapping_sub(c as u128);
    (z as u64, (z >> 127) as u8)
}

fn bitlen_u128(x: u128) -> u32 {
    128 - x.leading_zeros()
}

// ------------------------------------------------------------------------
// lagrange128_basisconv_vartime(a, b), documented contract (comment above
// the function): for b >= 1 and a <= b < 2^127 the basis [[a,1],[b,0]] is
// turned into u = e0*[a,1] + e1*[b,0], v = f0*[a,1] + f1*[b,0], size-reduced,
// u not longer than v, bl_nv = bit length of N(v).  Checked here for all
// a <= b < 2^BITS: determinant +-1 (same lattice), N(u) <= N(v),
// 2|<u,v>| <= N(u), bl_nv exact, no panic/overflow, terminates within the
// unwinding bound.

fn basisconv_contract(bits: u32) {
    let a: u32 = kani::any();
    let b: u32 = kani::any();
    kani::assume(b >= 1 && a <= b && (b >> bits) == 0);
    let (e0, e1, f0, f1, bl_nv) = lagrange128_basisconv_vartime(&[a as u64, 0], &[b as u64, 0]);
    // everything below fits easily in i128 (|e|,|f| <= 2^(bits+1))
    let (a, b) = (a as i128, b as i128);
    let (e0, e1, f0, f1) = (e0 as i128, e1 as i128, f0 as i128, f1 as i128);
    let bound = 1i128 << (bits + 2);
    assert!(e0.abs() < bound && e1.abs() < bound && f0.abs() < bound && f1.abs() < bound);
    let det = e0 * f1 - e1 * f0;
    assert!(det == 1 || det == -1);
    let u0 = e0 * a + e1 * b;
    let u1 = e0;
    let v0 = f0 * a + f1 * b;
    let v1 = f0;
    let nu = u0 * u0 + u1 * u1;
    let nv = v0 * v0 + v1 * v1;
    let sp = u0 * v0 + u1 * v1;
    assert!(nu <= nv);
    assert!(2 * sp.abs() <= nu);
    assert!(bl_nv == bitlen_u128(nv as u128));
    kani::cover!(a == b);
    kani::cover!(a == 0);
    kani::cover!(a > 0 && a < b && sp < 0);
    kani::cover!(a > 0 && a < b && sp > 0 && e1 != 0 && f1 != 0);
}

macro_rules! bc_harness { ($name:ident, $bits:expr) => {
    #[kani::proof]
    #[kani::unwind(5)]
    #[kani::stub(crate::backend::w64::addcarry_u64, st_addcarry_u64)]
    #[kani::stub(crate::backend::w64::subborrow_u64, st_subborrow_u64)]
    fn $name() {
        basisconv_contract($bits);
    }
} }

bc_harness!(verif_lag_basisconv_b3, 3);
bc_harness!(verif_lag_basisconv_b4, 4);
bc_harness!(verif_lag_basisconv_b5, 5);
bc_harness!(verif_lag_basisconv_b6, 6);
