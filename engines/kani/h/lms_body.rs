// C16 (LMS) Kani harness body, shared by the four parameter-set wrappers
// lms_s256m32.rs, lms_s256m24.rs, lms_shakem24.rs, lms_shakem32.rs (each does
// `use super::*;`, defines the EXP_* specification constants and `include!`s
// this file).  The including module is a child of one `pub mod LMS_...` block of
// src/lms.rs, so the private items (PrivateKey fields, ots_sign, ots_verify,
// coef, checksum, Hn/Hm/Hnx, constants n m w h p ls) are in scope.
//
// NOTE: the parent module defines lower-case constants n, m, w, h, p, ls; no
// local variable in this file may use one of these names.
//
// Design rule: every assertion is phrased against an independent RFC 8554
// transcription (the ref_* functions) that calls the module's own Hn/Hm/Hnx.
// Under Kani these are replaced by the deterministic mixers below (functional
// consistency); in native concrete playback (no stubs) the same assertions are
// meaningful with the real hash functions, so a replayed failure is a real one.

// ------------------------------------------------------------------------
// Deterministic, position-sensitive stand-ins for the hash functions.
// Every byte of every argument and every argument length influences the
// output; arguments are not interchangeable (different rotation depth).

fn vmix5(dom: u8, m1: &[u8], m2: &[u8], m3: &[u8], m4: &[u8], m5: &[u8], out: &mut [u8]) {
    let l1 = m1.len();
    let l2 = m2.len();
    let l3 = m3.len();
    let l4 = m4.len();
    let l5 = m5.len();
    let lt = (l1 as u8).wrapping_mul(3)
        ^ (l2 as u8).wrapping_mul(5)
        ^ (l3 as u8).wrapping_mul(7)
        ^ (l4 as u8).wrapping_mul(11)
        ^ (l5 as u8).wrapping_mul(13)
        ^ dom;
    let lo = out.len();
    let mut k = 0usize;
    while k < lo {
        let mut v = (k as u8).wrapping_mul(0x1d) ^ lt;
        if l1 > 0 { v = v.rotate_left(1).wrapping_add(m1[k % l1]); }
        if l2 > 0 { v = v.rotate_left(1) ^ m2[k % l2]; }
        if l3 > 0 { v = v.rotate_left(1).wrapping_add(m3[k % l3]); }
        if l4 > 0 { v = v.rotate_left(1) ^ m4[k % l4]; }
        if l5 > 0 { v = v.rotate_left(1).wrapping_add(m5[k % l5]); }
        out[k] = v;
        k += 1;
    }
}

fn hn_mix(m1: &[u8], m2: &[u8], m3: &[u8], m4: &[u8], m5: &[u8]) -> [u8; n] {
    let mut r = [0u8; n];
    vmix5(1, m1, m2, m3, m4, m5, &mut r);
    r
}

fn hm_mix(m1: &[u8], m2: &[u8], m3: &[u8], m4: &[u8], m5: &[u8]) -> [u8; m] {
    let mut r = [0u8; m];
    vmix5(2, m1, m2, m3, m4, m5, &mut r);
    r
}

fn hnx_mix(m1: &[u8], m2: &[u8], m3: &[u8], mm: &[[u8; n]; p]) -> [u8; n] {
    let mut r = [0u8; n];
    vmix5(3, m1, m2, m3, &[], &[], &mut r);
    let mut i = 0usize;
    while i < p {
        let mut k = 0usize;
        while k < n {
            r[k] = (r[k].rotate_left(1) ^ mm[i][k]).wrapping_add(i as u8);
            k += 1;
        }
        i += 1;
    }
    r
}

// Stand-in for PrivateKey::ots_sign in the harnesses that are about the LMS
// layer (state machine, authentication path): draws C from the RNG exactly like
// the real function (so order-of-effects observations still work) and returns
// a deterministic mix of (I, q, SEED, C, msg).  It ignores current_leaf and T,
// like the real function.
fn ots_sign_mix<R: CryptoRng + RngCore>(sk: PrivateKey, rng: &mut R, q: u32, msg: &[u8])
    -> [u8; ots_siglen]
{
    let mut c = [0u8; n];
    rng.fill_bytes(&mut c);
    let e = ref_u32str(q);
    let mut sig = [0u8; ots_siglen];
    vmix5(4, &sk.I, &e, &sk.SEED, &c, msg, &mut sig);
    sig
}

// ------------------------------------------------------------------------
// RNG double.  Returns a caller-chosen tape and records (a) how it was
// called and (b) the value of the key's current_leaf at the time of the first
// call (through a raw pointer; the first RNG call is the first externally
// observable effect of signing and the first point where signing can fail).

struct VRng {
    tape: [u8; n],
    leafp: *const u32,
    seen: u32,
    calls: u32,
    other: u32,
    lastlen: usize,
}

impl VRng {
    fn new(tape: [u8; n], leafp: *const u32) -> Self {
        Self { tape, leafp, seen: 0xFFFF_FFFF, calls: 0, other: 0, lastlen: 0 }
    }
}

impl RngCore for VRng {
    fn next_u32(&mut self) -> u32 {
        self.other = self.other.wrapping_add(1);
        0
    }
    fn next_u64(&mut self) -> u64 {
        self.other = self.other.wrapping_add(1);
        0
    }
    fn fill_bytes(&mut self, dst: &mut [u8]) {
        if self.calls == 0 && !self.leafp.is_null() {
            self.seen = unsafe { *self.leafp };
        }
        self.calls = self.calls.wrapping_add(1);
        let l = dst.len();
        self.lastlen = l;
        let mut k = 0usize;
        while k < l {
            dst[k] = self.tape[k % n];
            k += 1;
        }
    }
    fn try_fill_bytes(&mut self, dst: &mut [u8]) -> Result<(), RngError> {
        self.fill_bytes(dst);
        Ok(())
    }
}

impl CryptoRng for VRng {}

use crate::RngError;

// ------------------------------------------------------------------------
// RFC 8554 transcription (independent of the code under test).

// section 3.1.2: u32str / u16str are big-endian
fn ref_u32str(x: u32) -> [u8; 4] {
    [(x >> 24) as u8, (x >> 16) as u8, (x >> 8) as u8, x as u8]
}

fn ref_u16str(x: u16) -> [u8; 2] {
    [(x >> 8) as u8, x as u8]
}

fn ref_strtou32(s: &[u8], off: usize) -> u32 {
    ((s[off] as u32) << 24) | ((s[off + 1] as u32) << 16) | ((s[off + 2] as u32) << 8) | (s[off + 3] as u32)
}

// section 3.1.3: coef(S, i, w) is the i-th w-bit field of S, most significant
// field first, most significant bit first.  Written bit by bit on purpose
// (the library uses the shift/mask formula of the RFC).
fn ref_coef(s: &[u8], i: usize) -> u32 {
    let mut v = 0u32;
    let mut t = 0usize;
    while t < EXP_W {
        let b = i * EXP_W + t;
        let bit = (s[b / 8] >> (7 - (b % 8))) & 1;
        v = (v << 1) | (bit as u32);
        t += 1;
    }
    v
}

// section 4.4: Cksm(S) = (sum_{i < 8n/w} (2^w - 1 - coef(S, i, w))) << ls, a 16-bit value
fn ref_cksm(s: &[u8]) -> u16 {
    let mut sum = 0u32;
    let mut i = 0usize;
    while i < (EXP_N * 8) / EXP_W {
        sum += ((1u32 << EXP_W) - 1) - ref_coef(s, i);
        i += 1;
    }
    ((sum << EXP_LS) & 0xFFFF) as u16
}

// Q || Cksm(Q)
fn ref_qck(q: &[u8; n]) -> [u8; n + 2] {
    let mut r = [0u8; n + 2];
    let mut k = 0usize;
    while k < EXP_N {
        r[k] = q[k];
        k += 1;
    }
    let c = ref_u16str(ref_cksm(q));
    r[EXP_N] = c[0];
    r[EXP_N + 1] = c[1];
    r
}

const REF_D_PBLC: u16 = 0x8080;
const REF_D_MESG: u16 = 0x8181;
const REF_D_LEAF: u16 = 0x8282;
const REF_D_INTR: u16 = 0x8383;

// Appendix A: x_q[i] = H(I || u32str(q) || u16str(i) || u8str(0xff) || SEED)
fn ref_x(id: &[u8; 16], seed: &[u8; m], q: u32, i: usize) -> [u8; n] {
    Hn(id, &ref_u32str(q), &ref_u16str(i as u16), &[0xFFu8], seed)
}

// one Winternitz chain: apply H(I || u32str(q) || u16str(i) || u8str(j) || tmp)
// for j = from .. to-1
fn ref_chain(id: &[u8; 16], q: u32, i: usize, from: usize, to: usize, start: &[u8; n]) -> [u8; n] {
    let e = ref_u32str(q);
    let ei = ref_u16str(i as u16);
    let mut tmp = *start;
    let mut j = from;
    while j < to {
        tmp = Hn(id, &e, &ei, &[j as u8], &tmp);
        j += 1;
    }
    tmp
}

// section 4.3 (Algorithm 1): LM-OTS public key hash K for leaf q
fn ref_ots_pub(id: &[u8; 16], seed: &[u8; m], q: u32) -> [u8; n] {
    let mut y = [[0u8; n]; p];
    let mut i = 0usize;
    while i < EXP_P {
        let x = ref_x(id, seed, q, i);
        y[i] = ref_chain(id, q, i, 0, (1usize << EXP_W) - 1, &x);
        i += 1;
    }
    Hnx(id, &ref_u32str(q), &ref_u16str(REF_D_PBLC), &y)
}

// section 4.5 (Algorithm 3): LM-OTS signature u32str(type) || C || y[0] || ... || y[p-1]
fn ref_ots_sign(id: &[u8; 16], seed: &[u8; m], q: u32, c: &[u8; n], msg: &[u8]) -> [u8; ots_siglen] {
    let mut sig = [0u8; ots_siglen];
    let ty = ref_u32str(EXP_OTS_TYPE);
    sig[0] = ty[0];
    sig[1] = ty[1];
    sig[2] = ty[2];
    sig[3] = ty[3];
    let mut k = 0usize;
    while k < EXP_N {
        sig[4 + k] = c[k];
        k += 1;
    }
    let qq = Hn(id, &ref_u32str(q), &ref_u16str(REF_D_MESG), c, msg);
    let qc = ref_qck(&qq);
    let mut i = 0usize;
    while i < EXP_P {
        let a = ref_coef(&qc, i) as usize;
        let x = ref_x(id, seed, q, i);
        let y = ref_chain(id, q, i, 0, a, &x);
        let mut k = 0usize;
        while k < EXP_N {
            sig[4 + EXP_N + i * EXP_N + k] = y[k];
            k += 1;
        }
        i += 1;
    }
    sig
}

// section 4.6 (Algorithm 4b): LM-OTS public key candidate Kc from an LM-OTS signature
fn ref_ots_kc(id: &[u8; 16], q: u32, osig: &[u8], msg: &[u8]) -> Option<[u8; n]> {
    if osig.len() < 4 {
        return None;
    }
    if ref_strtou32(osig, 0) != EXP_OTS_TYPE {
        return None;
    }
    if osig.len() != 4 + EXP_N * (EXP_P + 1) {
        return None;
    }
    let mut c = [0u8; n];
    let mut k = 0usize;
    while k < EXP_N {
        c[k] = osig[4 + k];
        k += 1;
    }
    let qq = Hn(id, &ref_u32str(q), &ref_u16str(REF_D_MESG), &c, msg);
    let qc = ref_qck(&qq);
    let mut z = [[0u8; n]; p];
    let mut i = 0usize;
    while i < EXP_P {
        let a = ref_coef(&qc, i) as usize;
        let mut y = [0u8; n];
        let mut k = 0usize;
        while k < EXP_N {
            y[k] = osig[4 + EXP_N + i * EXP_N + k];
            k += 1;
        }
        z[i] = ref_chain(id, q, i, a, (1usize << EXP_W) - 1, &y);
        i += 1;
    }
    Some(Hnx(id, &ref_u32str(q), &ref_u16str(REF_D_PBLC), &z))
}

// section 5.4.2 (Algorithms 6 and 6a): LMS signature verification
fn ref_verify(id: &[u8; 16], root: &[u8; m], sig: &[u8], msg: &[u8]) -> bool {
    if sig.len() < 8 {
        return false;
    }
    let q = ref_strtou32(sig, 0);
    if ref_strtou32(sig, 4) != EXP_OTS_TYPE {
        return false;
    }
    let ol = 4 + EXP_N * (EXP_P + 1);
    if sig.len() < 8 + ol {
        return false;
    }
    if ref_strtou32(sig, 4 + ol) != EXP_LMS_TYPE {
        return false;
    }
    if q >= (1u32 << EXP_H) || sig.len() != 8 + ol + EXP_M * EXP_H {
        return false;
    }
    let kc = match ref_ots_kc(id, q, &sig[4..(4 + ol)], msg) {
        None => return false,
        Some(x) => x,
    };
    let mut node = (1u32 << EXP_H) + q;
    let mut tmp = Hm(id, &ref_u32str(node), &ref_u16str(REF_D_LEAF), &kc, &[]);
    let mut i = 0usize;
    while i < EXP_H {
        let mut pe = [0u8; m];
        let mut k = 0usize;
        while k < EXP_M {
            pe[k] = sig[8 + ol + i * EXP_M + k];
            k += 1;
        }
        let odd = (node % 2) == 1;
        node = node / 2;
        if odd {
            tmp = Hm(id, &ref_u32str(node), &ref_u16str(REF_D_INTR), &pe, &tmp);
        } else {
            tmp = Hm(id, &ref_u32str(node), &ref_u16str(REF_D_INTR), &tmp, &pe);
        }
        i += 1;
    }
    let mut same = true;
    let mut k = 0usize;
    while k < EXP_M {
        if tmp[k] != root[k] {
            same = false;
        }
        k += 1;
    }
    same
}

// ------------------------------------------------------------------------
// helpers

fn mk_key(leaf: u32) -> PrivateKey {
    PrivateKey { I: kani::any(), SEED: kani::any(), current_leaf: leaf, T: kani::any() }
}

const NLEAF: u32 = 1u32 << EXP_H;
const NNODE: usize = 1usize << (EXP_H + 1);

// ------------------------------------------------------------------------
// H0: constants of the parameter set against the RFC tables

#[kani::proof]
#[kani::unwind(40)]
fn verif_lms_params() {
    assert!(n == EXP_N && m == EXP_M && w == EXP_W && h == EXP_H);
    assert!(p == EXP_P && ls == EXP_LS);
    assert!(key_type == EXP_LMS_TYPE && ots_type == EXP_OTS_TYPE);
    assert!(ots_siglen == EXP_OTS_SIGLEN && lms_siglen == EXP_SIGLEN);
    // RFC 8554 section 4.1: u = ceil(8n/w), v = ceil((floor(lg((2^w-1)*u))+1)/w),
    // ls = 16 - v*w, p = u + v
    let u = (8 * EXP_N + EXP_W - 1) / EXP_W;
    let x = ((1usize << EXP_W) - 1) * u;
    let mut lg = 0usize;
    while (x >> (lg + 1)) != 0 {
        lg += 1;
    }
    let v = (lg + 1 + EXP_W - 1) / EXP_W;
    assert!(p == u + v && ls == 16 - v * EXP_W);
    assert!(D_PBLC == ref_u16str(REF_D_PBLC) && D_MESG == ref_u16str(REF_D_MESG));
    assert!(D_LEAF == ref_u16str(REF_D_LEAF) && D_INTR == ref_u16str(REF_D_INTR));
    // public key is (I, T[1])
    let sk = mk_key(kani::any());
    let pk = sk.compute_public();
    let b: usize = kani::any();
    kani::assume(b < EXP_M);
    assert!(pk.T1[b] == sk.T[1][b]);
    let c: usize = kani::any();
    kani::assume(c < 16);
    assert!(pk.I[c] == sk.I[c]);
    kani::cover!(pk.T1[b] == 0x5a && pk.I[c] == 0xa5);
}

// ------------------------------------------------------------------------
// H1: coef / checksum for all Q (bit-precise)

#[kani::proof]
#[kani::unwind(40)]
fn verif_lms_coef_cksm() {
    let qq: [u8; n] = kani::any();
    // checksum over all n-byte Q
    let ck = checksum(&qq);
    assert!(ck == ref_cksm(&qq));
    // coef over Q || Cksm(Q) and over an arbitrary (n+2)-byte string, all indices < p
    let s: [u8; n + 2] = kani::any();
    let i: usize = kani::any();
    kani::assume(i < EXP_P);
    assert!(coef(&s, i) as u32 == ref_coef(&s, i));
    let qc = ref_qck(&qq);
    assert!(coef(&qc, i) as u32 == ref_coef(&qc, i));
    kani::cover!(ck == 0);
    kani::cover!(ck as usize == ((1usize << EXP_W) - 1) * ((EXP_N * 8) / EXP_W) << EXP_LS);
    kani::cover!(i == EXP_P - 1 && coef(&s, i) == 0x80);
}

// ------------------------------------------------------------------------
// H2: sign, state machine, from an ARBITRARY key state (one-step induction)

#[kani::proof]
#[kani::unwind(1126)] // ots_sign_mix fills ots_siglen (<= 1124) bytes in one loop
#[kani::stub(PrivateKey::ots_sign, ots_sign_mix)]
fn verif_lms_sign_state() {
    let old: u32 = kani::any();
    let mut sk = mk_key(old);
    let sk0 = sk;
    let msg: [u8; 3] = kani::any();
    let tape: [u8; n] = kani::any();
    let mut rng = VRng::new(tape, core::ptr::addr_of!(sk.current_leaf));
    let r = sk.sign(&mut rng, &msg);
    let exhausted = old >= NLEAF;
    assert!(r.is_none() == exhausted);
    // I, SEED, T are never modified by sign
    let a: usize = kani::any();
    let b: usize = kani::any();
    let c: usize = kani::any();
    kani::assume(a < NNODE && b < EXP_M && c < 16);
    assert!(sk.T[a][b] == sk0.T[a][b]);
    assert!(sk.SEED[b] == sk0.SEED[b]);
    assert!(sk.I[c] == sk0.I[c]);
    match r {
        None => {
            // exhaustion is absorbing: state bit-identical, nothing drawn from the RNG
            assert!(sk.current_leaf == old);
            assert!(rng.calls == 0 && rng.other == 0);
            kani::cover!(old == NLEAF);
            kani::cover!(old == 0xFFFF_FFFF);
        }
        Some(sig) => {
            assert!(old < NLEAF);
            assert!(sig.len() == EXP_SIGLEN);
            // the index used is the OLD current_leaf, the state moves to old + 1
            assert!(sk.current_leaf == old + 1);
            let e = ref_u32str(old);
            assert!(sig[0] == e[0] && sig[1] == e[1] && sig[2] == e[2] && sig[3] == e[3]);
            // order of effects: when the RNG is first asked for bytes the key
            // state has already been advanced
            assert!(rng.calls == 1 && rng.other == 0 && rng.lastlen == EXP_N);
            assert!(rng.seen == old + 1);
            // bytes 4 .. 4+ots_siglen are ots_sign(q = old, msg) with the same randomness
            let mut rng2 = VRng::new(tape, core::ptr::null());
            let exp = sk0.ots_sign(&mut rng2, old, &msg);
            let k: usize = kani::any();
            kani::assume(k < EXP_OTS_SIGLEN);
            assert!(sig[4 + k] == exp[k]);
            // LMS type word
            let t = ref_u32str(EXP_LMS_TYPE);
            let o = 4 + EXP_OTS_SIGLEN;
            assert!(sig[o] == t[0] && sig[o + 1] == t[1] && sig[o + 2] == t[2] && sig[o + 3] == t[3]);
            kani::cover!(old == 0);
            kani::cover!(old == NLEAF - 1);
        }
    }
}

// ------------------------------------------------------------------------
// H3: sign, authentication path, every leaf (concrete index, arbitrary tree)

fn sign_path_range(lo: u32, hi: u32) {
    let base = mk_key(0);
    let msg: [u8; 2] = kani::any();
    let tape: [u8; n] = kani::any();
    let b: usize = kani::any();
    kani::assume(b < EXP_M);
    let mut q = lo;
    while q < hi {
        let mut sk = base;
        sk.current_leaf = q;
        let mut rng = VRng::new(tape, core::ptr::null());
        match sk.sign(&mut rng, &msg) {
            None => {
                assert!(false);
            }
            Some(sig) => {
                assert!(sk.current_leaf == q + 1);
                assert!(ref_strtou32(&sig, 0) == q);
                assert!(ref_strtou32(&sig, 4 + EXP_OTS_SIGLEN) == EXP_LMS_TYPE);
                // RFC 8554 section 5.4.1: path[i] = T[(node_num / 2^i) xor 1], node_num = 2^h + q
                let node = NLEAF + q;
                let mut i = 0usize;
                while i < EXP_H {
                    let sib = ((node >> i) ^ 1) as usize;
                    assert!(sig[8 + EXP_OTS_SIGLEN + i * EXP_M + b] == base.T[sib][b]);
                    i += 1;
                }
                kani::cover!(q == hi - 1 && sig[EXP_SIGLEN - 1] == 0x33);
            }
        }
        q += 1;
    }
}

#[kani::proof]
#[kani::unwind(1126)]
#[kani::stub(PrivateKey::ots_sign, ots_sign_mix)]
fn verif_lms_sign_path_all() {
    sign_path_range(0, NLEAF);
}

// ------------------------------------------------------------------------
// H4: ots_sign against RFC 8554 Algorithm 3 (hashes = deterministic mixers)

#[kani::proof]
#[kani::unwind(256)] // Winternitz chain: at most 2^w - 1 = 255 steps
#[kani::stub(Hn, hn_mix)]
fn verif_lms_ots_sign_ref() {
    let q: u32 = kani::any();
    let sk = mk_key(kani::any());
    let msg: [u8; 3] = kani::any();
    let tape: [u8; n] = kani::any();
    let mut rng = VRng::new(tape, core::ptr::null());
    let sig = sk.ots_sign(&mut rng, q, &msg);
    assert!(rng.calls == 1 && rng.other == 0 && rng.lastlen == EXP_N);
    let exp = ref_ots_sign(&sk.I, &sk.SEED, q, &tape, &msg);
    let k: usize = kani::any();
    kani::assume(k < EXP_OTS_SIGLEN);
    assert!(sig[k] == exp[k]);
    assert!(ref_strtou32(&sig, 0) == EXP_OTS_TYPE);
    kani::cover!(k == EXP_OTS_SIGLEN - 1 && sig[k] == 0x77);
}

// ------------------------------------------------------------------------
// H5: verify == RFC 8554 Algorithm 6/6a/4b for ALL signature strings of the
// right length (hashes = deterministic mixers)

#[kani::proof]
#[kani::unwind(256)]
#[kani::stub(Hn, hn_mix)]
#[kani::stub(Hm, hm_mix)]
#[kani::stub(Hnx, hnx_mix)]
fn verif_lms_verify_ref() {
    let pk = PublicKey { I: kani::any(), T1: kani::any() };
    let sig: [u8; lms_siglen] = kani::any();
    let msg: [u8; 3] = kani::any();
    let got = pk.verify(&sig, &msg);
    let exp = ref_verify(&pk.I, &pk.T1, &sig, &msg);
    assert!(got == exp);
    kani::cover!(got);
    kani::cover!(!got && ref_strtou32(&sig, 0) >= NLEAF);
    kani::cover!(!got && ref_strtou32(&sig, 0) < NLEAF && ref_strtou32(&sig, 4) != EXP_OTS_TYPE);
    kani::cover!(!got && ref_strtou32(&sig, 0) < NLEAF && ref_strtou32(&sig, 4) == EXP_OTS_TYPE
        && ref_strtou32(&sig, 4 + EXP_OTS_SIGLEN) != EXP_LMS_TYPE);
    kani::cover!(!got && ref_strtou32(&sig, 0) < NLEAF && ref_strtou32(&sig, 4) == EXP_OTS_TYPE
        && ref_strtou32(&sig, 4 + EXP_OTS_SIGLEN) == EXP_LMS_TYPE);
}
