// C16 (LMS) Kani harness body, shared by the four parameter-set wrappers
// lms_s256m32.rs, lms_s256m24.rs, lms_shakem24.rs, lms_shakem32.rs (each does
// `use super::*;`, defines the EXP_* specification constants and `include!`s
// this file).  The including module is a child of one `pub mod LMS_...` block of
// src/lms.rs, so the private items (PrivateKey fields, ots_sign, ots_verify,
// coef, checksum, Hn/Hm/Hnx, constants n m w h p ls) are in scope.
//
// NOTE: the parent module defines lower-case constants n, m, w, h, p, ls; no
// local variable in this file may use one of these names.
//
// Design rules
//  * Every assertion is phrased against an independent RFC 8554 transcription
//    (the ref_* functions) that calls the module's own Hn/Hm/Hnx.  Under Kani
//    these are replaced by the deterministic stand-ins below (functional
//    consistency); in native concrete playback (no stubs) the same assertions
//    are meaningful with the real hash functions, so a replayed failure is a
//    real one.
//  * Symbolic execution cost in CBMC is dominated by the number of executed
//    statements (one 255-step Winternitz chain of the library costs ~10 s), so
//    the stand-ins are straight-line code on whole arrays / 64-bit lanes, the
//    message-hash stand-in returns a constant Q (00..00 when signing, FF..FF
//    when verifying: the cheapest coefficient vectors, 255 resp. 510 chain
//    steps), and all
//    comparisons use concrete indices (symbolic indices into expanded arrays
//    make the SAT problem 10x harder).
//  * Harnesses that quantify over ALL signature strings obtain, in native
//    playback, an HONEST signature instead (fn honest, replaced by honest_any
//    under Kani): hash-dependent parts of a counterexample cannot transfer from
//    the stand-ins to SHA-256/SHAKE, an honestly generated witness can.

use crate::RngError;

const NLEAF: u32 = 1u32 << EXP_H;
const NNODE: usize = 1usize << (EXP_H + 1);
const LN: usize = n / 8; // 64-bit lanes in an n-byte string
const LM: usize = m / 8;

// ------------------------------------------------------------------------
// Harness plumbing.
//
// vc!(cond) is kani::cover!(cond) unless the harness stubs covers_on by
// covers_off.  twin! emits every harness twice: NAME (with the vacuity guards)
// and verif_ncx_NAME-suffix (without them).  Kani prints one concrete-playback
// test per satisfied cover AND per failed check, and the runner replays the
// first one; so when NAME fails the driver re-runs the cover-free twin and
// replays that.

fn covers_on() -> bool {
    true
}

fn covers_off() -> bool {
    false
}

macro_rules! vc {
    ($c:expr) => {
        if covers_on() {
            kani::cover!($c);
        }
    };
}

macro_rules! twin {
    ($(#[$a:meta])* fn $name:ident / $nc:ident => $call:expr) => {
        #[kani::proof]
        $(#[$a])*
        fn $name() {
            $call
        }
        #[kani::proof]
        $(#[$a])*
        #[kani::stub(covers_on, covers_off)]
        fn $nc() {
            $call
        }
    };
}

// ------------------------------------------------------------------------
// Deterministic stand-ins for the hash functions.

// digest of the three "address" arguments I (16 bytes), u32str (4), u16str (2)
fn dig3(m1: &[u8], m2: &[u8], m3: &[u8]) -> u64 {
    if m1.len() != 16 || m2.len() != 4 || m3.len() != 2 {
        // RFC 8554 never calls H with other lengths here: make it visible
        return 0xDEAD_0000_0000_0000u64
            ^ ((m1.len() as u64) << 16) ^ ((m2.len() as u64) << 8) ^ (m3.len() as u64);
    }
    let a = u128::from_le_bytes(unsafe { *(m1.as_ptr() as *const [u8; 16]) });
    let b = u32::from_le_bytes(unsafe { *(m2.as_ptr() as *const [u8; 4]) });
    let c = u16::from_le_bytes(unsafe { *(m3.as_ptr() as *const [u8; 2]) });
    (a as u64) ^ ((a >> 64) as u64).rotate_left(13) ^ ((b as u64) << 16) ^ (c as u64)
}

// digest of a short string (message, one-byte counters)
fn digs(s: &[u8]) -> u64 {
    let l = s.len();
    let mut v = (l as u64) << 40;
    let mut k = 0usize;
    while k < l {
        v = v.rotate_left(9) ^ (s[k] as u64);
        k += 1;
    }
    v
}

fn lanes_n(s: &[u8]) -> [u64; LN] {
    unsafe { core::mem::transmute::<[u8; n], [u64; LN]>(*(s.as_ptr() as *const [u8; n])) }
}

fn lanes_m(s: &[u8]) -> [u64; LM] {
    unsafe { core::mem::transmute::<[u8; m], [u64; LM]>(*(s.as_ptr() as *const [u8; m])) }
}

fn fold8(x: u64) -> u8 {
    let mut v = x;
    v ^= v >> 36;
    v ^= v >> 18;
    v ^= v >> 9;
    v as u8
}

// Hn, message-hash shape (m4 = C, n bytes; m5 = message): mode 0x100 = "free":
// Q is C with lane 0 absorbing all other inputs (every coefficient symbolic);
// mode 0x00..0xFF = Q is the constant byte `mode` everywhere; mode 0x1xx with
// xx != 0: constant xx, except Q[QPOS] = digest of all inputs (one symbolic
// coefficient plus the symbolic checksum digits it induces).
const QPOS: usize = 5;
const MODE_FREE: u16 = 0x100;

// message-hash part (m4 = C, m5 = message) and fallback
fn hn_msg(mode: u16, m1: &[u8], m2: &[u8], m3: &[u8], m4: &[u8], m5: &[u8]) -> [u8; n] {
    if m4.len() == n {
        let mut l = lanes_n(m4);
        let e = dig3(m1, m2, m3) ^ digs(m5).rotate_left(23);
        if mode == MODE_FREE {
            l[0] = (l[0] ^ e).rotate_left(7);
            return unsafe { core::mem::transmute::<[u64; LN], [u8; n]>(l) };
        }
        let mut r = [mode as u8; n];
        if mode > 0xFF {
            r[QPOS] = fold8(l[0] ^ l[LN - 1].rotate_left(3) ^ e);
        }
        return r;
    }
    // not an RFC 8554 call shape
    let mut r = [0xEEu8; n];
    r[0] = fold8(dig3(m1, m2, m3) ^ digs(m4) ^ digs(m5).rotate_left(5));
    r
}

// digest of the address arguments of a chain step
fn chain_const(m1: &[u8], m2: &[u8], m3: &[u8]) -> u8 {
    m3[1] ^ (m3[0] << 3) ^ m2[3] ^ (m2[0] << 5) ^ m1[0] ^ (m1[15] << 2)
}

// Chain step / secret x[i] (m4 = one counter byte j, m5 = n bytes): the n input
// bytes are carried over; byte 0 counts the steps weighted by the counter
// (+ (j | 1) mod 256); byte 1 absorbs the address digest on the first (j = 0)
// and last (j = 254) possible step of a chain and on the x[i] derivation
// (j = 0xFF).  Chosen so that (a) CBMC executes few statements per step, (b)
// a chain with concrete bounds is a function of 8 input bits for the SAT
// solver (the library-vs-reference comparison is then easy), (c) a wrong
// counter sequence, chain length, address or byte offset still changes the
// result.
macro_rules! def_hn {
    ($name:ident, $mode:expr) => {
        fn $name(m1: &[u8], m2: &[u8], m3: &[u8], m4: &[u8], m5: &[u8]) -> [u8; n] {
            if m5.len() == n && m4.len() == 1 && m3.len() == 2 && m2.len() == 4 && m1.len() == 16 {
                let mut r: [u8; n] = unsafe { *(m5.as_ptr() as *const [u8; n]) };
                let j = m4[0];
                r[0] = (((r[0] as u16) + ((j | 1) as u16)) & 0xFF) as u8;
                if j == 0 || j >= 254 {
                    r[1] ^= chain_const(m1, m2, m3);
                }
                return r;
            }
            hn_msg($mode, m1, m2, m3, m4, m5)
        }
    };
}

// every coefficient symbolic (unaffordable in CBMC for whole signatures; kept for experiments)
def_hn!(hn_free, MODE_FREE);
// Q = 00..00: cheapest signing (only the two checksum chains run: 31 + 224 steps)
def_hn!(hn_00, 0x00);
// Q = FF..FF: cheapest verification (only the two checksum chains run: 255 + 255 steps)
def_hn!(hn_ff, 0xFF);
// Q = 01..01 except one symbolic byte (signing side; experimental, not posed: CBMC gives up)
def_hn!(hn_lo, 0x101);
// Q = FE..FE except one symbolic byte (verification side; experimental, not posed)
def_hn!(hn_hi, 0x1FE);

// Under Kani ref_chain (below) is replaced by this closed form of
// "ref_chain with Hn := one of the stand-ins above".  verif_lms_chain_fast_eq
// decides that the two agree, so that the reference side of a chain costs
// scalar steps only.
fn ref_chain_fast(id: &[u8; 16], q: u32, i: usize, from: usize, to: usize, start: &[u8; n]) -> [u8; n] {
    let mut r = *start;
    let mut acc = 0u8;
    let mut j = from;
    while j < to {
        acc = (((acc as u16) + (((j as u8) | 1) as u16)) & 0xFF) as u8;
        j += 1;
    }
    r[0] = (((r[0] as u16) + (acc as u16)) & 0xFF) as u8;
    let c = chain_const(id, &ref_u32str(q), &ref_u16str(i as u16));
    if from == 0 && to > 0 {
        r[1] ^= c;
    }
    if from <= 254 && to > 254 {
        r[1] ^= c;
    }
    r
}

fn hm_lean(m1: &[u8], m2: &[u8], m3: &[u8], m4: &[u8], m5: &[u8]) -> [u8; m] {
    let d = dig3(m1, m2, m3);
    if m4.len() == m && m5.len() == m {
        // interior node: ordered combination of both children, lane by lane
        let a = lanes_m(m4);
        let b = lanes_m(m5);
        let mut l = [0u64; LM];
        let mut t = 0usize;
        while t < LM {
            l[t] = a[t].rotate_left(3) ^ b[t] ^ ((t as u64) << 60);
            t += 1;
        }
        l[0] = (l[0] ^ d).rotate_left(7);
        return unsafe { core::mem::transmute::<[u64; LM], [u8; m]>(l) };
    }
    if m4.len() == m && m5.len() == 0 {
        // leaf
        let mut l = lanes_m(m4);
        l[0] = (l[0] ^ d).rotate_left(11);
        return unsafe { core::mem::transmute::<[u64; LM], [u8; m]>(l) };
    }
    let mut r = [0xEDu8; m];
    r[0] = fold8(d ^ digs(m4) ^ digs(m5).rotate_left(5));
    r
}

fn hnx_lean(m1: &[u8], m2: &[u8], m3: &[u8], mm: &[[u8; n]; p]) -> [u8; n] {
    let d = dig3(m1, m2, m3);
    let mut acc = [0u64; LN];
    let mut i = 0usize;
    while i < p {
        let x = lanes_n(&mm[i]);
        let mut t = 0usize;
        while t < LN {
            acc[t] = acc[t].rotate_left(5) ^ x[t];
            t += 1;
        }
        i += 1;
    }
    acc[0] = (acc[0] ^ d).rotate_left(7);
    unsafe { core::mem::transmute::<[u64; LN], [u8; n]>(acc) }
}

// Stand-in for PrivateKey::ots_sign in the harnesses that are about the LMS
// layer (state machine, authentication path): draws C from the RNG exactly
// like the real function (so order-of-effects observations still work) and
// returns POOL (arbitrary bytes chosen by the harness) with the type word, C and
// a digest of (I, q, SEED, msg) written in.  Deterministic in its arguments;
// ignores current_leaf and T like the real function.
static mut OTS_POOL: [u8; ots_siglen] = [0u8; ots_siglen];

fn ots_sign_pool<R: CryptoRng + RngCore>(sk: PrivateKey, rng: &mut R, q: u32, msg: &[u8])
    -> [u8; ots_siglen]
{
    let mut c = [0u8; n];
    rng.fill_bytes(&mut c);
    let mut sig = unsafe { OTS_POOL };
    sig[4..(4 + n)].copy_from_slice(&c);
    let d = dig3(&sk.I, &ref_u32str(q), &[0u8, 0u8]) ^ digs(msg).rotate_left(29) ^ lanes_m(&sk.SEED)[0]
        ^ lanes_m(&sk.SEED)[LM - 1].rotate_left(17);
    sig[4 + n] = fold8(d);
    sig[4 + n + 1] = fold8(d.rotate_left(20));
    sig[ots_siglen - 1] = fold8(d.rotate_left(41));
    sig
}

// ------------------------------------------------------------------------
// RNG double.  Returns a caller-chosen tape and records (a) how it was
// called and (b) the value of the key's current_leaf at the time of the first
// call (through a raw pointer; the first RNG call is the first externally
// observable effect of signing and the first point where signing can fail).

struct VRng {
    tape: [u8; n],
    leafp: *const u32,
    seen: u32,
    calls: u32,
    other: u32,
    lastlen: usize,
}

impl VRng {
    fn new(tape: [u8; n], leafp: *const u32) -> Self {
        Self { tape, leafp, seen: 0xFFFF_FFFF, calls: 0, other: 0, lastlen: 0 }
    }
}

impl RngCore for VRng {
    fn next_u32(&mut self) -> u32 {
        self.other = self.other.wrapping_add(1);
        0
    }
    fn next_u64(&mut self) -> u64 {
        self.other = self.other.wrapping_add(1);
        0
    }
    fn fill_bytes(&mut self, dst: &mut [u8]) {
        if self.calls == 0 && !self.leafp.is_null() {
            self.seen = unsafe { *self.leafp };
        }
        self.calls = self.calls.wrapping_add(1);
        let l = dst.len();
        self.lastlen = l;
        if l == n {
            dst.copy_from_slice(&self.tape);
        } else {
            let mut k = 0usize;
            while k < l {
                dst[k] = self.tape[k % n];
                k += 1;
            }
        }
    }
    fn try_fill_bytes(&mut self, dst: &mut [u8]) -> Result<(), RngError> {
        self.fill_bytes(dst);
        Ok(())
    }
}

impl CryptoRng for VRng {}

// ------------------------------------------------------------------------
// RFC 8554 transcription (independent of the code under test).

// section 3.1.2: u32str / u16str are big-endian
fn ref_u32str(x: u32) -> [u8; 4] {
    [(x >> 24) as u8, (x >> 16) as u8, (x >> 8) as u8, x as u8]
}

fn ref_u16str(x: u16) -> [u8; 2] {
    [(x >> 8) as u8, x as u8]
}

fn ref_strtou32(s: &[u8], off: usize) -> u32 {
    ((s[off] as u32) << 24) | ((s[off + 1] as u32) << 16) | ((s[off + 2] as u32) << 8) | (s[off + 3] as u32)
}

// section 3.1.3: coef(S, i, w) is the i-th w-bit field of S, most significant
// field first, most significant bit first.  Written bit by bit on purpose
// (the library uses the shift/mask formula of the RFC).
fn ref_coef(s: &[u8], i: usize) -> u32 {
    let mut v = 0u32;
    let mut t = 0usize;
    while t < EXP_W {
        let b = i * EXP_W + t;
        let bit = (s[b / 8] >> (7 - (b % 8))) & 1;
        v = (v << 1) | (bit as u32);
        t += 1;
    }
    v
}

// section 4.4: Cksm(S) = (sum_{i < 8n/w} (2^w - 1 - coef(S, i, w))) << ls, a 16-bit value
fn ref_cksm(s: &[u8]) -> u16 {
    let mut sum = 0u32;
    let mut i = 0usize;
    while i < (EXP_N * 8) / EXP_W {
        sum += ((1u32 << EXP_W) - 1) - ref_coef(s, i);
        i += 1;
    }
    ((sum << EXP_LS) & 0xFFFF) as u16
}

// Q || Cksm(Q)
fn ref_qck(q: &[u8; n]) -> [u8; n + 2] {
    let mut r = [0u8; n + 2];
    r[..n].copy_from_slice(q);
    let c = ref_u16str(ref_cksm(q));
    r[EXP_N] = c[0];
    r[EXP_N + 1] = c[1];
    r
}

const REF_D_PBLC: u16 = 0x8080;
const REF_D_MESG: u16 = 0x8181;
const REF_D_LEAF: u16 = 0x8282;
const REF_D_INTR: u16 = 0x8383;

// Appendix A: x_q[i] = H(I || u32str(q) || u16str(i) || u8str(0xff) || SEED)
fn ref_x(id: &[u8; 16], seed: &[u8; m], q: u32, i: usize) -> [u8; n] {
    Hn(id, &ref_u32str(q), &ref_u16str(i as u16), &[0xFFu8], seed)
}

// one Winternitz chain: tmp = H(I || u32str(q) || u16str(i) || u8str(j) || tmp)
// for j = from .. to-1
fn ref_chain(id: &[u8; 16], q: u32, i: usize, from: usize, to: usize, start: &[u8; n]) -> [u8; n] {
    let e = ref_u32str(q);
    let ei = ref_u16str(i as u16);
    let mut tmp = *start;
    let mut j = from;
    while j < to {
        tmp = Hn(id, &e, &ei, &[j as u8], &tmp);
        j += 1;
    }
    tmp
}

// section 4.3 (Algorithm 1): LM-OTS public key hash K for leaf q
fn ref_ots_pub(id: &[u8; 16], seed: &[u8; m], q: u32) -> [u8; n] {
    let mut y = [[0u8; n]; p];
    let mut i = 0usize;
    while i < EXP_P {
        let x = ref_x(id, seed, q, i);
        y[i] = ref_chain(id, q, i, 0, (1usize << EXP_W) - 1, &x);
        i += 1;
    }
    Hnx(id, &ref_u32str(q), &ref_u16str(REF_D_PBLC), &y)
}

// section 4.5 (Algorithm 3): LM-OTS signature u32str(type) || C || y[0] || ... || y[p-1]
fn ref_ots_sign(id: &[u8; 16], seed: &[u8; m], q: u32, c: &[u8; n], msg: &[u8]) -> [u8; ots_siglen] {
    let mut sig = [0u8; ots_siglen];
    sig[0..4].copy_from_slice(&ref_u32str(EXP_OTS_TYPE));
    sig[4..(4 + EXP_N)].copy_from_slice(c);
    let qq = Hn(id, &ref_u32str(q), &ref_u16str(REF_D_MESG), c, msg);
    let qc = ref_qck(&qq);
    let mut i = 0usize;
    while i < EXP_P {
        let a = ref_coef(&qc, i) as usize;
        let x = ref_x(id, seed, q, i);
        let y = ref_chain(id, q, i, 0, a, &x);
        let o = 4 + EXP_N + i * EXP_N;
        sig[o..(o + EXP_N)].copy_from_slice(&y);
        i += 1;
    }
    sig
}

// section 4.6 (Algorithm 4b): LM-OTS public key candidate Kc from an LM-OTS signature
fn ref_ots_kc(id: &[u8; 16], q: u32, osig: &[u8], msg: &[u8]) -> Option<[u8; n]> {
    if osig.len() < 4 {
        return None;
    }
    if ref_strtou32(osig, 0) != EXP_OTS_TYPE {
        return None;
    }
    if osig.len() != 4 + EXP_N * (EXP_P + 1) {
        return None;
    }
    let mut c = [0u8; n];
    c.copy_from_slice(&osig[4..(4 + EXP_N)]);
    let qq = Hn(id, &ref_u32str(q), &ref_u16str(REF_D_MESG), &c, msg);
    let qc = ref_qck(&qq);
    let mut z = [[0u8; n]; p];
    let mut i = 0usize;
    while i < EXP_P {
        let a = ref_coef(&qc, i) as usize;
        let mut y = [0u8; n];
        let o = 4 + EXP_N + i * EXP_N;
        y.copy_from_slice(&osig[o..(o + EXP_N)]);
        z[i] = ref_chain(id, q, i, a, (1usize << EXP_W) - 1, &y);
        i += 1;
    }
    Some(Hnx(id, &ref_u32str(q), &ref_u16str(REF_D_PBLC), &z))
}

// section 5.4.2 (Algorithms 6 and 6a): LMS signature verification
fn ref_verify(id: &[u8; 16], root: &[u8; m], sig: &[u8], msg: &[u8]) -> bool {
    if sig.len() < 8 {
        return false;
    }
    let q = ref_strtou32(sig, 0);
    if ref_strtou32(sig, 4) != EXP_OTS_TYPE {
        return false;
    }
    let ol = 4 + EXP_N * (EXP_P + 1);
    if sig.len() < 8 + ol {
        return false;
    }
    if ref_strtou32(sig, 4 + ol) != EXP_LMS_TYPE {
        return false;
    }
    if q >= (1u32 << EXP_H) || sig.len() != 8 + ol + EXP_M * EXP_H {
        return false;
    }
    let kc = match ref_ots_kc(id, q, &sig[4..(4 + ol)], msg) {
        None => return false,
        Some(x) => x,
    };
    let mut node = (1u32 << EXP_H) + q;
    let mut tmp = Hm(id, &ref_u32str(node), &ref_u16str(REF_D_LEAF), &kc, &[]);
    let mut i = 0usize;
    while i < EXP_H {
        let mut pe = [0u8; m];
        let o = 8 + ol + i * EXP_M;
        pe.copy_from_slice(&sig[o..(o + EXP_M)]);
        let odd = (node % 2) == 1;
        node = node / 2;
        if odd {
            tmp = Hm(id, &ref_u32str(node), &ref_u16str(REF_D_INTR), &pe, &tmp);
        } else {
            tmp = Hm(id, &ref_u32str(node), &ref_u16str(REF_D_INTR), &tmp, &pe);
        }
        i += 1;
    }
    let mut diff = 0u8;
    let mut k = 0usize;
    while k < EXP_M {
        diff |= tmp[k] ^ root[k];
        k += 1;
    }
    diff == 0
}

// ------------------------------------------------------------------------
// helpers

fn mk_key(leaf: u32) -> PrivateKey {
    // one nondeterministic byte string for the whole tree (kani::any() of the
    // nested array would build it node by node)
    let flat: [u8; NNODE * m] = kani::any();
    let t = unsafe { core::mem::transmute::<[u8; NNODE * m], [[u8; m]; 1usize << (h + 1)]>(flat) };
    PrivateKey { I: kani::any(), SEED: kani::any(), current_leaf: leaf, T: t }
}

// key for the harnesses about ots_sign, which takes the key by value and never
// reads T or current_leaf: T constant (keeps the 2 KB tree out of the formula)
fn mk_key_notree() -> PrivateKey {
    PrivateKey { I: kani::any(), SEED: kani::any(), current_leaf: kani::any(), T: [[0u8; m]; 1usize << (h + 1)] }
}

// An honestly generated (public key, signature) pair for leaf q % 2^h: the tree
// nodes on the path of that leaf are computed as RFC 8554 section 5.3
// prescribes (all other nodes are zero; they do not enter the signature's
// verification), then the library signs.  Under Kani this function is replaced
// by honest_any: the pair is then ARBITRARY (a superset of the honest ones).
fn honest(id: [u8; 16], seed: [u8; m], q: u32, msg: &[u8], tape: [u8; n],
    _arb_root: [u8; m], _arb_sig: [u8; lms_siglen]) -> (PublicKey, [u8; lms_siglen])
{
    let q = q % NLEAF;
    let mut sk = PrivateKey { I: id, SEED: seed, current_leaf: q, T: [[0u8; m]; 1usize << (h + 1)] };
    // random-looking siblings so that the path bytes are not all zero
    let mut r = 1usize;
    while r < NNODE {
        sk.T[r] = Hm(&id, &ref_u32str(r as u32), &[0x55u8, 0x55u8], &seed, &[]);
        r += 1;
    }
    let mut node = NLEAF + q;
    let kpub = ref_ots_pub(&id, &seed, q);
    sk.T[node as usize] = Hm(&id, &ref_u32str(node), &ref_u16str(REF_D_LEAF), &kpub, &[]);
    while node > 1 {
        node = node / 2;
        let l = sk.T[(2 * node) as usize];
        let rr = sk.T[(2 * node + 1) as usize];
        sk.T[node as usize] = Hm(&id, &ref_u32str(node), &ref_u16str(REF_D_INTR), &l, &rr);
    }
    let pk = sk.compute_public();
    let mut rng = VRng::new(tape, core::ptr::null());
    match sk.sign(&mut rng, msg) {
        Some(s) => (pk, s),
        None => (pk, [0u8; lms_siglen]),
    }
}

fn honest_any(id: [u8; 16], _seed: [u8; m], _q: u32, _msg: &[u8], _tape: [u8; n],
    arb_root: [u8; m], arb_sig: [u8; lms_siglen]) -> (PublicKey, [u8; lms_siglen])
{
    (PublicKey { I: id, T1: arb_root }, arb_sig)
}

// true in native playback, false (stubbed by is_native_no) under Kani
fn is_native() -> bool {
    true
}

fn is_native_no() -> bool {
    false
}

// ------------------------------------------------------------------------
// H0: constants of the parameter set against the RFC tables; coef / checksum
// for all Q (bit-precise); compute_public

twin! {
    #[kani::unwind(66)] // kani::any() of the 64-node tree
    fn verif_lms_params_coef / verif_ncx_lms_params_coef => params_coef_body()
}

fn params_coef_body() {
    assert!(n == EXP_N && m == EXP_M && w == EXP_W && h == EXP_H);
    assert!(p == EXP_P && ls == EXP_LS);
    assert!(key_type == EXP_LMS_TYPE && ots_type == EXP_OTS_TYPE);
    assert!(ots_siglen == EXP_OTS_SIGLEN && lms_siglen == EXP_SIGLEN);
    // RFC 8554 section 4.1: u = ceil(8n/w), v = ceil((floor(lg((2^w-1)*u))+1)/w),
    // ls = 16 - v*w, p = u + v
    let u = (8 * EXP_N + EXP_W - 1) / EXP_W;
    let x = ((1usize << EXP_W) - 1) * u;
    let mut lg = 0usize;
    while (x >> (lg + 1)) != 0 {
        lg += 1;
    }
    let v = (lg + 1 + EXP_W - 1) / EXP_W;
    assert!(p == u + v && ls == 16 - v * EXP_W);
    assert!(D_PBLC == ref_u16str(REF_D_PBLC) && D_MESG == ref_u16str(REF_D_MESG));
    assert!(D_LEAF == ref_u16str(REF_D_LEAF) && D_INTR == ref_u16str(REF_D_INTR));
    // public key is (I, T[1])
    let sk = mk_key(kani::any());
    let pk = sk.compute_public();
    let b: usize = kani::any();
    kani::assume(b < EXP_M);
    assert!(pk.T1[b] == sk.T[1][b]);
    let c: usize = kani::any();
    kani::assume(c < 16);
    assert!(pk.I[c] == sk.I[c]);
    vc!(pk.T1[b] == 0x5a && pk.I[c] == 0xa5);
    // checksum over all n-byte Q
    let qq: [u8; n] = kani::any();
    let ck = checksum(&qq);
    assert!(ck == ref_cksm(&qq));
    // coef over Q || Cksm(Q) and over an arbitrary (n+2)-byte string, all indices < p
    let s: [u8; n + 2] = kani::any();
    let i: usize = kani::any();
    kani::assume(i < EXP_P);
    assert!(coef(&s, i) as u32 == ref_coef(&s, i));
    let qc = ref_qck(&qq);
    assert!(coef(&qc, i) as u32 == ref_coef(&qc, i));
    vc!(ck == 0);
    vc!(ck as usize == ((1usize << EXP_W) - 1) * ((EXP_N * 8) / EXP_W) << EXP_LS);
    vc!(i == EXP_P - 1 && coef(&s, i) == 0x80);
}

// ------------------------------------------------------------------------
// H1: sign, state machine, from an ARBITRARY key state (one-step induction)

// I, SEED and the whole tree of two keys are identical (64-bit lanes, concrete
// indices: the comparison is syntactic for the SAT solver)
fn assert_same_material(x: &PrivateKey, y: &PrivateKey) {
    let xi = u128::from_le_bytes(x.I);
    let yi = u128::from_le_bytes(y.I);
    assert!(xi == yi);
    let xs = lanes_m(&x.SEED);
    let ys = lanes_m(&y.SEED);
    let mut t = 0usize;
    while t < LM {
        assert!(xs[t] == ys[t]);
        t += 1;
    }
    let mut r = 0usize;
    while r < NNODE {
        let xr = lanes_m(&x.T[r]);
        let yr = lanes_m(&y.T[r]);
        let mut t = 0usize;
        while t < LM {
            assert!(xr[t] == yr[t]);
            t += 1;
        }
        r += 1;
    }
}

// bytes 4 .. 4+ots_siglen of an LMS signature against an LM-OTS signature
fn embedded_ots_eq(sig: &[u8; lms_siglen], exp: &[u8; ots_siglen], full: bool) {
    if full {
        let mut k = 0usize;
        while k < EXP_OTS_SIGLEN {
            assert!(sig[4 + k] == exp[k]);
            k += 1;
        }
    } else {
        // both ends (a single block copy cannot shift the middle without
        // shifting an end), C, the digest bytes and two interior bytes
        let mut k = 0usize;
        while k < 8 + EXP_N {
            assert!(sig[4 + k] == exp[k]);
            assert!(sig[4 + EXP_OTS_SIGLEN - 1 - k] == exp[EXP_OTS_SIGLEN - 1 - k]);
            k += 1;
        }
        assert!(sig[4 + EXP_OTS_SIGLEN / 2] == exp[EXP_OTS_SIGLEN / 2]);
        assert!(sig[4 + EXP_OTS_SIGLEN / 3] == exp[EXP_OTS_SIGLEN / 3]);
    }
}

fn sign_state_body(anytree: bool, full: bool) {
    let pool: [u8; ots_siglen] = kani::any();
    unsafe { OTS_POOL = pool; }
    let old: u32 = kani::any();
    let mut sk = if anytree { mk_key(old) } else { mk_key_notree() };
    sk.current_leaf = old;
    let sk0 = sk;
    let msg: [u8; 3] = kani::any();
    let tape: [u8; n] = kani::any();
    let mut rng = VRng::new(tape, core::ptr::addr_of!(sk.current_leaf));
    let r = sk.sign(&mut rng, &msg);
    let exhausted = old >= NLEAF;
    assert!(r.is_none() == exhausted);
    // I, SEED, T are never modified by sign
    assert_same_material(&sk, &sk0);
    match r {
        None => {
            // exhaustion is absorbing: state bit-identical, nothing drawn from the RNG
            assert!(sk.current_leaf == old);
            assert!(rng.calls == 0 && rng.other == 0);
            vc!(old == NLEAF);
            vc!(old == 0xFFFF_FFFF);
        }
        Some(sig) => {
            assert!(old < NLEAF);
            assert!(sig.len() == EXP_SIGLEN);
            // the index used is the OLD current_leaf, the state moves to old + 1
            assert!(sk.current_leaf == old + 1);
            let e = ref_u32str(old);
            assert!(sig[0] == e[0] && sig[1] == e[1] && sig[2] == e[2] && sig[3] == e[3]);
            // order of effects: when the RNG is first asked for bytes the key
            // state has already been advanced
            assert!(rng.calls == 1 && rng.other == 0 && rng.lastlen == EXP_N);
            assert!(rng.seen == old + 1);
            // bytes 4 .. 4+ots_siglen are ots_sign(q = old, msg) with the same randomness
            let mut rng2 = VRng::new(tape, core::ptr::null());
            let exp = sk0.ots_sign(&mut rng2, old, &msg);
            embedded_ots_eq(&sig, &exp, full);
            // LMS type word
            assert!(ref_strtou32(&sig, 4 + EXP_OTS_SIGLEN) == EXP_LMS_TYPE);
            vc!(old == 0);
            vc!(old == NLEAF - 1);
        }
    }
}

// arbitrary tree: the symbolic authentication-path copy costs CBMC ~15M clauses
twin! {
    #[kani::unwind(1126)] // ots_siglen + 2 (byte-wise comparison of the embedded LM-OTS signature)
    #[kani::stub(PrivateKey::ots_sign, ots_sign_pool)]
    fn verif_lms_sign_state_anytree / verif_ncx_lms_sign_state_anytree => sign_state_body(true, true)
}

// constant (zero) tree: same claims, cheap; the authentication path for an
// arbitrary tree is decided per leaf by verif_lms_sign_path_*
twin! {
    #[kani::unwind(66)]
    #[kani::stub(PrivateKey::ots_sign, ots_sign_pool)]
    fn verif_lms_sign_state_tree0 / verif_ncx_lms_sign_state_tree0 => sign_state_body(false, false)
}

// Exhausted key, ANY current_leaf >= 2^h, arbitrary tree.  ots_sign is replaced
// by a function that fails the proof if it is ever called and then ends the
// path (so CBMC does not have to explore the signing code behind it).
fn ots_sign_never<R: CryptoRng + RngCore>(_sk: PrivateKey, _rng: &mut R, _q: u32, _msg: &[u8])
    -> [u8; ots_siglen]
{
    assert!(false, "ots_sign called on an exhausted key");
    kani::assume(false);
    [0u8; ots_siglen]
}

twin! {
    #[kani::unwind(66)]
    #[kani::stub(PrivateKey::ots_sign, ots_sign_never)]
    fn verif_lms_sign_exhausted / verif_ncx_lms_sign_exhausted => sign_exhausted_body()
}

fn sign_exhausted_body() {
    let old: u32 = kani::any();
    kani::assume(old >= NLEAF);
    let mut sk = mk_key(old);
    let sk0 = sk;
    let msg: [u8; 3] = kani::any();
    let tape: [u8; n] = kani::any();
    let mut rng = VRng::new(tape, core::ptr::addr_of!(sk.current_leaf));
    let r = sk.sign(&mut rng, &msg);
    assert!(r.is_none());
    // state bit-identical, nothing drawn from the RNG; a second call behaves the same
    assert!(sk.current_leaf == old);
    assert_same_material(&sk, &sk0);
    assert!(rng.calls == 0 && rng.other == 0);
    let r2 = sk.sign(&mut rng, &msg);
    assert!(r2.is_none() && sk.current_leaf == old && rng.calls == 0);
    vc!(old == NLEAF);
    vc!(old == 0xFFFF_FFFF);
    vc!(old == 0x8000_0000);
}

// ------------------------------------------------------------------------
// H2: sign, authentication path, every leaf (concrete index, arbitrary tree)

fn sign_path_leaves(leaves: &[u32]) {
    let pool: [u8; ots_siglen] = kani::any();
    unsafe { OTS_POOL = pool; }
    let base = mk_key(0);
    let msg: [u8; 2] = kani::any();
    let tape: [u8; n] = kani::any();
    let mut t = 0usize;
    while t < leaves.len() {
        let q = leaves[t];
        let mut sk = base;
        sk.current_leaf = q;
        let mut rng = VRng::new(tape, core::ptr::addr_of!(sk.current_leaf));
        match sk.sign(&mut rng, &msg) {
            None => {
                assert!(false);
            }
            Some(sig) => {
                // index used = old current_leaf; state advanced by exactly one,
                // already when the RNG is first called
                assert!(sk.current_leaf == q + 1);
                assert!(rng.calls == 1 && rng.other == 0 && rng.lastlen == EXP_N && rng.seen == q + 1);
                assert!(ref_strtou32(&sig, 0) == q);
                assert!(ref_strtou32(&sig, 4 + EXP_OTS_SIGLEN) == EXP_LMS_TYPE);
                if t == 0 || t == leaves.len() - 1 {
                    // (first and last listed leaf only, for cost) nothing else modified;
                    // embedded LM-OTS signature = ots_sign(q, msg) with the same randomness
                    assert_same_material(&sk, &base);
                    let mut rng2 = VRng::new(tape, core::ptr::null());
                    let exp = base.ots_sign(&mut rng2, q, &msg);
                    embedded_ots_eq(&sig, &exp, false);
                }
                // RFC 8554 section 5.4.1: path[i] = T[(node_num / 2^i) xor 1], node_num = 2^h + q
                let node = NLEAF + q;
                let mut i = 0usize;
                while i < EXP_H {
                    let sib = ((node >> i) ^ 1) as usize;
                    let o = 8 + EXP_OTS_SIGLEN + i * EXP_M;
                    let row = lanes_m(&sig[o..(o + EXP_M)]);
                    let exp = lanes_m(&base.T[sib]);
                    let mut u = 0usize;
                    while u < LM {
                        assert!(row[u] == exp[u]);
                        u += 1;
                    }
                    i += 1;
                }
                vc!(t == leaves.len() - 1 && sig[EXP_SIGLEN - 1] == 0x33);
            }
        }
        t += 1;
    }
}

// quick: both ends, both parities at every level (10 = 01010b, 21 = 10101b)
twin! {
    #[kani::unwind(66)]
    #[kani::stub(PrivateKey::ots_sign, ots_sign_pool)]
    fn verif_lms_sign_path_q8 / verif_ncx_lms_sign_path_q8 => sign_path_leaves(&[0, 1, 2, 10, 21, 29, 30, 31])
}

const ALL_LEAVES: [u32; 32] = [0, 1, 2, 3, 4, 5, 6, 7, 8, 9, 10, 11, 12, 13, 14, 15, 16, 17, 18, 19, 20, 21, 22, 23,
    24, 25, 26, 27, 28, 29, 30, 31];

twin! {
    #[kani::unwind(66)]
    #[kani::stub(PrivateKey::ots_sign, ots_sign_pool)]
    fn verif_lms_sign_path_all / verif_ncx_lms_sign_path_all => sign_path_leaves(&ALL_LEAVES)
}

// ------------------------------------------------------------------------
// H3: ots_sign against RFC 8554 Algorithm 3 (hashes = deterministic stand-ins)

fn ots_sign_vs_ref() {
    let q: u32 = kani::any();
    let sk = mk_key_notree();
    let msg: [u8; 3] = kani::any();
    let tape: [u8; n] = kani::any();
    let mut rng = VRng::new(tape, core::ptr::null());
    let sig = sk.ots_sign(&mut rng, q, &msg);
    assert!(rng.calls == 1 && rng.other == 0 && rng.lastlen == EXP_N);
    let exp = ref_ots_sign(&sk.I, &sk.SEED, q, &tape, &msg);
    // type word, then C, y[0], ..., y[p-1] block by block in 64-bit lanes
    assert!(ref_strtou32(&sig, 0) == EXP_OTS_TYPE);
    assert!(ref_strtou32(&exp, 0) == EXP_OTS_TYPE);
    let mut blk = 0usize;
    while blk < EXP_P + 1 {
        let o = 4 + blk * EXP_N;
        let x = lanes_n(&sig[o..(o + EXP_N)]);
        let y = lanes_n(&exp[o..(o + EXP_N)]);
        let mut u = 0usize;
        while u < LN {
            assert!(x[u] == y[u]);
            u += 1;
        }
        blk += 1;
    }
    vc!(sig[EXP_OTS_SIGLEN - 1] == 0x77);
    vc!(sig[4 + EXP_N * (QPOS + 2) - 1] == 0x77);
}

twin! {
    #[kani::unwind(256)] // Winternitz chain: at most 2^w - 1 = 255 steps
    #[kani::stub(Hn, hn_00)]
    #[kani::stub(ref_chain, ref_chain_fast)]
    fn verif_lms_ots_sign_ref_c00 / verif_ncx_lms_ots_sign_ref_c00 => ots_sign_vs_ref()
}

twin! {
    #[kani::unwind(256)]
    #[kani::stub(Hn, hn_lo)]
    #[kani::stub(ref_chain, ref_chain_fast)]
    fn verif_lms_ots_sign_ref_q1 / verif_ncx_lms_ots_sign_ref_q1 => ots_sign_vs_ref()
}

twin! {
    #[kani::unwind(256)]
    #[kani::stub(Hn, hn_free)]
    #[kani::stub(ref_chain, ref_chain_fast)]
    fn verif_lms_ots_sign_ref_free / verif_ncx_lms_ots_sign_ref_free => ots_sign_vs_ref()
}

// machinery check: the closed form used for the reference side equals the
// reference chain run with the stand-in hash
fn chain_eq_case(id: &[u8; 16], q: u32, i: usize, from: usize, to: usize, start: &[u8; n], k: usize) {
    let a = ref_chain(id, q, i, from, to, start);
    let b = ref_chain_fast(id, q, i, from, to, start);
    assert!(a[k] == b[k]);
}

twin! {
    #[kani::unwind(256)]
    #[kani::stub(Hn, hn_ff)]
    fn verif_lms_chain_fast_eq / verif_ncx_lms_chain_fast_eq => chain_fast_eq_body()
}

fn chain_fast_eq_body() {
    let id: [u8; 16] = kani::any();
    let q: u32 = kani::any();
    let i: usize = kani::any();
    kani::assume(i < EXP_P);
    let start: [u8; n] = kani::any();
    let k: usize = kani::any();
    kani::assume(k < EXP_N);
    // the ranges that occur with Q = 00..00 (signing) and Q = FF..FF (verification)
    chain_eq_case(&id, q, i, 0, 255, &start, k);
    chain_eq_case(&id, q, i, 0, 31, &start, k);
    chain_eq_case(&id, q, i, 255, 255, &start, k);
    vc!(k == 0 && start[0] == 0x42);
}

// same, chain entered / left at a symbolic point (thorough tier)
twin! {
    #[kani::unwind(256)]
    #[kani::stub(Hn, hn_ff)]
    fn verif_lms_chainsym_fast_eq / verif_ncx_lms_chainsym_fast_eq => chain_fast_eq_sym_body()
}

fn chain_fast_eq_sym_body() {
    let id: [u8; 16] = kani::any();
    let q: u32 = kani::any();
    let i: usize = kani::any();
    kani::assume(i < EXP_P);
    let start: [u8; n] = kani::any();
    let k: usize = kani::any();
    kani::assume(k < EXP_N);
    let from: usize = kani::any();
    kani::assume(from <= 255);
    chain_eq_case(&id, q, i, from, 255, &start, k);
    chain_eq_case(&id, q, i, 0, from, &start, k);
    vc!(from == 0 && k == 0);
    vc!(from == 255 && k == 0);
    vc!(from == 100 && k == 0);
}

// ------------------------------------------------------------------------
// H4: verify == RFC 8554 Algorithm 6/6a/4b for ALL signature strings of the
// right length (hashes = deterministic stand-ins)

fn verify_vs_ref() {
    let id: [u8; 16] = kani::any();
    let seed: [u8; m] = kani::any();
    let q: u32 = kani::any();
    let msg: [u8; 3] = kani::any();
    let tape: [u8; n] = kani::any();
    let (pk, sig) = honest(id, seed, q, &msg, tape, kani::any(), kani::any());
    let got = pk.verify(&sig, &msg);
    let exp = ref_verify(&pk.I, &pk.T1, &sig, &msg);
    assert!(got == exp);
    if is_native() {
        // only in native playback: the pair is an honest one and must be accepted
        assert!(got);
    }
    vc!(got);
    vc!(!got && ref_strtou32(&sig, 0) >= NLEAF);
    vc!(!got && ref_strtou32(&sig, 0) < NLEAF && ref_strtou32(&sig, 4) != EXP_OTS_TYPE);
    vc!(!got && ref_strtou32(&sig, 0) < NLEAF && ref_strtou32(&sig, 4) == EXP_OTS_TYPE
        && ref_strtou32(&sig, 4 + EXP_OTS_SIGLEN) != EXP_LMS_TYPE);
    vc!(!got && ref_strtou32(&sig, 0) < NLEAF && ref_strtou32(&sig, 4) == EXP_OTS_TYPE
        && ref_strtou32(&sig, 4 + EXP_OTS_SIGLEN) == EXP_LMS_TYPE);
}

twin! {
    #[kani::unwind(256)]
    #[kani::stub(Hn, hn_ff)]
    #[kani::stub(Hm, hm_lean)]
    #[kani::stub(Hnx, hnx_lean)]
    #[kani::stub(honest, honest_any)]
    #[kani::stub(is_native, is_native_no)]
    #[kani::stub(ref_chain, ref_chain_fast)]
    fn verif_lms_verify_ref_cff / verif_ncx_lms_verify_ref_cff => verify_vs_ref()
}

twin! {
    #[kani::unwind(256)]
    #[kani::stub(Hn, hn_hi)]
    #[kani::stub(Hm, hm_lean)]
    #[kani::stub(Hnx, hnx_lean)]
    #[kani::stub(honest, honest_any)]
    #[kani::stub(is_native, is_native_no)]
    #[kani::stub(ref_chain, ref_chain_fast)]
    fn verif_lms_verify_ref_q1 / verif_ncx_lms_verify_ref_q1 => verify_vs_ref()
}

twin! {
    #[kani::unwind(256)]
    #[kani::stub(Hn, hn_free)]
    #[kani::stub(Hm, hm_lean)]
    #[kani::stub(Hnx, hnx_lean)]
    #[kani::stub(honest, honest_any)]
    #[kani::stub(is_native, is_native_no)]
    #[kani::stub(ref_chain, ref_chain_fast)]
    fn verif_lms_verify_ref_free / verif_ncx_lms_verify_ref_free => verify_vs_ref()
}

// ------------------------------------------------------------------------
// H4a: ots_verify == RFC 8554 Algorithm 4b for ALL LM-OTS signature strings of
// the right length, any q: u32 (the type word decides acceptance; the
// candidate key must agree lane by lane)

twin! {
    #[kani::unwind(256)]
    #[kani::stub(Hn, hn_ff)]
    #[kani::stub(Hnx, hnx_lean)]
    #[kani::stub(ref_chain, ref_chain_fast)]
    fn verif_lms_ots_verify_ref_cff / verif_ncx_lms_ots_verify_ref_cff => ots_verify_ref_cff_body()
}

fn ots_verify_ref_cff_body() {
    let pk = PublicKey { I: kani::any(), T1: kani::any() };
    let q: u32 = kani::any();
    let osig: [u8; ots_siglen] = kani::any();
    let msg: [u8; 3] = kani::any();
    let got = pk.ots_verify(q, &osig, &msg);
    let exp = ref_ots_kc(&pk.I, q, &osig, &msg);
    match (got, exp) {
        (None, None) => {
            vc!(ref_strtou32(&osig, 0) == (EXP_OTS_TYPE ^ 0x0100_0000));
        }
        (Some(x), Some(y)) => {
            let xl = lanes_n(&x);
            let yl = lanes_n(&y);
            let mut u = 0usize;
            while u < LN {
                assert!(xl[u] == yl[u]);
                u += 1;
            }
            vc!(x[0] == 0x42);
        }
        _ => {
            assert!(false);
        }
    }
    // wrong lengths are rejected
    let short: [u8; ots_siglen - 1] = kani::any();
    let long: [u8; ots_siglen + 1] = kani::any();
    assert!(pk.ots_verify(q, &short, &msg).is_none());
    assert!(pk.ots_verify(q, &long, &msg).is_none());
    assert!(pk.ots_verify(q, &osig[..3], &msg).is_none());
}

// ------------------------------------------------------------------------
// H4b: the LMS layer of verify (everything around ots_verify) against RFC 8554
// Algorithm 6/6a for ALL signature strings, with the LM-OTS layer replaced on
// BOTH sides by the same deterministic stand-in (its contract: None iff the
// length or the type word is wrong, else a digest of I, q, the LM-OTS
// signature bytes and the message).  No Winternitz chain is executed.

fn kc_standin(id: &[u8; 16], q: u32, osig: &[u8], msg: &[u8]) -> Option<[u8; n]> {
    if osig.len() != EXP_OTS_SIGLEN {
        return None;
    }
    if ref_strtou32(osig, 0) != EXP_OTS_TYPE {
        return None;
    }
    let d = dig3(id, &ref_u32str(q), &[0u8, 0u8]) ^ digs(msg).rotate_left(23);
    // first / second / middle / last n-byte blocks of C || y[0..p]
    let mut l = lanes_n(&osig[4..(4 + EXP_N)]);
    let b1 = lanes_n(&osig[(4 + EXP_N)..(4 + 2 * EXP_N)]);
    let b2 = lanes_n(&osig[(4 + (EXP_P / 2) * EXP_N)..(4 + (EXP_P / 2 + 1) * EXP_N)]);
    let b3 = lanes_n(&osig[(EXP_OTS_SIGLEN - EXP_N)..EXP_OTS_SIGLEN]);
    let mut t = 0usize;
    while t < LN {
        l[t] = l[t] ^ b1[t].rotate_left(7) ^ b2[t].rotate_left(19) ^ b3[t].rotate_left(29);
        t += 1;
    }
    l[0] ^= d;
    Some(unsafe { core::mem::transmute::<[u64; LN], [u8; n]>(l) })
}

fn ots_verify_standin(pk: PublicKey, q: u32, sig: &[u8], msg: &[u8]) -> Option<[u8; n]> {
    kc_standin(&pk.I, q, sig, msg)
}

twin! {
    #[kani::unwind(66)]
    #[kani::stub(PublicKey::ots_verify, ots_verify_standin)]
    #[kani::stub(ref_ots_kc, kc_standin)]
    #[kani::stub(Hm, hm_lean)]
    #[kani::stub(honest, honest_any)]
    #[kani::stub(is_native, is_native_no)]
    fn verif_lms_verify_layer / verif_ncx_lms_verify_layer => verify_vs_ref()
}

// ------------------------------------------------------------------------
// H5: verify rejects every wrongly sized signature, q >= 2^h and any wrong
// type word, whatever the rest of the signature is.

fn len_case<const L: usize>(pk: PublicKey, sig: &[u8; lms_siglen], fill: u8, msg: &[u8]) {
    let mut buf = [fill; L];
    let c = if L < lms_siglen { L } else { lms_siglen };
    buf[..c].copy_from_slice(&sig[..c]);
    assert!(!pk.verify(&buf, msg));
}

fn verify_reject_body() {
    let id: [u8; 16] = kani::any();
    let seed: [u8; m] = kani::any();
    let q: u32 = kani::any();
    let msg: [u8; 3] = kani::any();
    let tape: [u8; n] = kani::any();
    let (pk, sig) = honest(id, seed, q, &msg, tape, kani::any(), kani::any());
    if is_native() {
        assert!(pk.verify(&sig, &msg));
    }
    // (a) wrong sizes: truncated / extended by one byte, empty, shorter than the
    // fixed words, LM-OTS part only, no path, doubled
    let fill: u8 = kani::any();
    len_case::<{ lms_siglen + 1 }>(pk, &sig, fill, &msg);
    len_case::<{ lms_siglen - 1 }>(pk, &sig, fill, &msg);
    len_case::<{ 2 * lms_siglen }>(pk, &sig, fill, &msg);
    len_case::<{ lms_siglen + m }>(pk, &sig, fill, &msg);
    len_case::<{ lms_siglen - m }>(pk, &sig, fill, &msg);
    len_case::<{ ots_siglen + 8 }>(pk, &sig, fill, &msg);
    len_case::<{ ots_siglen + 4 }>(pk, &sig, fill, &msg);
    len_case::<8>(pk, &sig, fill, &msg);
    len_case::<7>(pk, &sig, fill, &msg);
    len_case::<4>(pk, &sig, fill, &msg);
    len_case::<3>(pk, &sig, fill, &msg);
    len_case::<0>(pk, &sig, fill, &msg);
    // (b) one of: q >= 2^h, wrong LM-OTS type word, wrong LMS type word
    let which: u8 = kani::any();
    let word: u32 = kani::any();
    kani::assume(which < 3);
    let mut bad = sig;
    if which == 0 {
        kani::assume(word >= NLEAF);
        bad[0..4].copy_from_slice(&ref_u32str(word));
    } else if which == 1 {
        kani::assume(word != EXP_OTS_TYPE);
        bad[4..8].copy_from_slice(&ref_u32str(word));
    } else {
        kani::assume(word != EXP_LMS_TYPE);
        bad[(4 + EXP_OTS_SIGLEN)..(8 + EXP_OTS_SIGLEN)].copy_from_slice(&ref_u32str(word));
    }
    assert!(!pk.verify(&bad, &msg));
    vc!(which == 0 && word == NLEAF);
    vc!(which == 1 && word == (EXP_OTS_TYPE ^ 0x0100_0000));
    vc!(which == 1 && word == (EXP_OTS_TYPE ^ 1));
    vc!(which == 2 && word == (EXP_LMS_TYPE ^ 0x0001_0000));
}

// Shallow variant: on a correct tree every rejection happens before any loop of
// verify / ots_verify is reached, so unwinding 3 suffices and the unwinding
// assertions prove it.  If they fail (the rejected input gets past the checks)
// the driver escalates to the deep twin, which unwinds the Winternitz chains
// fully and yields a replayable counterexample.
twin! {
    #[kani::unwind(3)]
    #[kani::stub(Hn, hn_ff)]
    #[kani::stub(Hm, hm_lean)]
    #[kani::stub(Hnx, hnx_lean)]
    #[kani::stub(honest, honest_any)]
    #[kani::stub(is_native, is_native_no)]
    fn verif_lms_verify_reject_shallow / verif_ncx_lms_verify_reject_shallow => verify_reject_body()
}

twin! {
    #[kani::unwind(256)]
    #[kani::stub(Hn, hn_ff)]
    #[kani::stub(Hm, hm_lean)]
    #[kani::stub(Hnx, hnx_lean)]
    #[kani::stub(honest, honest_any)]
    #[kani::stub(is_native, is_native_no)]
    fn verif_lms_verify_reject_deep / verif_ncx_lms_verify_reject_deep => verify_reject_body()
}
