// C16 harness wrapper for LMS_SHA256_M32_H5 / LMOTS_SHA256_N32_W8.
// Included (by engines/kani/runner.py) as a child module of
// `pub mod LMS_SHA256_M32_H5_SHA256_N32_W8` in a scratch copy of src/lms.rs.
// The constants below are the *specification* values (RFC 8554 sections 4.1 and
// 5.1, tables 1 and 2); they are not derived from the code under test.
use super::*;

const EXP_N: usize = 32;
const EXP_M: usize = 32;
const EXP_W: usize = 8;
const EXP_H: usize = 5;
const EXP_P: usize = 34;
const EXP_LS: usize = 0;
const EXP_LMS_TYPE: u32 = 0x0000_0005; // LMS_SHA256_M32_H5
const EXP_OTS_TYPE: u32 = 0x0000_0004; // LMOTS_SHA256_N32_W8
const EXP_OTS_SIGLEN: usize = 1124; // RFC 8554 table 1: sig_len
const EXP_SIGLEN: usize = 1292; // 12 + n*(p+1) + m*h

include!("lms_body.rs");
