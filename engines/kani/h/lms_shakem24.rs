// C16 harness wrapper for LMS_SHAKE_M24_H5 / LMOTS_SHAKE_N24_W8.
// Included as a child module of `pub mod LMS_SHAKE_M24_H5_SHAKE_N24_W8`.
// Specification values: NIST SP 800-208 section 4 / draft-fluhrer-lms-more-parm-sets
// (type codes 0x14 and 0x10; n = m = 24, w = 8, p = 26, ls = 0, h = 5).
use super::*;

const EXP_N: usize = 24;
const EXP_M: usize = 24;
const EXP_W: usize = 8;
const EXP_H: usize = 5;
const EXP_P: usize = 26;
const EXP_LS: usize = 0;
const EXP_LMS_TYPE: u32 = 0x0000_0014; // LMS_SHAKE_M24_H5
const EXP_OTS_TYPE: u32 = 0x0000_0010; // LMOTS_SHAKE_N24_W8
const EXP_OTS_SIGLEN: usize = 652;
const EXP_SIGLEN: usize = 780;

include!("lms_body.rs");
