// C16 harness wrapper for LMS_SHAKE_M32_H5 / LMOTS_SHAKE_N32_W8.
// Included as a child module of `pub mod LMS_SHAKE_M32_H5_SHAKE_N32_W8`.
// Specification values: NIST SP 800-208 section 4 / draft-fluhrer-lms-more-parm-sets
// (type codes 0x0F and 0x0C; n = m = 32, w = 8, p = 34, ls = 0, h = 5).
use super::*;

const EXP_N: usize = 32;
const EXP_M: usize = 32;
const EXP_W: usize = 8;
const EXP_H: usize = 5;
const EXP_P: usize = 34;
const EXP_LS: usize = 0;
const EXP_LMS_TYPE: u32 = 0x0000_000F; // LMS_SHAKE_M32_H5
const EXP_OTS_TYPE: u32 = 0x0000_000C; // LMOTS_SHAKE_N32_W8
const EXP_OTS_SIGLEN: usize = 1124;
const EXP_SIGLEN: usize = 1292;

include!("lms_body.rs");
