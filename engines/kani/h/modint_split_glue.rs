// C11 (engine K): ModInt256::split_vartime glue (src/backend/w64/modint.rs).
// Included as a child module at the end of modint.rs (sees private items).
//
// The real split_vartime runs with
//   * Montgomery arithmetic stubbed (set_mul -> arbitrary normalized value,
//     set_montyred -> the plain value of the harness scalar, kept in a ghost),
//   * the four Lagrange routines stubbed BY CONTRACT (lagrange.rs comments):
//       - lagrange128_basisconv_vartime: arbitrary (e0,e1,f0,f1,bl_nv) such
//         that, when bl_nv <= 124 (the only case in which the caller uses
//         e/f), u = e0*[a,1]+e1*[b,0], v = f0*[a,1]+f1*[b,0] is a
//         size-reduced basis (det +-1, 2|<u,v>| <= N(u) <= N(v)) and
//         bl_nv = bitlen(N(v));
//       - lagrange128_spec_vartime: arbitrary (u1, v1, bl_nv); a value
//         bl_nv > 208 is returned only together with a CERTIFICATE: a nonzero
//         lattice vector w = x*A + y*B with N(w) * 2^208 <= det^2, which forces
//         the second minimum of the lattice above 2^104 (Hermite), i.e. every
//         size-reduced basis has bitlen(N(v)) >= 209: the real routine must
//         then return bl_nv > 208 as well;
//       - lagrange192_spec_vartime / lagrange256_vartime: arbitrary outputs.
//     With these stubs a counterexample's scalar k drives the REAL routines
//     down the same branches, so the concrete playback (no stubs) reproduces.
use super::*;

pub fn st_addcarry_u64(x: u64, y: u64, c: u8) -> (u64, u8) {
    let z = (x as u128).wrapping_add(y as u128).wrapping_add(c as u128);
    (z as u64, (z >> 64) as u8)
}

pub fn st_subborrow_u64(x: u64, y: u64, c: u8) -> (u64, u8) {
    let z = (x as u128).wrapping_sub(y as u128).wrapping_sub(c as u128);
    (z as u64, (z >> 127) as u8)
}

// ghost state (single harness thread)
static mut G_PLAIN: [u64; 4] = [0; 4]; // plain value k of the harness scalar
static mut G_MONTY: [u64; 4] = [0; 4]; // its (opaque) Montgomery representation
static mut G_MOD: [u64; 4] = [0; 4]; // modulus of the instantiation
static mut G_BL1: u32 = 0; // bl_nv returned by the level-1 stub
static mut G_EF: [i64; 4] = [0; 4]; // (e0, e1, f0, f1) returned by the level-1 stub
static mut G_BL2: u32 = 0; // bl_nv returned by the level-2 stub (0 = not called)
static mut G_NMUL: u32 = 0; // number of Montgomery products so far
static mut G_L192: u32 = 0; // lagrange192_spec stub called
static mut G_L256: u32 = 0; // lagrange256 stub called
static mut G_C1: [u64; 2] = [0; 2]; // u1 returned by the lagrange192 stub
static mut G_GEN: ([u64; 2], [u64; 2]) = ([0; 2], [0; 2]); // lagrange256 stub output

fn lt256(a: &[u64; 4], b: &[u64; 4]) -> bool {
    let (_, c) = st_subborrow_u64(a[0], b[0], 0);
    let (_, c) = st_subborrow_u64(a[1], b[1], c);
    let (_, c) = st_subborrow_u64(a[2], b[2], c);
    let (_, c) = st_subborrow_u64(a[3], b[3], c);
    c != 0
}

fn eq4(a: &[u64; 4], b: &[u64; 4]) -> bool {
    a[0] == b[0] && a[1] == b[1] && a[2] == b[2] && a[3] == b[3]
}

fn any_below_mod() -> [u64; 4] {
    let r: [u64; 4] = kani::any();
    let m = unsafe { G_MOD };
    kani::assume(lt256(&r, &m));
    r
}

// ------------------------------------------------------------------------
// Montgomery stubs

fn st_set_mul<const M0: u64, const M1: u64, const M2: u64, const M3: u64>(
    this: &mut ModInt256<M0, M1, M2, M3>, _rhs: &ModInt256<M0, M1, M2, M3>)
{
    unsafe { G_NMUL += 1; }
    this.0 = any_below_mod();
}

fn st_set_montyred<const M0: u64, const M1: u64, const M2: u64, const M3: u64>(
    this: &mut ModInt256<M0, M1, M2, M3>)
{
    unsafe {
        if eq4(&this.0, &G_MONTY) {
            this.0 = G_PLAIN;
        } else {
            this.0 = any_below_mod();
        }
    }
}

// ------------------------------------------------------------------------
// Lagrange stubs

fn bitlen_u128(x: u128) -> u32 {
    128 - x.leading_zeros()
}

// level 1, proof direction: only the documented size consequence of
// bl_nv <= 124 (|v| < 2^62, hence all four factors within 63 bits); weaker
// than the full contract, i.e. more behaviours than the real routine has
pub fn st_basisconv_weak(_a: &[u64; 2], _b: &[u64; 2]) -> (i64, i64, i64, i64, u32) {
    let bl: u32 = kani::any();
    kani::assume(bl >= 1 && bl <= 256);
    unsafe { G_BL1 = bl; }
    let e0: i64 = kani::any();
    let e1: i64 = kani::any();
    let f0: i64 = kani::any();
    let f1: i64 = kani::any();
    if bl <= 124 {
        let lim = (1i64 << 62) + 1;
        kani::assume(e0 > -lim && e0 < lim && e1 > -lim && e1 < lim);
        kani::assume(f0 > -lim && f0 < lim && f1 > -lim && f1 < lim);
    }
    unsafe { G_EF = [e0, e1, f0, f1]; }
    (e0, e1, f0, f1, bl)
}

// level 1, reachability direction: the FULL documented contract with
// bl_nv <= 124 (the basis is accepted by the caller)
pub fn st_basisconv_full(a: &[u64; 2], b: &[u64; 2]) -> (i64, i64, i64, i64, u32) {
    let bl: u32 = kani::any();
    kani::assume(bl >= 1 && bl <= 124);
    unsafe { G_BL1 = bl; }
    let e0: i64 = kani::any();
    let e1: i64 = kani::any();
    let f0: i64 = kani::any();
    let f1: i64 = kani::any();
    // operands: a <= b < 2^114 (k and n scaled down by 142 bits, n < 2^256)
    const M57: u64 = (1u64 << 57) - 1;
    let al = (a[0] & M57) as i128;
    let ah = ((a[0] >> 57) | (a[1] << 7)) as i128;
    let bl_ = (b[0] & M57) as i128;
    let bh = ((b[0] >> 57) | (b[1] << 7)) as i128;
    kani::assume((a[1] >> 50) == 0 && (b[1] >> 50) == 0);
    // N(v) < 2^124 bounds all four factors (|e1|,|f1| <= 2^62 + 1 since a <= b)
    let lim = (1i64 << 62) + 1;
    kani::assume(e0 > -lim && e0 < lim && e1 > -lim && e1 < lim);
    kani::assume(f0 > -lim && f0 < lim && f1 > -lim && f1 < lim);
    let (e0w, e1w, f0w, f1w) = (e0 as i128, e1 as i128, f0 as i128, f1 as i128);
    // u0 = e0*a + e1*b, v0 = f0*a + f1*b, exact, in base 2^57 (wrapping
    // operators only to avoid posing overflow checks on stub code: with the
    // ranges assumed above every product is below 2^121 and every sum below
    // 2^123 in absolute value)
    let mul = |x: i128, y: i128| x.wrapping_mul(y);
    let add = |x: i128, y: i128| x.wrapping_add(y);
    let ul = add(mul(e0w, al), mul(e1w, bl_));
    let uh = add(add(mul(e0w, ah), mul(e1w, bh)), ul >> 57);
    let vl = add(mul(f0w, al), mul(f1w, bl_));
    let vh = add(add(mul(f0w, ah), mul(f1w, bh)), vl >> 57);
    kani::assume(uh > -64 && uh < 64 && vh > -64 && vh < 64);
    let u0 = add(uh << 57, ul & (M57 as i128));
    let v0 = add(vh << 57, vl & (M57 as i128));
    let l62 = 1i128 << 62;
    kani::assume(u0 > -l62 && u0 < l62 && v0 > -l62 && v0 < l62);
    let det = add(mul(e0w, f1w), -mul(e1w, f0w));
    kani::assume(det == 1 || det == -1);
    let nu = add(mul(u0, u0), mul(e0w, e0w));
    let nv = add(mul(v0, v0), mul(f0w, f0w));
    let sp = add(mul(u0, v0), mul(e0w, f0w));
    kani::assume(nu <= nv);
    kani::assume(sp.wrapping_mul(2) <= nu && sp.wrapping_mul(-2) <= nu);
    kani::assume(bl == bitlen_u128(nv as u128));
    (e0, e1, f0, f1, bl)
}

// certificate bound: N(w) <= G_CERT implies N(w) * 2^208 <= (n >> 85)^2
static mut G_CERT: u128 = 0;

// level 2, main path: bl_nv <= 208, i.e. N(v) < 2^208: both second
// coordinates are below 2^104 in absolute value
pub fn st_spec128_short(a0: &[u64; 2], a1: &[u64; 2], b0: &[u64; 2], b1: &[u64; 2])
    -> ([u64; 2], [u64; 2], u32)
{
    // the basis handed over by the glue (scaling by 85 bits + apply_matrix):
    // [a0, a1] = e0*[k', 1] + e1*[n', 0], [b0, b1] = f0*[k', 1] + f1*[n', 0] modulo
    // 2^128, with k' = k >> 85, n' = n >> 85.  Checked here: the second
    // coordinates (sign-extended e0, f0).  The first coordinates are NOT checked:
    // a full-width check is a 64x128-bit multiplier equivalence that did not close
    // in 25 min, and even the unit factor pairs (+-1, 0), (0, +-1) took > 7 min on
    // the shared machine.
    unsafe {
        let j = |x: &[u64; 2]| (x[0] as u128) | ((x[1] as u128) << 64);
        let (e0, f0) = (G_EF[0], G_EF[2]);
        assert!(j(a1) == e0 as i128 as u128 && j(b1) == f0 as i128 as u128);
    }
    let bl: u32 = kani::any();
    kani::assume(bl >= 1 && bl <= 208);
    unsafe { G_BL2 = bl; }
    let u1: [u64; 2] = kani::any();
    let v1: [u64; 2] = kani::any();
    let hi = |z: &[u64; 2]| ((z[1] as i64) >> 40) == 0 || ((z[1] as i64) >> 40) == -1;
    kani::assume(hi(&u1) && hi(&v1));
    (u1, v1, bl)
}

// level 2, "second vector too long": bl_nv > 208 with its certificate
pub fn st_spec128_long(a0: &[u64; 2], a1: &[u64; 2], b0: &[u64; 2], b1: &[u64; 2])
    -> ([u64; 2], [u64; 2], u32)
{
    let bl: u32 = kani::any();
    kani::assume(bl > 208 && bl <= 256);
    unsafe { G_BL2 = bl; }
    let u1: [u64; 2] = kani::any();
    let v1: [u64; 2] = kani::any();
    // certificate: w = x*A + y*B, nonzero, N(w) <= G_CERT
    let x: i64 = kani::any();
    let y: i64 = kani::any();
    let lim = 1i64 << 62;
    kani::assume(x > -lim && x < lim && y > -lim && y < lim);
    let (xw, yw) = (x as i128, y as i128);
    // second coordinates are sign-extended 64-bit values (e0, f0)
    let a1s = a1[0] as i64 as i128;
    let b1s = b1[0] as i64 as i128;
    kani::assume(a1[1] == ((a1[0] as i64) >> 63) as u64 && b1[1] == ((b1[0] as i64) >> 63) as u64);
    let mul = |p: i128, q: i128| p.wrapping_mul(q);
    let add = |p: i128, q: i128| p.wrapping_add(q);
    let w1 = add(mul(xw, a1s), mul(yw, b1s));
    // first coordinates: signed 128-bit, |.| < 2^123 (57 + 65 bits + sign)
    let a0l = a0[0] as i128;
    let a0h = a0[1] as i64 as i128;
    let b0l = b0[0] as i128;
    let b0h = b0[1] as i64 as i128;
    let l59 = 1i128 << 59;
    kani::assume(a0h >= -l59 && a0h < l59 && b0h >= -l59 && b0h < l59);
    let wl = add(mul(xw, a0l), mul(yw, b0l));
    let wh = add(add(mul(xw, a0h), mul(yw, b0h)), wl >> 64);
    let wlow = wl as u64;
    kani::assume((wh == 0 && (wlow >> 63) == 0) || (wh == -1 && (wlow >> 63) == 1));
    let w0 = wlow as i64 as i128;
    let l63 = 1i128 << 63;
    kani::assume(w1 > -l63 && w1 < l63);
    kani::assume(w0 != 0 || w1 != 0);
    let nw = add(mul(w0, w0), mul(w1, w1)) as u128;
    kani::assume(nw <= unsafe { G_CERT });
    (u1, v1, bl)
}

pub fn st_spec192(_a0: &[u64; 3], _a1: &[u64; 3], _b0: &[u64; 3], _b1: &[u64; 3])
    -> ([u64; 2], [u64; 2], u32)
{
    let u1: [u64; 2] = kani::any();
    let v1: [u64; 2] = kani::any();
    let bl: u32 = kani::any();
    unsafe { G_L192 += 1; G_C1 = u1; }
    (u1, v1, bl)
}

pub fn st_lagrange256(k: &[u64; 4], n: &[u64; 4], max_bitlen: u32) -> ([u64; 2], [u64; 2]) {
    let v0: [u64; 2] = kani::any();
    let v1: [u64; 2] = kani::any();
    unsafe {
        // the fallback is called with (k, n, 254)
        assert!(eq4(k, &G_PLAIN) && eq4(n, &G_MOD) && max_bitlen == 254);
        G_L256 += 1;
        G_GEN = (v0, v1);
    }
    (v0, v1)
}

fn as_i128(x: &[u64; 2]) -> i128 {
    ((x[0] as u128) | ((x[1] as u128) << 64)) as i128
}

// ------------------------------------------------------------------------
// harness bodies

// n >> t for 0 <= t < 128 (constant n, symbolic t)
fn shr256(n: &[u64; 4], t: u32) -> [u64; 4] {
    let lo = (n[0] as u128) | ((n[1] as u128) << 64);
    let hi = (n[2] as u128) | ((n[3] as u128) << 64);
    let (rl, rh) = if t == 0 {
        (lo, hi)
    } else {
        ((lo >> t) | (hi << (128 - t)), hi >> t)
    };
    [rl as u64, (rl >> 64) as u64, rh as u64, (rh >> 64) as u64]
}

const FAM_SHIFT: u64 = 0xFFFF_FFFF_FFFF_FFFF; // ktop value selecting the family below

fn run_split<const M0: u64, const M1: u64, const M2: u64, const M3: u64>(ktop: u64) -> (i128, i128) {
    let m = [M0, M1, M2, M3];
    let k: [u64; 4] = if ktop == FAM_SHIFT {
        // restricted family: k = floor(n / 2^t) + eps, 32 <= t < 96, eps < 2^16
        // (scalars close to n/2^t: the lattice has the short vector (~2^t eps - (n mod 2^t), 2^t))
        let t: u32 = kani::any();
        let eps: u16 = kani::any();
        kani::assume(t >= 32 && t < 96);
        let mut k = shr256(&m, t);
        k[0] = k[0].wrapping_add(eps as u64); // no carry: the low limb of n >> t is below 2^64 - 2^16 (assumed)
        kani::assume(k[0] >= eps as u64);
        k
    } else {
        kani::any()
    };
    kani::assume(lt256(&k, &m));
    if ktop != 0 && ktop != FAM_SHIFT {
        // restricted family: k < ktop * 2^192
        kani::assume(k[3] < ktop);
    }
    // certificate bound: ((n >> 189)^2 capped to 63-bit coordinates
    let c = ((M2 >> 61) as u128) | ((M3 as u128) << 3);
    let c = if c > 0x7FFF_FFFF_FFFF_FFFF { 0x7FFF_FFFF_FFFF_FFFFu128 } else { c };
    unsafe {
        G_MOD = m;
        G_CERT = c.wrapping_mul(c);
        G_BL1 = 0; G_BL2 = 0; G_NMUL = 0; G_L192 = 0; G_L256 = 0;
    }
    // Montgomery representation: real arithmetic natively, opaque under Kani
    let s = ModInt256::<M0, M1, M2, M3>::from_w64le(k[0], k[1], k[2], k[3]);
    unsafe {
        G_PLAIN = k;
        G_MONTY = s.0;
        G_NMUL = 0;
    }
    s.split_vartime()
}

// main path and level-1 fallback, for every scalar and every behaviour of
// the weak level-1 / short level-2 contracts
fn split_glue_main<const M0: u64, const M1: u64, const M2: u64, const M3: u64>() {
    let (c0, c1) = run_split::<M0, M1, M2, M3>(0);
    if is_native() {
        return;
    }
    unsafe {
        if G_L256 != 0 {
            // fallback: the pair of the generic routine, truncated to 128 bits
            assert!(c0 == as_i128(&G_GEN.0) && c1 == as_i128(&G_GEN.1));
            assert!(G_BL1 > 124 && G_BL2 == 0);
            assert!(G_L192 == 0 && G_NMUL == 0);
        } else {
            assert!(G_BL1 <= 124 && G_BL2 >= 1 && G_BL2 <= 208);
            // c1 is the (truncated) second coordinate found by the last
            // reduction; 2 products for the basis, 1 for c0, more for the
            // +-2^128 candidates
            assert!(G_L192 == 1 && c1 == as_i128(&G_C1));
            assert!(G_NMUL >= 3);
        }
        kani::cover!(G_L256 != 0 && G_BL1 > 124);
        kani::cover!(G_L256 == 0 && G_NMUL == 3);
        kani::cover!(G_L256 == 0 && G_NMUL >= 4);
    }
}

// "second vector too long": level 1 accepted (full contract), level 2 returns
// bl_nv > 208 (certificate).  The documented behaviour is the fallback to the
// generic routine; a panic here is the leftover `assert!(false)`.
fn split_glue_long<const M0: u64, const M1: u64, const M2: u64, const M3: u64>(ktop: u64) {
    let (c0, c1) = run_split::<M0, M1, M2, M3>(ktop);
    if is_native() {
        return;
    }
    unsafe {
        assert!(G_L256 == 1 && G_BL1 <= 124 && G_BL2 > 208);
        assert!(c0 == as_i128(&G_GEN.0) && c1 == as_i128(&G_GEN.1));
        assert!(G_L192 == 0 && G_NMUL == 0);
        kani::cover!(G_L256 == 1);
    }
}

// true in native playback, false (stubbed) under Kani
fn is_native() -> bool {
    true
}

fn is_native_no() -> bool {
    false
}

macro_rules! glue_harness { ($name:ident, $body:ident ( $($arg:expr),* ), $l1:ident, $l2:ident, $m0:expr, $m1:expr, $m2:expr, $m3:expr) => {
    #[kani::proof]
    #[kani::unwind(5)]
    #[kani::stub(crate::backend::w64::addcarry_u64, st_addcarry_u64)]
    #[kani::stub(crate::backend::w64::subborrow_u64, st_subborrow_u64)]
    #[kani::stub(crate::backend::w64::modint::ModInt256::set_mul, st_set_mul)]
    #[kani::stub(crate::backend::w64::modint::ModInt256::set_montyred, st_set_montyred)]
    #[kani::stub(crate::backend::w64::lagrange::lagrange128_basisconv_vartime, $l1)]
    #[kani::stub(crate::backend::w64::lagrange::lagrange128_spec_vartime, $l2)]
    #[kani::stub(crate::backend::w64::lagrange::lagrange192_spec_vartime, st_spec192)]
    #[kani::stub(crate::backend::w64::lagrange::lagrange256_vartime, st_lagrange256)]
    #[kani::stub(is_native, is_native_no)]
    fn $name() {
        $body::<{ $m0 }, { $m1 }, { $m2 }, { $m3 }>($($arg),*);
    }
} }

// ed25519::Scalar (modulus below the 1.73*2^253 bound)
glue_harness!(verif_split_glue_main_ed25519, split_glue_main(), st_basisconv_weak, st_spec128_short,
    0x5812631A5CF5D3ED, 0x14DEF9DEA2F79CD6, 0x0000000000000000, 0x1000000000000000);
glue_harness!(verif_split_glue_long_ed25519, split_glue_long(0), st_basisconv_full, st_spec128_long,
    0x5812631A5CF5D3ED, 0x14DEF9DEA2F79CD6, 0x0000000000000000, 0x1000000000000000);
glue_harness!(verif_split_glue_lsmall_ed25519, split_glue_long(1 << 12), st_basisconv_full, st_spec128_long,
    0x5812631A5CF5D3ED, 0x14DEF9DEA2F79CD6, 0x0000000000000000, 0x1000000000000000);
glue_harness!(verif_split_glue_lfam_ed25519, split_glue_long(FAM_SHIFT), st_basisconv_full, st_spec128_long,
    0x5812631A5CF5D3ED, 0x14DEF9DEA2F79CD6, 0x0000000000000000, 0x1000000000000000);
// p256::Scalar (large-modulus path)
glue_harness!(verif_split_glue_main_p256, split_glue_main(), st_basisconv_weak, st_spec128_short,
    0xF3B9CAC2FC632551, 0xBCE6FAADA7179E84, 0xFFFFFFFFFFFFFFFF, 0xFFFFFFFF00000000);
glue_harness!(verif_split_glue_long_p256, split_glue_long(0), st_basisconv_full, st_spec128_long,
    0xF3B9CAC2FC632551, 0xBCE6FAADA7179E84, 0xFFFFFFFFFFFFFFFF, 0xFFFFFFFF00000000);
glue_harness!(verif_split_glue_lfam_p256, split_glue_long(FAM_SHIFT), st_basisconv_full, st_spec128_long,
    0xF3B9CAC2FC632551, 0xBCE6FAADA7179E84, 0xFFFFFFFFFFFFFFFF, 0xFFFFFFFF00000000);
