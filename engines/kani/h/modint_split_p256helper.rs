// C11/C19 (engine K): p256::Point::verify_helper_vartime, the recovery of the
// truncated split (c0 + a*2^128, c1 + b*2^128) and its `assert!(b != -100)`
// (src/p256.rs ~1227).  Child module of backend::w64::modint (needs the private
// representation of ModInt256 for the stubs).
//
// Stubs:
//   * ModInt256::split_vartime -> its documented contract for moduli above
//     1.73*2^253: arbitrary (c0, c1) for which SOME a, b in {-1,0,+1} satisfy
//     k*(c1 + b*2^128) = c0 + a*2^128 (mod n); (a, b) are ghosts;
//   * ModInt256::set_mul -> arbitrary normalized value, except the product
//     that yields kr = (k*c1 - c0)/2^128 (the 4th one), which is a - b*k by
//     the contract above and the ring axioms (computed with the real add/sub);
//   * Point::recode_u129_NAF -> cut (assume(false)): everything after the
//     assertion (recoding, point arithmetic) is outside this harness.
use super::*;

pub fn sh_addcarry_u64(x: u64, y: u64, c: u8) -> (u64, u8) {
    let z = (x as u128).wrapping_add(y as u128).wrapping_add(c as u128);
    (z as u64, (z >> 64) as u8)
}

pub fn sh_subborrow_u64(x: u64, y: u64, c: u8) -> (u64, u8) {
    let z = (x as u128).wrapping_sub(y as u128).wrapping_sub(c as u128);
    (z as u64, (z >> 127) as u8)
}

static mut H_K: [u64; 4] = [0; 4];
static mut H_A: i32 = 0;
static mut H_B: i32 = 0;
static mut H_CNT: u32 = 0;
static mut H_SPLIT: u32 = 0;

fn sh_lt256(a: &[u64; 4], b: &[u64; 4]) -> bool {
    let (_, c) = sh_subborrow_u64(a[0], b[0], 0);
    let (_, c) = sh_subborrow_u64(a[1], b[1], c);
    let (_, c) = sh_subborrow_u64(a[2], b[2], c);
    let (_, c) = sh_subborrow_u64(a[3], b[3], c);
    c != 0
}

fn sh_any<const M0: u64, const M1: u64, const M2: u64, const M3: u64>() -> ModInt256<M0, M1, M2, M3> {
    let r: [u64; 4] = kani::any();
    kani::assume(sh_lt256(&r, &[M0, M1, M2, M3]));
    ModInt256::<M0, M1, M2, M3>(r)
}

fn sh_split<const M0: u64, const M1: u64, const M2: u64, const M3: u64>(
    _this: ModInt256<M0, M1, M2, M3>) -> (i128, i128)
{
    let c0: i128 = kani::any();
    let c1: i128 = kani::any();
    let a: i32 = kani::any();
    let b: i32 = kani::any();
    kani::assume(a >= -1 && a <= 1 && b >= -1 && b <= 1);
    unsafe { H_A = a; H_B = b; H_SPLIT += 1; H_CNT = 0; }
    (c0, c1)
}

fn sh_set_mul<const M0: u64, const M1: u64, const M2: u64, const M3: u64>(
    this: &mut ModInt256<M0, M1, M2, M3>, _rhs: &ModInt256<M0, M1, M2, M3>)
{
    let cnt = unsafe { H_CNT += 1; H_CNT };
    if cnt == 4 && unsafe { H_SPLIT } == 1 {
        // kr = a - b*k (Montgomery representations; add/sub are the real code)
        let k = ModInt256::<M0, M1, M2, M3>(unsafe { H_K });
        let mut r = ModInt256::<M0, M1, M2, M3>::ZERO;
        let (a, b) = unsafe { (H_A, H_B) };
        if a == 1 { r.set_add(&ModInt256::<M0, M1, M2, M3>::ONE); }
        if a == -1 { r.set_sub(&ModInt256::<M0, M1, M2, M3>::ONE); }
        if b == 1 { r.set_sub(&k); }
        if b == -1 { r.set_add(&k); }
        *this = r;
    } else {
        *this = sh_any::<M0, M1, M2, M3>();
    }
}

static mut H_PASSED: u32 = 0;

fn sh_recode_u129(_nh: u32, _nl: u128) -> [i8; 130] {
    unsafe {
        H_PASSED += 1;
        kani::cover!(H_A == 1 && H_B == 1);
        kani::cover!(H_A == -1 && H_B == -1);
        kani::cover!(H_A == 0 && H_B == 0);
        kani::cover!(H_A == 1 && H_B == -1);
    }
    kani::assume(false);
    [0i8; 130]
}

type ScP256 = ModInt256<0xF3B9CAC2FC632551, 0xBCE6FAADA7179E84, 0xFFFFFFFFFFFFFFFF, 0xFFFFFFFF00000000>;

// unwind 5: the candidate loop `for _ in 0..3`
#[kani::proof]
#[kani::unwind(5)]
#[kani::stub(crate::backend::w64::addcarry_u64, sh_addcarry_u64)]
#[kani::stub(crate::backend::w64::subborrow_u64, sh_subborrow_u64)]
#[kani::stub(crate::backend::w64::modint::ModInt256::set_mul, sh_set_mul)]
#[kani::stub(crate::backend::w64::modint::ModInt256::split_vartime, sh_split)]
#[kani::stub(crate::p256::Point::recode_u129_NAF, sh_recode_u129)]
fn verif_p256_helper_assert() {
    let k: ScP256 = sh_any();
    let s: ScP256 = sh_any();
    unsafe { H_K = k.0; H_SPLIT = 0; H_CNT = 0; H_PASSED = 0; }
    let q = crate::p256::Point::NEUTRAL;
    let r = crate::p256::Point::BASE;
    let _ = q.verify_helper_vartime(&r, &s, &k);
    // the recoding stub cuts every path that passed the assertion
}
