// C11 (engine K): building blocks of ModInt256::split_vartime checked in
// isolation (src/backend/w64/modint.rs), and the zero scalar through the real
// reduction code.  Included as a child module at the end of modint.rs.
use super::*;

pub fn sp_addcarry_u64(x: u64, y: u64, c: u8) -> (u64, u8) {
    let z = (x as u128).wrapping_add(y as u128).wrapping_add(c as u128);
    (z as u64, (z >> 64) as u8)
}

pub fn sp_subborrow_u64(x: u64, y: u64, c: u8) -> (u64, u8) {
    let z = (x as u128).wrapping_sub(y as u128).wrapping_sub(c as u128);
    (z as u64, (z >> 127) as u8)
}

// reference arithmetic on 256-bit values held as two u128 halves (lo, hi)
fn r_join(x: &[u64; 4]) -> (u128, u128) {
    ((x[0] as u128) | ((x[1] as u128) << 64), (x[2] as u128) | ((x[3] as u128) << 64))
}

fn r_lt(a: (u128, u128), b: (u128, u128)) -> bool {
    a.1 < b.1 || (a.1 == b.1 && a.0 < b.0)
}

// a - b modulo 2^256
fn r_sub(a: (u128, u128), b: (u128, u128)) -> (u128, u128) {
    let (lo, bw) = a.0.overflowing_sub(b.0);
    let hi = a.1.wrapping_sub(b.1).wrapping_sub(bw as u128);
    (lo, hi)
}

// centered representative of r (0 <= r < n) as a 256-bit two's complement value:
// r if r <= (n-1)/2, else r - n
fn r_centered(r: (u128, u128), n: (u128, u128)) -> (u128, u128) {
    // (n-1)/2 = n >> 1 for odd n
    let h = ((n.0 >> 1) | (n.1 << 127), n.1 >> 1);
    if r_lt(h, r) { r_sub(r, n) } else { r }
}

static mut P_PROD: [u64; 4] = [0; 4];

fn sp_set_mul<const M0: u64, const M1: u64, const M2: u64, const M3: u64>(
    this: &mut ModInt256<M0, M1, M2, M3>, _rhs: &ModInt256<M0, M1, M2, M3>)
{
    // contract of Montgomery multiplication: an arbitrary normalized value;
    // smul_trunc's documented precondition (the signed product fits in three
    // words with its sign bit) is assumed on the centered representative
    let r: [u64; 4] = kani::any();
    let n = r_join(&[M0, M1, M2, M3]);
    let rj = r_join(&r);
    kani::assume(r_lt(rj, n));
    let c = r_centered(rj, n);
    // |c| < 2^191: top 65 bits all equal
    let top = (c.1 as i128) >> 63;
    kani::assume(top == 0 || top == -1);
    unsafe { P_PROD = r; }
    this.0 = r;
}

fn sp_is_native() -> bool {
    true
}

fn sp_is_native_no() -> bool {
    false
}

// smul_trunc(f): self*f normalized around 0, truncated to three words.  With
// the product r = f*self mod n supplied by the stub: the result must be the
// low three words of the centered representative of r.
fn smul_trunc_spec<const M0: u64, const M1: u64, const M2: u64, const M3: u64>() {
    let x: [u64; 4] = kani::any();
    let f: [u64; 2] = kani::any();
    let s = ModInt256::<M0, M1, M2, M3>(x);
    let got = s.smul_trunc(&f);
    let n = r_join(&[M0, M1, M2, M3]);
    if sp_is_native() {
        // native playback (no stub): the product is the real one, obtained
        // independently of smul_trunc through from_i128 / Montgomery decoding;
        // outside the documented precondition there is nothing to check
        let fi = ((f[0] as u128) | ((f[1] as u128) << 64)) as i128;
        let mut p = ModInt256::<M0, M1, M2, M3>::from_i128(fi);
        p.set_mul(&s);
        p.set_montyred();
        let c = r_centered(r_join(&p.0), n);
        let top = (c.1 as i128) >> 63;
        if !(r_lt(r_join(&x), n) && (top == 0 || top == -1)) {
            return;
        }
        unsafe { P_PROD = p.0; }
    }
    let c = r_centered(r_join(unsafe { &P_PROD }), n);
    assert!(got[0] == c.0 as u64);
    assert!(got[1] == (c.0 >> 64) as u64);
    assert!(got[2] == c.1 as u64);
    kani::cover!((c.1 >> 127) == 1);
    kani::cover!((c.1 >> 127) == 0 && c.1 != 0);
}

// norm_nonmonty_signed: exact, for every normalized value
fn norm_signed_spec<const M0: u64, const M1: u64, const M2: u64, const M3: u64>() {
    let x: [u64; 4] = kani::any();
    let n = r_join(&[M0, M1, M2, M3]);
    kani::assume(r_lt(r_join(&x), n));
    let d = ModInt256::<M0, M1, M2, M3>(x).norm_nonmonty_signed();
    let c = r_centered(r_join(&x), n);
    assert!(r_join(&d) == c);
    let a = ModInt256::<M0, M1, M2, M3>::signed_abs(&d);
    let neg = (c.1 >> 127) == 1;
    let ca = if neg { r_sub((0, 0), c) } else { c };
    assert!(r_join(&a) == ca);
    let y: [u64; 4] = kani::any();
    assert!(ModInt256::<M0, M1, M2, M3>::unsigned_lt(&x, &y) == r_lt(r_join(&x), r_join(&y)));
    kani::cover!(neg);
    kani::cover!(!neg && c.1 != 0);
}

// zero |-> (0, 1) through the REAL code (no Lagrange stub, real Montgomery
// arithmetic on the constant zero): a closed obligation, executed by CBMC.
fn split_zero<const M0: u64, const M1: u64, const M2: u64, const M3: u64>() {
    let z = ModInt256::<M0, M1, M2, M3>::from_w64le(0, 0, 0, 0);
    assert!(z.iszero() == 0xFFFFFFFF);
    let (c0, c1) = z.split_vartime();
    assert!(c0 == 0 && c1 == 1);
    let (c0, c1) = ModInt256::<M0, M1, M2, M3>::ZERO.split_vartime();
    assert!(c0 == 0 && c1 == 1);
    kani::cover!(c1 == 1);
}

macro_rules! parts_harness { ($smul:ident, $norm:ident, $zero:ident, $m0:expr, $m1:expr, $m2:expr, $m3:expr) => {
    #[kani::proof]
    #[kani::unwind(5)]
    #[kani::stub(crate::backend::w64::addcarry_u64, sp_addcarry_u64)]
    #[kani::stub(crate::backend::w64::subborrow_u64, sp_subborrow_u64)]
    #[kani::stub(crate::backend::w64::modint::ModInt256::set_mul, sp_set_mul)]
    #[kani::stub(sp_is_native, sp_is_native_no)]
    fn $smul() {
        smul_trunc_spec::<{ $m0 }, { $m1 }, { $m2 }, { $m3 }>();
    }

    #[kani::proof]
    #[kani::unwind(5)]
    #[kani::stub(crate::backend::w64::addcarry_u64, sp_addcarry_u64)]
    #[kani::stub(crate::backend::w64::subborrow_u64, sp_subborrow_u64)]
    fn $norm() {
        norm_signed_spec::<{ $m0 }, { $m1 }, { $m2 }, { $m3 }>();
    }

    // unwind 10: the widest big integer of lagrange256_vartime has 8 limbs
    // (ZInt512), one iteration of each reduction loop is taken for k = 0
    #[kani::proof]
    #[kani::unwind(10)]
    #[kani::stub(crate::backend::w64::addcarry_u64, sp_addcarry_u64)]
    #[kani::stub(crate::backend::w64::subborrow_u64, sp_subborrow_u64)]
    fn $zero() {
        split_zero::<{ $m0 }, { $m1 }, { $m2 }, { $m3 }>();
    }
} }

parts_harness!(verif_split_smul_trunc_ed25519, verif_split_norm_signed_ed25519, verif_split_zero_ed25519,
    0x5812631A5CF5D3ED, 0x14DEF9DEA2F79CD6, 0x0000000000000000, 0x1000000000000000);
parts_harness!(verif_split_smul_trunc_p256, verif_split_norm_signed_p256, verif_split_zero_p256,
    0xF3B9CAC2FC632551, 0xBCE6FAADA7179E84, 0xFFFFFFFFFFFFFFFF, 0xFFFFFFFF00000000);
