use super::*;
#[kani::proof]
#[kani::unwind(5)]
fn verif_lms_coef_ok() {
    let q: [u8; 4] = kani::any();
    let i: usize = kani::any();
    kani::assume(i < 4);
    let c = coef(&q, i);
    assert!(c == q[i]);
    kani::cover!(c == 7);
}
#[kani::proof]
fn verif_lms_fail() {
    let x: u8 = kani::any();
    assert!(x != 3);
}
