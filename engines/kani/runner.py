"""Engine K: run Kani proof harnesses against a scratch copy of /repo's
current working tree.

Harness files live in /verif/engines/kani/h/*.rs.  They are copied into the
scratch copy and included as child modules either at the end of a source
file (`module=None`) or just before the closing brace of a named top-level
`pub mod NAME {` block of that file (child modules see private items).
Nothing in /repo is touched.

Counterexamples are replayed natively with Kani's concrete playback (the
harness body runs as an ordinary test, *without stubs*); only a failing
replay counts as a violation."""
import os, re, resource, shutil, subprocess, sys, time
sys.path.insert(0, os.path.dirname(os.path.dirname(os.path.dirname(os.path.abspath(__file__)))))
from vlib.common import Scratch, log, VERIF
from vlib.par import pmap

HDIR = os.path.join(VERIF, "engines", "kani", "h")


class Insert:
    def __init__(self, src_rel, harness_file, module=None):
        self.src_rel, self.harness_file, self.module = src_rel, harness_file, module


class KResult:
    def __init__(self, name):
        self.name = name
        self.status = "error"        # success | failure | timeout | oom | error | unwind
        self.failed = []             # list of failed check descriptions
        self.covers = (0, 0)         # satisfied, total
        self.unsat_covers = []
        self.seconds = 0.0
        self.log_tail = ""
        self.playback = None         # rust source of the concrete playback test
        self.replayed = None         # True = reproduces natively, False = does not, None = not tried

    def to_json(self):
        return {"harness": self.name, "status": self.status, "failed_checks": self.failed[:8],
                "covers": list(self.covers), "seconds": round(self.seconds, 1),
                "replayed": self.replayed}


def prepare(inserts, extra_files=()):
    """scratch copy with harness modules wired in; returns Scratch"""
    sc = Scratch()
    hdst = os.path.join(sc.src, "src", "verif_h")
    os.makedirs(hdst, exist_ok=True)
    for k, ins in enumerate(inserts):
        base = os.path.basename(ins.harness_file)
        shutil.copy(ins.harness_file, os.path.join(hdst, base))
        modname = "verif_" + re.sub(r"\W", "_", base[:-3]) + "_%d" % k
        # path relative to the including file's directory
        # absolute path of the scratch copy (a relative #[path] inside an inline
        # module is resolved against src/<file>/<module>/)
        rel = os.path.join(hdst, base)
        line = '#[cfg(kani)] #[path = "%s"] mod %s;' % (rel, modname)
        p = os.path.join(sc.src, ins.src_rel)
        with open(p) as fh:
            L = fh.read().split("\n")
        if ins.module is None:
            L.append(line)
        else:
            starts = [i for i, l in enumerate(L) if re.match(r"\s*pub mod %s\s*\{" % re.escape(ins.module), l)]
            if not starts:
                raise RuntimeError("module %s not found in %s" % (ins.module, ins.src_rel))
            i = starts[0]
            indent = len(L[i]) - len(L[i].lstrip())
            closes = [j for j in range(i + 1, len(L)) if L[j].rstrip() == " " * indent + "}"]
            if not closes:
                raise RuntimeError("closing brace of module %s not found" % ins.module)
            L.insert(closes[0], line)
        with open(p, "w") as fh:
            fh.write("\n".join(L))
    return sc


def _limits(mem_gb):
    def f():
        b = int(mem_gb * (1 << 30))
        resource.setrlimit(resource.RLIMIT_AS, (b, b))
        os.setsid()
    return f


def _run_one(sc, harness, timeout, mem_gb, features, extra_args, idx):
    r = KResult(harness)
    tdir = os.path.join(sc.root, "kt_%d" % idx)
    cmd = ["cargo", "kani", "--harness", harness, "-Z", "stubbing", "-Z", "concrete-playback",
           "--concrete-playback=print", "--target-dir", tdir] + list(extra_args)
    if features is not None:
        cmd += ["--no-default-features", "--features", ",".join(features)]
    env = dict(os.environ)
    env["CARGO_NET_OFFLINE"] = "true"
    t0 = time.time()
    try:
        p = subprocess.Popen(cmd, cwd=sc.src, env=env, stdout=subprocess.PIPE, stderr=subprocess.STDOUT,
                             text=True, preexec_fn=_limits(mem_gb))
        try:
            out, _ = p.communicate(timeout=timeout)
        except subprocess.TimeoutExpired:
            try:
                os.killpg(p.pid, 9)
            except OSError:
                pass
            out = ""
            try:
                out, _ = p.communicate(timeout=10)
            except Exception:
                pass
            r.status = "timeout"
            r.seconds = time.time() - t0
            r.log_tail = (out or "")[-1500:]
            shutil.rmtree(tdir, ignore_errors=True)
            return r
    except Exception as e:
        r.log_tail = str(e)
        return r
    r.seconds = time.time() - t0
    shutil.rmtree(tdir, ignore_errors=True)
    r.log_tail = out[-3000:]
    parse_output(r, out)
    return r


def parse_output(r, out):
    if "VERIFICATION:- SUCCESSFUL" in out:
        r.status = "success"
    elif "VERIFICATION:- FAILED" in out:
        r.status = "failure"
    elif "out of memory" in out.lower() or "std::bad_alloc" in out or "Status: ERROR" in out:
        r.status = "oom"
    else:
        r.status = "error"
    # failed checks (regular output format)
    for m in re.finditer(r"Check \d+: (\S+)\n\s+- Status: FAILURE\n\s+- Description: \"(.*?)\"\n\s+- Location: (.*)", out):
        r.failed.append("%s | %s | %s" % (m.group(2), m.group(3).strip(), m.group(1)))
    for m in re.finditer(r"Failed Checks: (.*)\n\s*File: (.*)", out):
        s = "%s | %s" % (m.group(1).strip(), m.group(2).strip())
        if not any(m.group(1).strip() in f for f in r.failed):
            r.failed.append(s)
    m = re.search(r"\*\* (\d+) of (\d+) cover properties satisfied", out)
    if m:
        r.covers = (int(m.group(1)), int(m.group(2)))
    for m in re.finditer(r"Check \d+: (\S+)\n\s+- Status: (UNSATISFIABLE|UNREACHABLE)\n\s+- Description: \"cover condition: (.*?)\"", out):
        r.unsat_covers.append(m.group(3))
    if r.status == "failure" and r.failed and all("unwinding assertion" in f for f in r.failed):
        r.status = "unwind"
    m = re.search(r"Concrete playback unit test for `[^`]*`:\s*```\s*(.*?)```", out, re.S)
    if m:
        r.playback = m.group(1)


def run_harnesses(sc, harnesses, timeout=600, mem_gb=12, jobs=8, features=None, extra_args=()):
    """harnesses: list of names (or (name, timeout) tuples).  Returns dict name -> KResult"""
    items = []
    for i, h in enumerate(harnesses):
        if isinstance(h, tuple):
            items.append((h[0], h[1], i))
        else:
            items.append((h, timeout, i))

    def work(it):
        return _run_one(sc, it[0], it[1], mem_gb, features, extra_args, it[2])
    res = pmap(work, items, nproc=jobs, timeout=max(t for _, t, _ in items) + 120)
    out = {}
    for it, (st, val) in zip(items, res):
        if st == "ok":
            out[it[0]] = val
        else:
            r = KResult(it[0])
            r.status = "error" if st == "err" else "timeout"
            r.log_tail = str(val)[-1500:]
            out[it[0]] = r
    return out


def replay(sc, res, harness_basename, timeout=600, release=False):
    """Append the concrete-playback test to the (scratch copy of the) harness
    file and run it natively.  Sets res.replayed."""
    if not res.playback:
        return None
    hfile = os.path.join(sc.src, "src", "verif_h", harness_basename)
    m = re.search(r"fn (kani_concrete_playback_\w+)", res.playback)
    if not m:
        return None
    tname = m.group(1)
    pb = res.playback.replace("Vec<Vec<u8>>", "std::vec::Vec<std::vec::Vec<u8>>").replace("vec![", "std::vec![")
    with open(hfile, "a") as fh:
        fh.write("\n" + pb + "\n")
    tdir = os.path.join(sc.root, "kt_replay")
    cmd = ["cargo", "kani", "playback", "-Z", "concrete-playback", "--", tname]
    env = dict(os.environ)
    env["CARGO_NET_OFFLINE"] = "true"
    env["CARGO_TARGET_DIR"] = tdir
    try:
        p = subprocess.run(cmd, cwd=sc.src, env=env, stdout=subprocess.PIPE, stderr=subprocess.STDOUT,
                           text=True, timeout=timeout)
        out = p.stdout
    except subprocess.TimeoutExpired:
        shutil.rmtree(tdir, ignore_errors=True)
        return None
    shutil.rmtree(tdir, ignore_errors=True)
    locs = re.findall(r"panicked at ([^\n]*)", out)
    real = [l for l in locs if "concrete_playback" not in l]
    if locs and not real:
        # only Kani's own "concrete values left over" panic: values drawn by stubs were not consumed
        # by the native run -- a stub-level counterexample, not a reproduction
        res.replayed = None
        res.log_tail += "\n[playback] only concrete_playback.rs panics (stub-level counterexample)"
    elif real or re.search(r"test result: FAILED", out):
        res.replayed = True
    elif re.search(r"test result: ok\. 1 passed", out):
        res.replayed = False
    else:
        res.replayed = None
        res.log_tail += "\n[playback] " + out[-800:]
    return res.replayed
