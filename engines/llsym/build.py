"""Build /repo's current working tree (scratch copy) with verification drivers
appended, emit optimized LLVM IR + a cdylib for native replay."""
import ctypes, glob, os, re, sys, time
sys.path.insert(0, os.path.dirname(os.path.dirname(os.path.dirname(os.path.abspath(__file__)))))
from vlib.common import Scratch, GUARD, log
from .llparse import Module


class BuildError(Exception):
    pass


class Driver:
    """descriptor of an extern "C" driver: params = list of
    (name, kind, elem_bytes, count) with kind in {'in','out','val'}"""

    def __init__(self, name, params, body, host="src/lib.rs"):
        self.name, self.params, self.body, self.host = name, params, body, host

    def rust(self):
        ps = []
        for n, kind, eb, cnt in self.params:
            ty = {1: "u8", 2: "u16", 4: "u32", 8: "u64", 16: "u128"}[eb]
            if kind == "in":
                ps.append("%s: &[%s; %d]" % (n, ty, cnt))
            elif kind == "out":
                ps.append("%s: &mut [%s; %d]" % (n, ty, cnt))
            else:
                ps.append("%s: %s" % (n, ty))
        return ("    #[no_mangle]\n    pub extern \"C\" fn %s(%s) {\n%s\n    }\n"
                % (self.name, ", ".join(ps), self.body))


class Built:
    def __init__(self, scratch, module, lib, drivers, secs, ll_path, features):
        self.scratch, self.module, self.lib = scratch, module, lib
        self.drivers = {d.name: d for d in drivers}
        self.secs, self.ll_path, self.features = secs, ll_path, features

    def native(self, name, inputs):
        """call the natively compiled driver. inputs: dict param->list of ints
        (or int for 'val'); returns dict out-param -> list of ints"""
        d = self.drivers[name]
        f = getattr(self.lib, name)
        args = []
        outs = {}
        for n, kind, eb, cnt in d.params:
            cty = {1: ctypes.c_uint8, 2: ctypes.c_uint16, 4: ctypes.c_uint32, 8: ctypes.c_uint64}[eb]
            if kind == "in":
                arr = (cty * cnt)(*[int(v) for v in inputs[n]])
                args.append(arr)
            elif kind == "out":
                arr = (cty * cnt)()
                outs[n] = arr
                args.append(arr)
            else:
                args.append(cty(int(inputs[n])))
        f.restype = None
        f(*args)
        return {n: list(a) for n, a in outs.items()}

    def close(self):
        self.scratch.remove()


def build(drivers, prelude="", features=None, no_default=False, rustflags="", tag="default",
          timeout=900, cut=False):
    """drivers: list of Driver.  Returns Built."""
    t0 = time.time()
    sc = Scratch()
    hosts = {}
    for d in drivers:
        hosts.setdefault(d.host, []).append(d)
    for k, (host, ds) in enumerate(sorted(hosts.items())):
        src = ["#[cfg(%s)]" % GUARD,
               "#[allow(unused_imports, dead_code, non_snake_case, unused_variables, unused_mut)]",
               "pub mod verif_drv_%d {" % k, "    use core::mem::transmute;"]
        if host != "src/lib.rs":
            src.append("    use super::*;")
        src.append(prelude)
        for d in ds:
            src.append(d.rust())
        src.append("}")
        sc.append(host, "\n".join(src))
    cmd = ["cargo", "rustc", "--offline", "--release", "--lib", "--crate-type", "cdylib",
           "--target-dir", sc.target]
    if no_default:
        cmd.append("--no-default-features")
    if features:
        cmd += ["--features", ",".join(features)]
    cmd += ["--", "--emit=llvm-ir,link", "-C", "codegen-units=1"]
    env = {"RUSTFLAGS": ("--cfg %s -Awarnings " % GUARD) + ("--cfg %s_cut " % GUARD if cut else "") + rustflags}
    rc, out, dt = sc.run(cmd, env=env, timeout=timeout)
    if rc != 0:
        sc.remove()
        raise BuildError("cargo rustc failed (%s):\n%s" % (tag, out[-4000:]))
    lls = glob.glob(os.path.join(sc.target, "release", "deps", "crrl*.ll"))
    sos = glob.glob(os.path.join(sc.target, "release", "deps", "libcrrl*.so"))
    if not lls or not sos:
        sc.remove()
        raise BuildError("no .ll/.so produced")
    mod = Module(lls[0])
    lib = ctypes.CDLL(sos[0])
    log("[build %s] %.1fs, %d functions, IR %d KB" % (tag, time.time() - t0, len(mod.fpos),
                                                        os.path.getsize(lls[0]) // 1024))
    return Built(sc, mod, lib, drivers, time.time() - t0, lls[0], features)
