"""Integer (LIA) encoding of a bit-vector term DAG.

Every term is given the *integer value* of its unsigned bit-vector value as a
linear form over atoms (input words, quotient/carry variables, Booleans,
abstract partial products, opaque words).  mod-2^k semantics are kept with
explicit quotient atoms and range constraints (s = x + y - 2^64 c, 0<=s<2^64).
All truncations / shifts of the same value share one memoised Euclidean split.
Symbolic x symbolic products are expanded bilinearly over atoms into abstract
product atoms P(x,y) (uninterpreted, with range and Boolean-operand axioms).

The encoder is a sound over-approximation: every real execution is a model of
the emitted constraints."""
from fractions import Fraction
from . import terms as T
from .terms import Term


class Lin:
    """c + sum coef[a]*a ; immutable-ish"""
    __slots__ = ("c", "m", "_k")

    def __init__(self, c=0, m=None):
        self.c = c
        self.m = m or {}
        self._k = None

    def key(self):
        if self._k is None:
            self._k = (self.c, tuple(sorted(self.m.items())))
        return self._k

    def is_const(self):
        return not self.m

    def __add__(self, o):
        if isinstance(o, int):
            return Lin(self.c + o, dict(self.m))
        m = dict(self.m)
        for a, k in o.m.items():
            v = m.get(a, 0) + k
            if v:
                m[a] = v
            else:
                m.pop(a, None)
        return Lin(self.c + o.c, m)

    __radd__ = __add__

    def scale(self, k):
        if k == 0:
            return Lin(0)
        return Lin(self.c * k, {a: v * k for a, v in self.m.items()})

    def __neg__(self):
        return self.scale(-1)

    def __sub__(self, o):
        if isinstance(o, int):
            return Lin(self.c - o, dict(self.m))
        return self + o.scale(-1)

    def __rsub__(self, o):
        return self.scale(-1) + o

    def divisible(self, k):
        return self.c % k == 0 and all(v % k == 0 for v in self.m.values())

    def div(self, k):
        return Lin(self.c // k, {a: v // k for a, v in self.m.items()})

    def smt(self):
        parts = []
        if self.c or not self.m:
            parts.append(_n(self.c))
        for a, k in sorted(self.m.items()):
            if k == 1:
                parts.append(a)
            else:
                parts.append("(* %s %s)" % (_n(k), a))
        if len(parts) == 1:
            return parts[0]
        return "(+ %s)" % " ".join(parts)

    def eval(self, env):
        return self.c + sum(k * env[a] for a, k in self.m.items())

    def __repr__(self):
        return "Lin(%s)" % self.smt()


def _n(v):
    return str(v) if v >= 0 else "(- %d)" % (-v)


class ConsList(list):
    """list of SMT strings; remembers how many atoms existed when each was added"""

    def __init__(self, enc):
        list.__init__(self)
        self.enc = enc
        self.stamp = []

    def append(self, x):
        list.append(self, x)
        self.stamp.append(len(self.enc.order))


class IntEnc:
    def __init__(self):
        self.atoms = {}       # name -> (lo, hi)
        self.order = []
        self.cons = ConsList(self)        # SMT boolean strings (+ atom-count stamp)
        self.memo = {}        # term id -> (Lin, lo, hi)
        self.splits = {}      # (form key, k) -> (lo Lin, hi Lin, hi_lo, hi_hi)
        self.prods = {}       # (atom, atom) -> atom
        self.prod_ops = {}    # P atom -> (x, y)
        self.opaque = []      # atoms standing for uninterpreted words
        self.varatom = {}     # var name -> atom
        self.defs = {}        # atom -> ("split"|"wrap"|..., data) for concrete evaluation
        self.zero_forms = []  # forms proven/known to be zero (Lin)
        self.fb = {}          # form key -> (lo, hi) bounds implied by emitted constraints
        self.eqs = []         # defining equations: (Lin zero-form, atom-count stamp)
        self._n = 0

    # -------------------------------------------------------- atoms
    def new_atom(self, prefix, lo, hi, d=None):
        self._n += 1
        name = "%s%d" % (prefix, self._n)
        self.atoms[name] = (lo, hi)
        self.order.append(name)
        if d is not None:
            self.defs[name] = d
        return name

    def var_atom(self, name, lo, hi):
        a = self.varatom.get(name)
        if a is None:
            a = "x_" + name
            self.atoms[a] = (lo, hi)
            self.order.append(a)
            self.varatom[name] = a
        return a

    def interval(self, f):
        b = self.fb.get(f.key())
        lo, hi = self._interval(f)
        if b is not None:
            lo, hi = max(lo, b[0]), min(hi, b[1])
        return lo, hi

    def _interval(self, f):
        lo = hi = f.c
        for a, k in f.m.items():
            al, ah = self.atoms[a]
            if k > 0:
                lo += k * al
                hi += k * ah
            else:
                lo += k * ah
                hi += k * al
        return lo, hi

    def is_bool(self, f):
        lo, hi = self.interval(f)
        return lo >= 0 and hi <= 1

    # -------------------------------------------------------- arithmetic helpers
    def _add_eq(self, form):
        self.eqs.append((form, len(self.order)))

    def wrap(self, f, lo, hi, w, tag="q"):
        """value of f modulo 2^w given f in [lo,hi]"""
        M = 1 << w
        il, ih = self.interval(f)
        lo, hi = max(lo, il), min(hi, ih)
        if lo >= 0 and hi < M:
            return f, lo, hi
        kb = self._const_times_bool(f)
        if kb is not None:
            K, B = kb
            return B.scale(K % M), 0, (K % M)
        key = (f.key(), w)
        s = self.splits.get(key)
        if s is not None:
            return s[0], s[4], s[5]
        ql, qh = lo >> w, hi >> w      # floor division, fine for negatives
        q = self.new_atom(tag, 0, qh - ql, ("quot", f, w, ql))
        rl, rh = (0, M - 1) if qh > ql else (lo - ql * M, hi - ql * M)
        rl, rh = max(rl, 0), min(rh, M - 1)
        r = self.new_atom("r", rl, rh, ("rem", f, w, q, ql))
        # r = f - 2^w (q + ql)
        self._add_eq(Lin(ql * M, {r: 1, q: M}) - f)
        R = Lin(0, {r: 1})
        self.splits[key] = (R, Lin(ql, {q: 1}), ql, qh, rl, rh)
        return R, rl, rh

    def split(self, f, lo, hi, k):
        """f = low + 2^k * high, 0 <= low < 2^k.  f must be >= 0.
        returns (low, lowlo, lowhi, high, highlo, highhi)"""
        il, ih = self.interval(f)
        lo, hi = max(lo, il), min(hi, ih)
        assert lo >= 0, "split of possibly negative form"
        K = 1 << k
        if hi < K:
            return f, lo, hi, Lin(0), 0, 0
        kb = self._const_times_bool(f)
        if kb is not None:
            C, B = kb
            return B.scale(C % K), 0, C % K, B.scale(C >> k), 0, C >> k
        key = (f.key(), k)
        s = self.splits.get(key)
        if s is None:
            hl, hh = lo >> k, hi >> k
            q = self.new_atom("h", 0, hh - hl, ("quot", f, k, hl))
            rh_ = K - 1 if hh > hl else hi - hl * K
            r = self.new_atom("r", 0, rh_, ("rem", f, k, q, hl))
            self._add_eq(Lin(hl * K, {r: 1, q: K}) - f)
            s = (Lin(0, {r: 1}), Lin(hl, {q: 1}), hl, hh, 0, rh_)
            self.splits[key] = s
        return s[0], s[4], s[5], s[1], s[2], s[3]

    def _const_times_bool(self, f):
        """f == K*B with B a 0/1-valued form (K>1)"""
        if f.c != 0 or not f.m:
            return None
        if len(f.m) == 1:
            (a, k), = f.m.items()
            if k > 1 and self.atoms[a] == (0, 1):
                return k, Lin(0, {a: 1})
            return None
        import math
        g = 0
        for v in f.m.values():
            g = math.gcd(g, abs(v))
        if g <= 1:
            return None
        B = f.div(g)
        if self.is_bool(B):
            return g, B
        return None

    def as_mask(self, f, w):
        """f == (2^w-1)*B, B Boolean form -> B"""
        M = (1 << w) - 1
        if f.is_const():
            if f.c == 0:
                return Lin(0)
            if f.c == M:
                return Lin(1)
            return None
        if f.divisible(M):
            B = f.div(M)
            if self.is_bool(B):
                return B
        return None

    def expand(self, f):
        """substitute remainder atoms by their defining forms (recursively), so that
        products are taken over base atoms (inputs, quotients, Booleans)"""
        if not hasattr(self, "_xmemo"):
            self._xmemo = {}
        out = Lin(f.c)
        rest = {}
        for a, k in f.m.items():
            d = self.defs.get(a)
            if d is not None and d[0] in ("rem", "sbbrem"):
                e = self._xmemo.get(a)
                if e is None:
                    if d[0] == "rem":
                        _, g, w, qa, ql = d
                        e = self.expand(g - Lin(ql << w, {qa: 1 << w}))
                    else:
                        e = self.expand(d[1] + Lin(0, {d[3]: d[2]}))
                    self._xmemo[a] = e
                out = out + e.scale(k)
            else:
                rest[a] = rest.get(a, 0) + k
        return out + Lin(0, {a: k for a, k in rest.items() if k})

    def product(self, fa, fb):
        """exact integer product of two forms, bilinear over atoms"""
        fa, fb = self.expand(fa), self.expand(fb)
        r = Lin(fa.c * fb.c)
        if fa.c:
            r = r + Lin(0, dict(fb.m)).scale(fa.c)
        if fb.c:
            r = r + Lin(0, dict(fa.m)).scale(fb.c)
        acc = {}
        for x, kx in fa.m.items():
            for y, ky in fb.m.items():
                p = self.prod_atom(x, y)
                acc[p] = acc.get(p, 0) + kx * ky
        return r + Lin(0, {p: k for p, k in acc.items() if k})

    def prod_atom(self, x, y):
        if x > y:
            x, y = y, x
        p = self.prods.get((x, y))
        if p is None:
            xl, xh = self.atoms[x]
            yl, yh = self.atoms[y]
            p = self.new_atom("P", xl * yl, xh * yh, ("prod", x, y))
            self.prods[(x, y)] = p
            self.prod_ops[p] = (x, y)
            # exact when an operand is Boolean
            for u, v in ((x, y), (y, x)):
                if self.atoms[u] == (0, 1):
                    self.cons.append("(=> (= %s 0) (= %s 0))" % (u, p))
                    self.cons.append("(=> (= %s 1) (= %s %s))" % (u, p, v))
                    break
            if x == y:
                pass
        return p

    def bool_times(self, B, f, lo, hi):
        """B*f for Boolean form B (ite(B, f, 0))"""
        if B.is_const():
            return (f, lo, hi) if B.c else (Lin(0), 0, 0)
        if f.is_const():
            return B.scale(f.c), min(0, f.c), max(0, f.c)
        z = self.new_atom("z", min(lo, 0), max(hi, 0), ("ite", B, f, Lin(0)))
        self.cons.append("(=> (= %s 0) (= %s 0))" % (B.smt(), z))
        self.cons.append("(=> (= %s 1) (= %s %s))" % (B.smt(), z, f.smt()))
        return Lin(0, {z: 1}), min(lo, 0), max(hi, 0)

    def ite(self, B, fa, la, ha, fb, lb, hb):
        if B.is_const():
            return (fa, la, ha) if B.c else (fb, lb, hb)
        if fa.key() == fb.key():
            return fa, la, ha
        if fa.is_const() and fb.is_const():
            return fb + B.scale(fa.c - fb.c), min(fa.c, fb.c), max(fa.c, fb.c)
        z = self.new_atom("z", min(la, lb), max(ha, hb), ("ite", B, fa, fb))
        self.cons.append("(=> (= %s 1) (= %s %s))" % (B.smt(), z, fa.smt()))
        self.cons.append("(=> (= %s 0) (= %s %s))" % (B.smt(), z, fb.smt()))
        return Lin(0, {z: 1}), min(la, lb), max(ha, hb)

    def opaque_atom(self, t):
        a = self.new_atom("u", t.lo, t.hi, ("opaque", t))
        self.opaque.append((a, t))
        # mask-case axioms (valid for all operand values): behaviour of the
        # bitwise operation when an operand is 0 or all-ones
        if t.op in ("and", "or", "xor") and t.w > 1:
            M = (1 << t.w) - 1
            fx, _, _ = self.F(t.args[0])
            fy, _, _ = self.F(t.args[1])
            for (p, o) in ((fx, fy), (fy, fx)):
                if p.is_const():
                    continue
                ps, os_ = p.smt(), o.smt()
                if t.op == "and":
                    self.cons.append("(=> (= %s 0) (= %s 0))" % (ps, a))
                    self.cons.append("(=> (= %s %d) (= %s %s))" % (ps, M, a, os_))
                elif t.op == "or":
                    self.cons.append("(=> (= %s 0) (= %s %s))" % (ps, a, os_))
                    self.cons.append("(=> (= %s %d) (= %s %d))" % (ps, M, a, M))
                else:
                    self.cons.append("(=> (= %s 0) (= %s %s))" % (ps, a, os_))
                    self.cons.append("(=> (= %s %d) (= %s (- %d %s)))" % (ps, M, a, M, os_))
        return Lin(0, {a: 1}), t.lo, t.hi

    # -------------------------------------------------------- term -> form
    def form(self, x, w=None):
        if not isinstance(x, Term):
            return Lin(x), x, x
        r = self.memo.get(x.id)
        if r is not None:
            return r
        for t in T.topo([x]):
            if t.id not in self.memo:
                f, lo, hi = self._form1(t)
                lo, hi = max(lo, t.lo), min(hi, t.hi)
                self.memo[t.id] = (f, lo, hi)
        return self.memo[x.id]

    def F(self, x):
        if isinstance(x, Term):
            return self.memo[x.id]
        return Lin(x), x, x

    def _form1(self, t):
        op, w, a = t.op, t.w, t.args
        M = 1 << w
        if op == "var":
            lo, hi = (t.aux[1], t.aux[2]) if len(t.aux) == 3 else (0, M - 1)
            return Lin(0, {self.var_atom(t.aux[0], lo, hi): 1}), lo, hi
        if op == "zext":
            return self.F(a[0])
        if op == "add":
            f, lo, hi = Lin(0), 0, 0
            for x in a:
                g, gl, gh = self.F(x)
                f, lo, hi = f + g, lo + gl, hi + gh
            # bool - 1  (mod 2^w)  ==  all-ones * (1 - bool)
            if f.c == M - 1:
                Bf = f - (M - 1)
                if Bf.m and self.is_bool(Bf):
                    return (Lin(1) - Bf).scale(M - 1), 0, M - 1
            return self.wrap(f, lo, hi, w, "c")
        if op == "sub":
            f0, l0, h0 = self.F(a[0])
            f1, l1, h1 = self.F(a[1])
            # 0 - bool  ->  mask
            if f0.is_const() and f0.c == 0 and l1 >= 0 and h1 <= 1:
                return f1.scale(M - 1), 0, M - 1
            return self.wrap(f0 - f1, l0 - h1, h0 - l1, w, "b")
        if op == "sbbw":
            iw = t.aux
            f0, l0, h0 = self.F(a[0])
            f1, l1, h1 = self.F(a[1])
            f2, l2, h2 = self.F(a[2])
            d = f0 - f1 - f2
            dl, dh = l0 - h1 - h2, h0 - l1 - l2
            il, ih = self.interval(d)
            dl, dh = max(dl, il), min(dh, ih)
            if dl >= 0:
                return d, dl, dh
            K = 1 << iw
            if dh < 0:
                # always borrows
                v = d + 2 * K
                self.splits[(v.key(), iw)] = (d + K, Lin(1), 1, 1, 0, K - 1)
                return v, dl + 2 * K, dh + 2 * K
            q = self.new_atom("b", 0, 1, ("borrow", d))
            r = self.new_atom("r", 0, K - 1, ("sbbrem", d, K, q))
            # r = d + 2^w * borrow ; value = r + 2^w * borrow
            self._add_eq(Lin(0, {r: 1, q: -K}) - d)
            v = Lin(0, {r: 1, q: K})
            self.splits[(v.key(), iw)] = (Lin(0, {r: 1}), Lin(0, {q: 1}), 0, 1, 0, K - 1)
            return v, 0, 2 * K - 1
        if op == "mul":
            f0, l0, h0 = self.F(a[0])
            f1, l1, h1 = self.F(a[1])
            if f1.is_const():
                p = f0.scale(f1.c)
            elif f0.is_const():
                p = f1.scale(f0.c)
            else:
                p = self.product(f0, f1)
            return self.wrap(p, l0 * l1, h0 * h1, w, "m")
        if op in ("extract", "trunc"):
            x, k = (a[0], a[1]) if op == "extract" else (a[0], 0)
            f, lo, hi = self.F(x)
            if k:
                _, _, _, f, lo, hi = self.split(f, lo, hi, k)
            low, ll, lh, _, _, _ = self.split(f, lo, hi, w)
            return low, ll, lh
        if op == "lshr" and not isinstance(a[1], Term):
            f, lo, hi = self.F(a[0])
            _, _, _, h, hl, hh = self.split(f, lo, hi, a[1])
            return h, hl, hh
        if op == "shl" and not isinstance(a[1], Term):
            f, lo, hi = self.F(a[0])
            k = a[1]
            # drop the bits shifted out first: keeps quotients small
            low, ll, lh, _, _, _ = self.split(f, lo, hi, w - k)
            return low.scale(1 << k), ll << k, lh << k
        if op == "ashr" and not isinstance(a[1], Term):
            f, lo, hi = self.F(a[0])
            k = a[1]
            _, _, _, top, tl, th = self.split(f, lo, hi, w - 1)
            _, _, _, h, hl, hh = self.split(f, lo, hi, k)
            ext = (M - (1 << (w - k)))
            return h + top.scale(ext), 0, M - 1
        if op == "sext":
            x = a[0]
            f, lo, hi = self.F(x)
            _, _, _, top, tl, th = self.split(f, lo, hi, x.w - 1)
            return f + top.scale(M - (1 << x.w)), 0, M - 1
        if op == "concat":
            wl = a[1].w if isinstance(a[1], Term) else t.aux
            fh, lh_, hh = self.F(a[0])
            fl, ll, hl = self.F(a[1])
            return fh.scale(1 << wl) + fl, (lh_ << wl) + ll, (hh << wl) + hl
        if op == "and":
            return self._and(t)
        if op == "or":
            x, y = a
            zx = x.zmask if isinstance(x, Term) else (~x) & (M - 1)
            zy = y.zmask if isinstance(y, Term) else (~y) & (M - 1)
            if (~zx & ~zy) & (M - 1) == 0:
                f0, l0, h0 = self.F(x)
                f1, l1, h1 = self.F(y)
                return f0 + f1, l0 + l1, h0 + h1
            # range-based disjointness: a constant whose lowest set bit lies above the other operand's range
            for u, v in ((x, y), (y, x)):
                if not isinstance(v, Term) and isinstance(u, Term) and v:
                    fu, lu, hu = self.F(u)
                    if lu >= 0 and hu < (v & -v):
                        return fu + Lin(v), lu + v, hu + v
            if w == 1:
                f0, _, _ = self.F(x)
                f1, _, _ = self.F(y)
                z = self.new_atom("o", 0, 1, ("or1", f0, f1))
                self.cons.append("(= (= %s 0) (and (= %s 0) (= %s 0)))" % (z, f0.smt(), f1.smt()))
                return Lin(0, {z: 1}), 0, 1
            return self.opaque_atom(t)
        if op == "xor":
            return self._xor(t)
        if op == "ite":
            B, _, _ = self.F(a[0])
            fa, la, ha = self.F(a[1])
            fb, lb, hb = self.F(a[2])
            return self.ite(B, fa, la, ha, fb, lb, hb)
        if op in T._NEG:
            return self._icmp(t)
        return self.opaque_atom(t)

    def _and(self, t):
        w = t.w
        M = 1 << w
        x, y = t.args
        fx, lx, hx = self.F(x)
        fy, ly, hy = self.F(y)
        if fy.is_const() or fx.is_const():
            if fx.is_const():
                fx, lx, hx, fy, ly, hy = fy, ly, hy, fx, lx, hx
            K = fy.c
            if K == 0:
                return Lin(0), 0, 0
            B = self.as_mask(fx, w)
            if B is not None:
                return B.scale(K), 0, K
            # contiguous run of ones 2^j - 2^i
            i = (K & -K).bit_length() - 1
            run = K >> i
            if run & (run + 1) == 0:
                j = i + run.bit_length()
                f, lo, hi = fx, lx, hx
                if i:
                    _, _, _, f, lo, hi = self.split(f, lo, hi, i)
                low, ll, lh, _, _, _ = self.split(f, lo, hi, j - i)
                return low.scale(1 << i), ll << i, lh << i
            return self.opaque_atom(t)
        Bx = self.as_mask(fx, w)
        if Bx is not None:
            return self.bool_times(Bx, fy, ly, hy)
        By = self.as_mask(fy, w)
        if By is not None:
            return self.bool_times(By, fx, lx, hx)
        if w == 1:
            z = self.new_atom("n", 0, 1, ("and1", fx, fy))
            self.cons.append("(= (= %s 1) (and (= %s 1) (= %s 1)))" % (z, fx.smt(), fy.smt()))
            return Lin(0, {z: 1}), 0, 1
        return self.opaque_atom(t)

    def _xor(self, t):
        w = t.w
        M = 1 << w
        x, y = t.args
        # constant-time select idiom  a ^ (m & (a ^ b))  with m a 0/all-ones mask
        for p_, o_ in ((x, y), (y, x)):
            if isinstance(o_, Term) and o_.op == "and" and isinstance(p_, Term):
                for mk, inner in ((o_.args[0], o_.args[1]), (o_.args[1], o_.args[0])):
                    if isinstance(inner, Term) and inner.op == "xor" and isinstance(mk, Term) \
                            and any(z is p_ for z in inner.args):
                        other = inner.args[1] if inner.args[0] is p_ else inner.args[0]
                        Bm = self.as_mask(self.F(mk)[0], w)
                        if Bm is not None:
                            fa, la, ha = self.F(other)
                            fb, lb, hb = self.F(p_)
                            return self.ite(Bm, fa, la, ha, fb, lb, hb)
        fx, lx, hx = self.F(x)
        fy, ly, hy = self.F(y)
        if fx.is_const():
            fx, lx, hx, fy, ly, hy = fy, ly, hy, fx, lx, hx
            x, y = y, x
        if fy.is_const():
            K = fy.c
            if K == M - 1:
                return Lin(M - 1) - fx, M - 1 - hx, M - 1 - lx
            if hx <= 1 and K == 1:
                return Lin(1) - fx, 0, 1
            zx = x.zmask
            if K & ~zx & (M - 1) == 0:
                return fx + K, lx + K, hx + K
            return self.opaque_atom(t)
        if w == 1:
            z = self.new_atom("e", 0, 1, ("xor1", fx, fy))
            u = self.new_atom("n", 0, 1, ("and1", fx, fy))
            self.cons.append("(= %s (- (+ %s %s) (* 2 %s)))" % (z, fx.smt(), fy.smt(), u))
            return Lin(0, {z: 1}), 0, 1
        zx, zy = x.zmask, y.zmask
        if (~zx & ~zy) & (M - 1) == 0:
            return fx + fy, lx + ly, hx + hy
        for (fm, fo, lo_, ho_) in ((fx, fy, ly, hy), (fy, fx, lx, hx)):
            B = self.as_mask(fm, w)
            if B is not None:
                return self.ite(B, Lin(M - 1) - fo, M - 1 - ho_, M - 1 - lo_, fo, lo_, ho_)
        return self.opaque_atom(t)

    def _icmp(self, t):
        op = t.op
        ww = t.aux
        x, y = t.args
        fx, lx, hx = self.F(x)
        fy, ly, hy = self.F(y)
        if op in ("slt", "sge", "sgt", "sle"):
            if fy.is_const() and fy.c == 0 and op in ("slt", "sge"):
                _, _, _, top, _, _ = self.split(fx, lx, hx, ww - 1)
                return (top, 0, 1) if op == "slt" else (Lin(1) - top, 0, 1)
            # signed values
            _, _, _, tx, _, _ = self.split(fx, lx, hx, ww - 1)
            _, _, _, ty, _, _ = self.split(fy, ly, hy, ww - 1)
            sx = fx - tx.scale(1 << ww)
            sy = fy - ty.scale(1 << ww)
            rel = {"slt": "<", "sle": "<=", "sgt": ">", "sge": ">="}[op]
            z = self.new_atom("s", 0, 1, ("cmp", op, sx, sy))
            self.cons.append("(= (= %s 1) (%s %s %s))" % (z, rel, sx.smt(), sy.smt()))
            return Lin(0, {z: 1}), 0, 1
        rel = {"eq": "=", "ne": "distinct", "ult": "<", "ule": "<=", "ugt": ">", "uge": ">="}[op]
        z = self.new_atom("k", 0, 1, ("cmp", op, fx, fy))
        self.cons.append("(= (= %s 1) (%s %s %s))" % (z, rel, fx.smt(), fy.smt()))
        return Lin(0, {z: 1}), 0, 1

    # -------------------------------------------------------- emission
    ATOM_RE = None

    def atoms_in(self, text):
        import re
        if IntEnc.ATOM_RE is None:
            IntEnc.ATOM_RE = re.compile(r"(?<![\w|])([A-Za-z]_?[A-Za-z0-9_]*[0-9])(?![\w|])")
        return [a for a in IntEnc.ATOM_RE.findall(text) if a in self.atoms]

    def prefix_for(self, texts):
        """smallest program-order prefix (number of atoms) containing all atoms
        mentioned in the given SMT strings"""
        idx = {a: i for i, a in enumerate(self.order)}
        mx = 0
        for t in texts:
            for a in self.atoms_in(t):
                mx = max(mx, idx[a] + 1)
        # a quotient atom is immediately followed by its remainder atom and
        # their defining equation: keep them together
        while mx < len(self.order):
            d = self.defs.get(self.order[mx])
            if d is not None and d[0] in ("rem", "sbbrem"):
                mx += 1
            else:
                break
        return mx

    def _sync_eqs(self):
        n = getattr(self, "_eqs_emitted", 0)
        for form, st in self.eqs[n:]:
            list.append(self.cons, "(= 0 %s)" % form.smt())
            self.cons.stamp.append(st)
        self._eqs_emitted = len(self.eqs)

    def hop_slice(self, texts, extra, hops):
        self._sync_eqs()
        """indices of constraints (and of `extra` items) within `hops` steps of
        the atoms mentioned in texts, walking the atom/constraint incidence
        graph.  Dropping the rest is a sound weakening of the assumptions."""
        if not hasattr(self, "_cons_atoms") or len(self._cons_atoms) != len(self.cons):
            self._cons_atoms = [set(self.atoms_in(c)) for c in self.cons]
            self._by_atom = {}
            for i, sa in enumerate(self._cons_atoms):
                for a in sa:
                    self._by_atom.setdefault(a, []).append(i)
        ex_atoms = [set(self.atoms_in(c)) for c in extra]
        ex_by_atom = {}
        for i, sa in enumerate(ex_atoms):
            for a in sa:
                ex_by_atom.setdefault(a, []).append(i)
        frontier = set()
        for t in texts:
            frontier.update(self.atoms_in(t))
        seen_atoms = set(frontier)
        keep, keepx = set(), set()
        for _ in range(hops):
            nxt = set()
            for a in frontier:
                for i in self._by_atom.get(a, ()):
                    if i not in keep:
                        keep.add(i)
                        nxt.update(self._cons_atoms[i] - seen_atoms)
                for i in ex_by_atom.get(a, ()):
                    if i not in keepx:
                        keepx.add(i)
                        nxt.update(ex_atoms[i] - seen_atoms)
            seen_atoms.update(nxt)
            frontier = nxt
            if not frontier:
                break
        return keep, keepx

    def script(self, goal_negated, extra=(), logic="QF_LIA", models=True, exact_products=False,
               prefix=None, hops=None):
        """prefix=N keeps only the first N atoms (program order) and the
        constraints that mention no later atom: a weaker (still sound)
        assumption set, used to prove local lemmas cheaply."""
        s = []
        if logic:
            s.append("(set-logic %s)" % logic)
        if models:
            s.append("(set-option :produce-models true)")
        order = self.order if prefix is None else self.order[:prefix]
        keep = set(order)
        for a in order:
            lo, hi = self.atoms[a]
            s.append("(declare-const %s Int)" % a)
            s.append("(assert (<= %s %s %s))" % (_n(lo), a, _n(hi)))
        if exact_products:
            for p, (x, y) in self.prod_ops.items():
                if p in keep:
                    s.append("(assert (= %s (* %s %s)))" % (p, x, y))
        # defining equations are ordinary constraints for emission purposes
        self._sync_eqs()
        kc = kx = None
        if hops is not None:
            kc, kx = self.hop_slice([goal_negated], list(extra), hops)
        for i, (c, st) in enumerate(zip(self.cons, self.cons.stamp)):
            if (prefix is None or st <= prefix) and (kc is None or i in kc):
                s.append("(assert %s)" % c)
        for i, c in enumerate(extra):
            if kx is not None and i not in kx:
                continue
            if prefix is None or all(a in keep for a in self.atoms_in(c)):
                s.append("(assert %s)" % c)
        s.append("(assert %s)" % goal_negated)
        s.append("(check-sat)")
        if models:
            names = [a for a in order if a.startswith("x_")]
            if names:
                s.append("(get-value (%s))" % " ".join(names))
        return "\n".join(s) + "\n"

    def validate_on(self, atom_env, extra=()):
        """all emitted constraints (and `extra`) hold on a real execution:
        fix every atom to its concrete value and ask the solver.  Guards
        against an inconsistent (vacuous) encoding."""
        from .smt import run_solver
        for e, st in self.eqs:
            if e.eval(atom_env) != 0:
                raise AssertionError("defining equation violated on a concrete run: %s" % e.smt()[:200])
        fix = ["(= %s %s)" % (a, _n(atom_env[a])) for a in self.order]
        script = self.script("true", extra=list(extra) + fix, logic=None, models=False)
        v, _, dt = run_solver(script, "z3", 60)
        if v != "sat":
            raise AssertionError("constraint system rejects a concrete execution (%s)" % v)
        return dt

    # -------------------------------------------------------- concrete check
    def eval_atoms(self, env_vars, term_env=None):
        """Compute the value of every atom for a concrete input (validates the
        encoder: all constraints must hold).  env_vars: var name -> int."""
        env = {}
        for name, a in self.varatom.items():
            env[a] = env_vars[name]
        for a in self.order:
            if a in env:
                continue
            d = self.defs.get(a)
            if d is None:
                raise KeyError(a)
            k = d[0]
            if k == "quot":
                _, f, w, ql = d
                env[a] = (f.eval(env) >> w) - ql
            elif k == "rem":
                _, f, w, qa, ql = d
                env[a] = f.eval(env) - ((env[qa] + ql) << w)
            elif k == "sbbrem":
                env[a] = d[1].eval(env) + d[2] * env[d[3]]
            elif k == "borrow":
                env[a] = 1 if d[1].eval(env) < 0 else 0
            elif k == "prod":
                env[a] = env[d[1]] * env[d[2]]
            elif k == "ite":
                env[a] = d[2].eval(env) if d[1].eval(env) else d[3].eval(env)
            elif k == "opaque":
                env[a] = T.evaluate([d[1]], env_vars)[0]
            elif k == "cmp":
                x, y = d[2].eval(env), d[3].eval(env)
                env[a] = int({"eq": x == y, "ne": x != y, "ult": x < y, "ule": x <= y,
                              "ugt": x > y, "uge": x >= y, "slt": x < y, "sle": x <= y,
                              "sgt": x > y, "sge": x >= y}[d[1]])
            elif k == "or1":
                env[a] = int(bool(d[1].eval(env)) or bool(d[2].eval(env)))
            elif k == "and1":
                env[a] = int(bool(d[1].eval(env)) and bool(d[2].eval(env)))
            elif k == "xor1":
                env[a] = d[1].eval(env) ^ d[2].eval(env)
            else:
                raise KeyError(k)
            lo, hi = self.atoms[a]
            if not (lo <= env[a] <= hi):
                raise AssertionError("atom %s=%d outside [%d,%d] (%r)" % (a, env[a], lo, hi, d[:1]))
        return env


def solve_mod(D, zero_forms, m):
    """Try to write D = sum lam_i*E_i + m*K over integer forms.
    Gaussian elimination modulo m on atoms.  Returns (lams, K) or None."""
    Es = [(e, i) for i, e in enumerate(zero_forms)]
    lams = [0] * len(zero_forms)
    cur = D
    # express combination: cur = D - sum lam_i E_i ; reduce mod m
    # triangularise zero forms first
    basis = []   # (pivot atom, form (normalised so pivot coef == 1 mod m), combo dict)
    for e, i in Es:
        f = e
        combo = {i: 1}
        for pa, bf, bc in basis:
            k = f.m.get(pa, 0) % m
            if k:
                f = f - bf.scale(k)
                for j, v in bc.items():
                    combo[j] = (combo.get(j, 0) - k * v) % m
        piv = None
        for a, k in f.m.items():
            k %= m
            if k and _gcd(k, m) == 1:
                piv = (a, k)
                break
        if piv is None:
            continue
        inv = pow(piv[1], -1, m)
        f = Lin((f.c * inv) % m, {a: (k * inv) % m for a, k in f.m.items() if (k * inv) % m})
        combo = {j: (v * inv) % m for j, v in combo.items()}
        basis.append((piv[0], f, combo))
    total = {}
    for pa, bf, bc in basis:
        k = cur.m.get(pa, 0) % m
        if k:
            cur = cur - bf.scale(k)
            for j, v in bc.items():
                total[j] = (total.get(j, 0) + k * v) % m
    # now check all coefficients of D - sum total_j E_j divisible by m
    rest = D
    for j, v in total.items():
        if v:
            rest = rest - zero_forms[j].scale(v)
    if rest.divisible(m):
        return total, rest.div(m)
    return None


def _gcd(a, b):
    while b:
        a, b = b, a % b
    return a
