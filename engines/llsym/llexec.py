"""Symbolic executor over optimized LLVM IR: concrete control flow and
addresses, symbolic data (terms.py).  Branches on symbolic conditions are
handed to a policy callback (fork / forbid / decide)."""
import re
from . import terms as T
from .terms import Term
from .llparse import Module


class ExecError(Exception):
    pass


class Unsupported(ExecError):
    pass


class SymbolicControl(ExecError):
    """a branch condition / address / divisor is not a constant"""

    def __init__(self, kind, term, where):
        ExecError.__init__(self, "%s depends on symbolic data at %s" % (kind, where))
        self.kind, self.term, self.where = kind, term, where


class PanicReached(ExecError):
    def __init__(self, callee, where):
        ExecError.__init__(self, "panic path reached: %s at %s" % (callee, where))
        self.callee, self.where = callee, where


class PathEnd(Exception):
    pass


class Undef:
    def __repr__(self):
        return "undef"


UNDEF = Undef()


class Ptr:
    __slots__ = ("obj", "off")

    def __init__(self, obj, off):
        self.obj, self.off = obj, off

    def __repr__(self):
        return "&%s+%s" % (self.obj, self.off)

    def __eq__(self, o):
        return isinstance(o, Ptr) and o.obj == self.obj and o.off == self.off

    def __hash__(self):
        return hash((self.obj, self.off))


NULL = Ptr(0, 0)


class SymPtr:
    """pointer whose offset is base + index*stride with a symbolic index"""
    __slots__ = ("obj", "off", "idx", "stride", "idxw")

    def __init__(self, obj, off, idx, stride, idxw):
        self.obj, self.off, self.idx, self.stride, self.idxw = obj, off, idx, stride, idxw


class MemObj:
    __slots__ = ("size", "cells", "name", "const")

    def __init__(self, size, name="", const=False):
        self.size, self.cells, self.name, self.const = size, {}, name, const

    def clone(self):
        m = MemObj(self.size, self.name, self.const)
        m.cells = dict(self.cells)
        return m


def sizeof(ty):
    return _layout(ty)[0]


def alignof(ty):
    return _layout(ty)[1]


_NAMED = {}


def register_named_types(module):
    from .llparse import P, tokenize
    for name, text in module.named_types.items():
        key = name[1:].strip('"')
        if key in _NAMED:
            continue
        try:
            _NAMED[key] = P(tokenize(text), text).type()
        except Exception:
            pass


def _layout(ty):
    k = ty[0]
    if k == "named":
        nm = ty[1][1:].strip('"')
        if nm not in _NAMED:
            raise Unsupported("unknown named type %s" % ty[1])
        return _layout(_NAMED[nm])
    if k == "int":
        n = ty[1]
        sz = (n + 7) // 8
        # round to power of two storage
        p = 1
        while p < sz:
            p *= 2
        return p, min(p, 16)
    if k == "ptr":
        return 8, 8
    if k == "fp":
        return {"float": (4, 4), "double": (8, 8), "half": (2, 2)}[ty[1]]
    if k == "array":
        s, a = _layout(ty[2])
        return s * ty[1], a
    if k == "vec":
        s, a = _layout(ty[2])
        tot = s * ty[1]
        if ty[2][0] == "int" and ty[2][1] % 8:
            tot = (ty[2][1] * ty[1] + 7) // 8
        p = 1
        while p < tot:
            p *= 2
        return p, p
    if k == "struct":
        off = 0
        al = 1
        for e in ty[1]:
            s, a = _layout(e)
            if not ty[2]:
                off = (off + a - 1) // a * a
                al = max(al, a)
            off += s
        if not ty[2]:
            off = (off + al - 1) // al * al
        return off, al
    raise Unsupported("sizeof %r" % (ty,))


def resolve_named(ty):
    while ty[0] == "named":
        ty = _NAMED[ty[1][1:].strip('"')]
    return ty


def struct_offsets(ty):
    ty = resolve_named(ty)
    offs = []
    off = 0
    for e in ty[1]:
        s, a = _layout(e)
        if not ty[2]:
            off = (off + a - 1) // a * a
        offs.append(off)
        off += s
    return offs


def width(ty):
    if ty[0] == "int":
        return ty[1]
    if ty[0] == "ptr":
        return 64
    raise Unsupported("width of %r" % (ty,))


PANIC_PAT = re.compile(
    r"panick|panic_|slice_index|slice_start_index|slice_end_index|index_len_fail|"
    r"unwrap_failed|expect_failed|capacity_overflow|handle_alloc_error|"
    r"copy_from_slice.*len_mismatch|len_mismatch_fail|panic_bounds_check|"
    r"assert_failed|handle_error|str_index_overflow_fail|begin_panic|raw_vec.*handle_error|"
    r"core..result..unwrap_failed|core..option..expect_failed|rust_begin_unwind|"
    r"precondition_check|panic_nounwind|panic_cannot_unwind|_Unwind_Resume")


class Executor:
    def __init__(self, module, max_steps=5_000_000):
        self.m = module
        register_named_types(module)
        self.max_steps = max_steps
        self.steps = 0
        self.mem = {}
        self._nobj = 1
        self.globals = {}
        self.branch_policy = None     # f(executor, cond_term, where) -> bool
        self.sym_index_policy = None  # f(executor, kind, term, where)
        self.call_hooks = {}          # name regex -> f(executor, name, args) -> value
        self._hook_list = []
        self.trace = []               # (kind, info) events: branch/addr for CT mode
        self.record_trace = False
        self.instr_count = 0
        self.fn_stack = []
        self.funcs_entered = set()

    # ------------------------------------------------------------ memory
    def new_obj(self, size, name="", const=False):
        oid = self._nobj
        self._nobj += 1
        self.mem[oid] = MemObj(size, name, const)
        return oid

    def alloc_bytes(self, data, name=""):
        """data: list of ints/Terms (8-bit each)"""
        oid = self.new_obj(len(data), name)
        cells = self.mem[oid].cells
        for i, b in enumerate(data):
            cells[i] = (1, b)
        return Ptr(oid, 0)

    def alloc_words(self, words, wbytes, name=""):
        oid = self.new_obj(len(words) * wbytes, name)
        cells = self.mem[oid].cells
        for i, v in enumerate(words):
            cells[i * wbytes] = (wbytes, v)
        return Ptr(oid, 0)

    def alloc_uninit(self, size, name=""):
        return Ptr(self.new_obj(size, name), 0)

    def _check(self, p, n, where):
        if not isinstance(p, Ptr):
            raise Unsupported("memory access through %r at %s" % (p, where))
        if p.obj == 0:
            raise ExecError("null dereference at %s" % where)
        o = self.mem[p.obj]
        if p.off < 0 or p.off + n > o.size:
            raise ExecError("out-of-bounds access obj=%s(%s) off=%d n=%d size=%d at %s"
                            % (p.obj, o.name, p.off, n, o.size, where))
        return o

    def _split_cell(self, o, off, cut):
        """split the cell starting at off so that a cell boundary falls at cut"""
        n, v = o.cells[off]
        k = cut - off
        assert 0 < k < n
        if isinstance(v, Ptr) or v is UNDEF or isinstance(v, SymPtr):
            raise Unsupported("splitting a pointer/undef cell")
        lo = T.t_extract(v, 0, 8 * k) if isinstance(v, Term) else v & T.mask(8 * k)
        hi = T.t_extract(v, 8 * k, 8 * (n - k)) if isinstance(v, Term) else v >> (8 * k)
        o.cells[off] = (k, lo)
        o.cells[cut] = (n - k, hi)

    def _cells_in(self, o, off, n):
        """make cell boundaries at off and off+n; return sorted cell offsets in range"""
        # find cells overlapping boundaries
        for b in (off, off + n):
            for back in range(0, 65):
                c = o.cells.get(b - back)
                if c is not None:
                    if back and b - back + c[0] > b:
                        self._split_cell(o, b - back, b)
                    break
        return sorted(k for k in o.cells if off <= k < off + n)

    def store(self, p, n, v, where=""):
        o = self._check(p, n, where)
        if o.const:
            raise ExecError("store to constant at %s" % where)
        for k in self._cells_in(o, p.off, n):
            del o.cells[k]
        o.cells[p.off] = (n, v)

    def load(self, p, n, where=""):
        o = self._check(p, n, where)
        c = o.cells.get(p.off)
        if c is not None and c[0] == n:
            return c[1]
        ks = self._cells_in(o, p.off, n)
        val = None
        wacc = 0
        pos = p.off
        for k in ks:
            cn, cv = o.cells[k]
            if k != pos:
                raise ExecError("load of uninitialised bytes obj=%s(%s) off=%d at %s"
                                % (p.obj, o.name, pos, where))
            if isinstance(cv, (Ptr, SymPtr)) or cv is UNDEF:
                if cn == n:
                    return cv
                raise Unsupported("partial load of pointer/undef cell at %s" % where)
            if val is None:
                val, wacc = cv, 8 * cn
            else:
                val = T.t_concat(cv, val, 8 * cn, wacc)
                wacc += 8 * cn
            pos += cn
        if pos != p.off + n:
            raise ExecError("load of uninitialised bytes obj=%s(%s) off=%d at %s"
                            % (p.obj, o.name, pos, where))
        return val

    def memcpy(self, dst, src, n, where=""):
        if n == 0:
            return
        so = self._check(src, n, where)
        do = self._check(dst, n, where)
        ks = self._cells_in(so, src.off, n)
        cells = [(k - src.off, so.cells[k]) for k in ks]
        for k in self._cells_in(do, dst.off, n):
            del do.cells[k]
        for rel, c in cells:
            do.cells[dst.off + rel] = c

    def memset(self, dst, byte, n, where=""):
        if n == 0:
            return
        do = self._check(dst, n, where)
        for k in self._cells_in(do, dst.off, n):
            del do.cells[k]
        if isinstance(byte, Term):
            for i in range(n):
                do.cells[dst.off + i] = (1, byte)
        else:
            i = 0
            while i < n:
                c = min(8, n - i)
                do.cells[dst.off + i] = (c, int.from_bytes(bytes([byte & 255]) * c, "little"))
                i += c

    def read_bytes(self, p, n):
        return [self.load(Ptr(p.obj, p.off + i), 1) for i in range(n)]

    def read_words(self, p, cnt, wbytes):
        return [self.load(Ptr(p.obj, p.off + i * wbytes), wbytes) for i in range(cnt)]

    # ------------------------------------------------------------ globals
    def global_ptr(self, name):
        g = self.globals.get(name)
        if g is not None:
            return g
        if name in self.m.fpos or name in self.m.decls:
            p = Ptr(("fn", name), 0)
            self.globals[name] = p
            return p
        if name not in self.m.gpos:
            raise Unsupported("unknown global @" + name)
        d = self.m.global_def(name)
        if d[0] == "alias":
            p = self.global_ptr(d[1])
            self.globals[name] = p
            return p
        if d[0] == "extern":
            raise Unsupported("external global @" + name)
        _, ty, val = d
        size = sizeof(ty)
        oid = self.new_obj(size, "@" + name)
        p = Ptr(oid, 0)
        self.globals[name] = p
        self._init_const(oid, 0, ty, val)
        self.mem[oid].const = True
        return p

    def _init_const(self, oid, off, ty, val):
        o = self.mem[oid]
        k = val[0]
        if k == "bytes":
            data = val[1]
            i = 0
            n = len(data)
            while i < n:
                c = min(8, n - i)
                o.cells[off + i] = (c, int.from_bytes(data[i:i + c], "little"))
                i += c
            return
        if k == "zero" or k == "undef":
            n = sizeof(ty)
            i = 0
            while i < n:
                c = min(8, n - i)
                o.cells[off + i] = (c, 0)
                i += c
            return
        if k == "int":
            o.cells[off] = (sizeof(ty), val[1] & T.mask(8 * sizeof(ty)))
            return
        if k == "null":
            o.cells[off] = (8, NULL)
            return
        if k in ("global", "cgep", "ccast"):
            o.cells[off] = (8, self.const_value(ty, val))
            return
        if k == "agg":
            if ty[0] == "struct":
                offs = struct_offsets(ty)
                for (et, ev), eo in zip(val[1], offs):
                    self._init_const(oid, off + eo, et, ev)
            else:
                es = sizeof(ty[2])
                for i, (et, ev) in enumerate(val[1]):
                    self._init_const(oid, off + i * es, et, ev)
            return
        raise Unsupported("global initializer %r" % (k,))

    def const_value(self, ty, v):
        k = v[0]
        if k == "int":
            return v[1] & T.mask(width(ty)) if ty[0] in ("int",) else v[1]
        if k == "global":
            return self.global_ptr(v[1])
        if k == "null":
            return NULL
        if k == "undef":
            if ty[0] in ("struct", "array", "vec"):
                return self._zero_agg(ty, UNDEF)
            return UNDEF
        if k == "zero":
            return self._zero_agg(ty, 0)
        if k == "splat":
            ev = self.const_value(ty[2], v[1])
            return [ev] * ty[1]
        if k == "agg":
            return [self.const_value(et, ev) for et, ev in v[1]]
        if k == "cgep":
            base = self.const_value(("ptr",), v[2])
            idx = [(it, self.const_value(it, iv)) for it, iv in v[3]]
            return self._gep(v[1], base, idx, "constexpr")
        if k == "ccast":
            _, op, st, sv, dt = v
            x = self.const_value(st, sv)
            if op in ("bitcast",):
                return x
            if op == "inttoptr" and isinstance(x, int):
                return Ptr(0, x)        # dangling pointer constant (empty slices)
            raise Unsupported("constant cast " + op)
        if k == "bytes":
            return list(v[1])
        raise Unsupported("constant %r" % (v,))

    def _zero_agg(self, ty, z):
        if ty[0] == "struct":
            return [self._zero_agg(e, z) for e in ty[1]]
        if ty[0] in ("array", "vec"):
            return [self._zero_agg(ty[2], z) for _ in range(ty[1])]
        if ty[0] == "ptr":
            return NULL if z == 0 else z
        return z

    # ------------------------------------------------------------ typed load/store
    def load_typed(self, ty, p, where):
        k = ty[0]
        if k == "int":
            n = (ty[1] + 7) // 8
            v = self.load(p, n, where)
            if isinstance(v, (Ptr, SymPtr)) or v is UNDEF:
                return v
            if ty[1] < 8 * n:
                v = T.t_trunc(v, ty[1]) if isinstance(v, Term) else v & T.mask(ty[1])
            return v
        if k == "ptr":
            v = self.load(p, 8, where)
            if isinstance(v, int):
                if v == 0:
                    return NULL
                raise Unsupported("integer loaded as pointer at %s" % where)
            return v
        if k in ("array", "vec"):
            es = sizeof(ty[2])
            return [self.load_typed(ty[2], Ptr(p.obj, p.off + i * es), where) for i in range(ty[1])]
        if k == "struct":
            return [self.load_typed(e, Ptr(p.obj, p.off + o), where)
                    for e, o in zip(ty[1], struct_offsets(ty))]
        raise Unsupported("load of %r" % (ty,))

    def store_typed(self, ty, v, p, where):
        k = ty[0]
        if k == "int":
            n = (ty[1] + 7) // 8
            if ty[1] < 8 * n and not (isinstance(v, (Ptr, SymPtr)) or v is UNDEF):
                v = T.t_zext(v, 8 * n) if isinstance(v, Term) else v
            self.store(p, n, v, where)
            return
        if k == "ptr":
            self.store(p, 8, v, where)
            return
        if k in ("array", "vec"):
            es = sizeof(ty[2])
            if v is UNDEF:
                return
            for i in range(ty[1]):
                self.store_typed(ty[2], v[i], Ptr(p.obj, p.off + i * es), where)
            return
        if k == "struct":
            if v is UNDEF:
                return
            for e, o, x in zip(ty[1], struct_offsets(ty), v):
                self.store_typed(e, x, Ptr(p.obj, p.off + o), where)
            return
        raise Unsupported("store of %r" % (ty,))

    # ------------------------------------------------------------ gep
    def _gep(self, bt, base, idx, where):
        if isinstance(base, SymPtr):
            off_add = self._gep(bt, Ptr(base.obj, 0), idx, where).off
            return SymPtr(base.obj, base.off + off_add, base.idx, base.stride, base.idxw)
        if not isinstance(base, Ptr):
            raise Unsupported("gep on %r at %s" % (base, where))
        off = base.off
        ty = bt
        sym = None
        for n, (it, iv) in enumerate(idx):
            if n > 0:
                ty = resolve_named(ty)
            if n == 0:
                stride = sizeof(ty)
            elif ty[0] == "struct":
                if isinstance(iv, Term):
                    raise Unsupported("symbolic struct index")
                off += struct_offsets(ty)[iv]
                ty = ty[1][iv]
                continue
            elif ty[0] in ("array", "vec"):
                ty = ty[2]
                stride = sizeof(ty)
            else:
                raise Unsupported("gep into %r" % (ty,))
            if isinstance(iv, Term):
                if sym is not None:
                    raise Unsupported("two symbolic gep indices at %s" % where)
                if self.sym_index_policy:
                    self.sym_index_policy(self, "address", iv, where)
                sym = (iv, stride, width(it))
            else:
                iw = width(it)
                off += T.to_signed(iv, iw) * stride
        if sym is not None:
            return SymPtr(base.obj, off, sym[0], sym[1], sym[2])
        return Ptr(base.obj, off)

    # ------------------------------------------------------------ running
    def add_call_hook(self, pattern, fn):
        self._hook_list.append((re.compile(pattern), fn))

    def run(self, fname, args):
        fn = self.m.function(self.m.resolve(fname))
        return self.call_function(fn, args)

    def val(self, frame, ty, v):
        k = v[0]
        if k == "local":
            try:
                return frame[v[1]]
            except KeyError:
                raise ExecError("undefined local %%%s" % v[1])
        return self.const_value(ty, v)

    def call_function(self, fn, args):
        if len(self.fn_stack) > 200:
            raise ExecError("call depth")
        frame = {}
        if len(args) != len(fn.params):
            raise ExecError("arity mismatch calling %s" % fn.name)
        for (pt, pn), a in zip(fn.params, args):
            frame[pn] = a
        self.fn_stack.append(fn.name)
        self.funcs_entered.add(fn.name)
        allocas = []
        try:
            label = fn.order[0]
            prev = None
            while True:
                blk = self.m.block(fn, label)
                # phis first (parallel)
                i = 0
                newvals = []
                while i < len(blk) and blk[i].op == "phi":
                    ins = blk[i]
                    for v, lab in ins.a:
                        if lab == prev:
                            newvals.append((ins.dest, self.val(frame, ins.ty, v)))
                            break
                    else:
                        raise ExecError("phi without incoming for %s in %s" % (prev, fn.name))
                    i += 1
                for d, v in newvals:
                    frame[d] = v
                nxt = None
                for ins in blk[i:]:
                    self.steps += 1
                    if self.steps > self.max_steps:
                        raise ExecError("step limit")
                    r = self.step(fn, frame, ins, allocas)
                    if r is not None:
                        kind, x = r
                        if kind == "ret":
                            return x
                        nxt = x
                        break
                if nxt is None:
                    raise ExecError("fell off block %s in %s" % (label, fn.name))
                prev, label = label, nxt
        finally:
            self.fn_stack.pop()
            for oid in allocas:
                self.mem.pop(oid, None)

    def where(self, fn, ins):
        return "%s: %s" % (fn.name[:80], ins.line[:100])

    def _cond(self, c, fn, ins):
        """resolve a branch condition to a concrete bool"""
        if isinstance(c, Term):
            if self.branch_policy is None:
                raise SymbolicControl("branch", c, self.where(fn, ins))
            r = self.branch_policy(self, c, self.where(fn, ins))
            return bool(r)
        return bool(c & 1)

    def step(self, fn, frame, ins, allocas):
        op = ins.op
        V = lambda ty, v: self.val(frame, ty, v)
        if op in _BIN:
            a = V(ins.ty, ins.a[0])
            b = V(ins.ty, ins.a[1])
            frame[ins.dest] = self.binop(op, ins.ty, a, b, fn, ins)
            return
        if op == "extractvalue":
            v = V(ins.ty, ins.a[0])
            for i in ins.a[1]:
                v = v[i]
            frame[ins.dest] = v
            return
        if op == "call":
            return self.do_call(fn, frame, ins)
        if op == "load":
            p = V(("ptr",), ins.a[0])
            if isinstance(p, SymPtr):
                frame[ins.dest] = self.load_symptr(ins.ty, p, self.where(fn, ins))
            else:
                frame[ins.dest] = self.load_typed(ins.ty, p, self.where(fn, ins))
            if self.record_trace:
                self.trace.append(("load", p.obj, p.off))
            return
        if op == "store":
            p = V(("ptr",), ins.a[1])
            if isinstance(p, SymPtr):
                raise SymbolicControl("store address", p.idx, self.where(fn, ins))
            self.store_typed(ins.ty, V(ins.ty, ins.a[0]), p, self.where(fn, ins))
            if self.record_trace:
                self.trace.append(("store", p.obj, p.off))
            return
        if op == "gep":
            bt, pv, idx = ins.a
            base = V(("ptr",), pv)
            ix = [(it, V(it, iv)) for it, iv in idx]
            frame[ins.dest] = self._gep(bt, base, ix, self.where(fn, ins))
            return
        if op in ("trunc", "zext", "sext"):
            st, v = ins.a
            x = V(st, v)
            frame[ins.dest] = self.cast(op, st, ins.ty, x)
            return
        if op == "icmp":
            pred, a, b = ins.a
            x, y = V(ins.ty, a), V(ins.ty, b)
            frame[ins.dest] = self.icmp(pred, ins.ty, x, y, fn, ins)
            return
        if op == "select":
            ct, cv, v1, v2 = ins.a
            c = V(ct, cv)
            a, b = V(ins.ty, v1), V(ins.ty, v2)
            frame[ins.dest] = self.select(ct, c, ins.ty, a, b, fn, ins)
            return
        if op == "br":
            return ("br", ins.a[0])
        if op == "condbr":
            c = V(("int", 1), ins.a[0])
            taken = self._cond(c, fn, ins)
            if self.record_trace:
                self.trace.append(("br", taken))
            return ("br", ins.a[1] if taken else ins.a[2])
        if op == "ret":
            if ins.a[0] is None:
                return ("ret", None)
            return ("ret", V(ins.ty, ins.a[0]))
        if op == "alloca":
            ty, cnt, align = ins.a
            n = sizeof(ty)
            if cnt is not None:
                c = V(("int", 64), cnt)
                if isinstance(c, Term):
                    raise SymbolicControl("alloca size", c, self.where(fn, ins))
                n *= c
            oid = self.new_obj(n, "alloca %" + str(ins.dest))
            allocas.append(oid)
            frame[ins.dest] = Ptr(oid, 0)
            return
        if op == "insertvalue":
            v, ev, idx = ins.a
            agg = V(ins.ty, v)
            et = ins.ty
            for i in idx:
                et = et[1][i] if et[0] == "struct" else et[2]
            e = V(et, ev)
            frame[ins.dest] = _insert(agg, idx, e, ins.ty)
            return
        if op == "extractelement":
            vec = V(ins.ty, ins.a[0])
            i = V(("int", 64), ins.a[1])
            if isinstance(i, Term):
                raise SymbolicControl("vector index", i, self.where(fn, ins))
            frame[ins.dest] = vec[i]
            return
        if op == "insertelement":
            vec = V(ins.ty, ins.a[0])
            e = V(ins.ty[2], ins.a[1])
            i = V(("int", 64), ins.a[2])
            if isinstance(i, Term):
                raise SymbolicControl("vector index", i, self.where(fn, ins))
            if vec is UNDEF:
                vec = [UNDEF] * ins.ty[1]
            nv = list(vec)
            nv[i] = e
            frame[ins.dest] = nv
            return
        if op == "shufflevector":
            v1, v2, mt, mv = ins.a
            a = V(ins.ty, v1)
            b = V(ins.ty, v2)
            n = ins.ty[1]
            if a is UNDEF:
                a = [UNDEF] * n
            if b is UNDEF:
                b = [UNDEF] * n
            both = list(a) + list(b)
            if mv[0] == "zero":
                m = [0] * mt[1]
            elif mv[0] == "undef":
                m = [None] * mt[1]
            elif mv[0] == "splat":
                m = [mv[1][1]] * mt[1]
            else:
                m = [(None if ev[0] == "undef" else ev[1]) for et, ev in mv[1]]
            frame[ins.dest] = [UNDEF if j is None else both[j] for j in m]
            return
        if op == "switch":
            v, default, cases = ins.a
            x = V(ins.ty, v)
            if isinstance(x, Term):
                # resolve by asking the policy case by case
                for cval, lab in cases:
                    c = T.t_icmp("eq", x, cval & T.mask(width(ins.ty)), width(ins.ty))
                    if self._cond(c, fn, ins):
                        return ("br", lab)
                return ("br", default)
            for cval, lab in cases:
                if (cval & T.mask(width(ins.ty))) == x:
                    return ("br", lab)
            return ("br", default)
        if op == "unreachable":
            raise ExecError("unreachable executed in %s" % fn.name)
        if op == "freeze":
            frame[ins.dest] = V(ins.ty, ins.a[0])
            return
        if op in ("ptrtoint",):
            st, v = ins.a
            x = V(st, v)
            frame[ins.dest] = ("ptrint", x)
            return
        if op in ("inttoptr",):
            st, v = ins.a
            x = V(st, v)
            if isinstance(x, tuple) and x[0] == "ptrint":
                frame[ins.dest] = x[1]
                return
            raise Unsupported("inttoptr of %r" % (x,))
        if op == "bitcast":
            st, v = ins.a
            x = V(st, v)
            frame[ins.dest] = self.bitcast(st, ins.ty, x)
            return
        if op in ("landingpad", "resume"):
            raise ExecError("unwinding path executed in %s" % fn.name)
        raise Unsupported("instruction %s" % ins.line)

    # ------------------------------------------------------------ ops
    def bitcast(self, st, dt, x):
        if st == dt:
            return x
        # via flat integer
        flat, w = self._flatten(st, x)
        return self._unflatten(dt, flat, w)

    def _flatten(self, ty, x):
        if ty[0] == "int":
            return x, ty[1]
        if ty[0] == "vec":
            acc, wacc = None, 0
            for e in x:
                if e is UNDEF:
                    e = 0
                ev, ew = self._flatten(ty[2], e)
                if acc is None:
                    acc, wacc = ev, ew
                else:
                    acc = T.t_concat(ev, acc, ew, wacc)
                    wacc += ew
            return acc, wacc
        raise Unsupported("flatten %r" % (ty,))

    def _unflatten(self, ty, flat, w):
        if ty[0] == "int":
            assert ty[1] == w
            return flat
        if ty[0] == "vec":
            ew = width(ty[2])
            assert ew * ty[1] == w
            return [T.t_extract(flat, i * ew, ew) for i in range(ty[1])]
        raise Unsupported("unflatten %r" % (ty,))

    def _vecwise(self, ty, f, *xs):
        if ty[0] == "vec":
            n = ty[1]
            cols = []
            for x in xs:
                if x is UNDEF:
                    x = [UNDEF] * n
                cols.append(x)
            return [self._vecwise(ty[2], f, *[c[i] for c in cols]) for i in range(n)]
        for x in xs:
            if x is UNDEF:
                return UNDEF
        return f(ty, *xs)

    def binop(self, op, ty, a, b, fn, ins):
        def f(t, x, y):
            if isinstance(x, (Ptr, SymPtr, tuple)) or isinstance(y, (Ptr, SymPtr, tuple)):
                return self.ptr_arith(op, t, x, y, fn, ins)
            w = t[1]
            if op == "add":
                return T.t_add(x, y, w)
            if op == "sub":
                return T.t_sub(x, y, w)
            if op == "mul":
                return T.t_mul(x, y, w)
            if op == "and":
                return T.t_and(x, y, w)
            if op == "or":
                return T.t_or(x, y, w)
            if op == "xor":
                return T.t_xor(x, y, w)
            if op in ("shl", "lshr", "ashr"):
                if isinstance(y, Term):
                    if op == "shl":
                        return T._mk("shl", (x, y), w)
                    if op == "lshr":
                        return T._mk("lshr", (x, y), w)
                    return T._mk("ashr", (x, y), w)
                return {"shl": T.t_shl, "lshr": T.t_lshr, "ashr": T.t_ashr}[op](x, y, w)
            if op in ("udiv", "urem", "sdiv", "srem"):
                if isinstance(y, Term) or isinstance(x, Term):
                    if self.sym_index_policy:
                        self.sym_index_policy(self, "division operand",
                                              y if isinstance(y, Term) else x, self.where(fn, ins))
                    if isinstance(y, Term):
                        raise SymbolicControl("divisor", y, self.where(fn, ins))
                    if op in ("sdiv", "srem"):
                        raise Unsupported("signed division of symbolic value")
                    return T.t_binop(op, x, y, w)
                if y == 0:
                    raise ExecError("division by zero at %s" % self.where(fn, ins))
                if op == "udiv":
                    return x // y
                if op == "urem":
                    return x % y
                sx, sy = T.to_signed(x, w), T.to_signed(y, w)
                q = abs(sx) // abs(sy)
                if (sx < 0) != (sy < 0):
                    q = -q
                if op == "sdiv":
                    return q & T.mask(w)
                return (sx - q * sy) & T.mask(w)
            raise Unsupported(op)
        return self._vecwise(ty, f, a, b)

    def ptr_arith(self, op, t, x, y, fn, ins):
        # pointer differences / alignment tests via ptrtoint
        if isinstance(x, tuple) and x[0] == "ptrint" and isinstance(y, tuple) and y[0] == "ptrint":
            p, q = x[1], y[1]
            if op == "sub" and isinstance(p, Ptr) and isinstance(q, Ptr) and p.obj == q.obj:
                return (p.off - q.off) & T.mask(64)
        if isinstance(x, tuple) and x[0] == "ptrint" and isinstance(y, int) and op == "and":
            # alignment test: objects are treated as 16-byte aligned
            p = x[1]
            if isinstance(p, Ptr) and y < 16:
                return p.off & y
        raise Unsupported("pointer arithmetic %s at %s" % (op, self.where(fn, ins)))

    def cast(self, op, st, dt, x):
        def f(t, v):
            sw = st[1] if st[0] == "int" else st[2][1]
            dw = t[1]
            if op == "trunc":
                return T.t_trunc(v, dw)
            if op == "zext":
                return T.t_zext(v, dw)
            return T.t_sext(v, sw, dw)
        if dt[0] == "vec":
            return [UNDEF if v is UNDEF else f(dt[2], v) for v in x]
        if x is UNDEF:
            return UNDEF
        return f(dt, x)

    def icmp(self, pred, ty, x, y, fn, ins):
        def f(t, a, b):
            if isinstance(a, Ptr) or isinstance(b, Ptr):
                if isinstance(a, Ptr) and isinstance(b, Ptr):
                    if a.obj == b.obj:
                        return T._cmp_c(pred, a.off & T.mask(64), b.off & T.mask(64), 64)
                    if pred in ("eq", "ne"):
                        return int(pred == "ne")
                raise Unsupported("pointer comparison at %s" % self.where(fn, ins))
            return T.t_icmp(pred, a, b, width(t))
        return self._vecwise(ty, f, x, y)

    def select(self, ct, c, ty, a, b, fn, ins):
        if ct[0] == "vec":
            n = ct[1]
            if a is UNDEF:
                a = [UNDEF] * n
            if b is UNDEF:
                b = [UNDEF] * n
            return [self._sel1(c[i], ty[2], a[i], b[i], fn, ins) for i in range(n)]
        return self._sel1(c, ty, a, b, fn, ins)

    def _sel1(self, c, ty, a, b, fn, ins):
        if not isinstance(c, Term):
            return a if c & 1 else b
        if ty[0] == "int":
            if a is UNDEF:
                return b
            if b is UNDEF:
                return a
            return T.t_ite(c, a, b, ty[1])
        if ty[0] in ("vec", "array"):
            return [self._sel1(c, ty[2], x, y, fn, ins) for x, y in zip(a, b)]
        if ty[0] == "struct":
            return [self._sel1(c, e, x, y, fn, ins) for e, x, y in zip(ty[1], a, b)]
        if ty[0] == "ptr":
            if a == b:
                return a
            # select between pointers on symbolic condition: treat as control
            if self._cond(c, fn, ins):
                return a
            return b
        raise Unsupported("select on %r" % (ty,))

    def load_symptr(self, ty, p, where):
        """load through a pointer with symbolic index: ite chain over all
        in-bounds positions (used for variable-time table accesses only;
        constant-time code must never reach this: the policy hook fires in
        _gep first)."""
        o = self.mem[p.obj]
        n = sizeof(ty)
        res = None
        # candidate index values: those for which the access is in bounds
        cands = []
        i = 0
        lim = 1 << min(p.idxw, 20)
        while i < lim:
            off = p.off + i * p.stride
            if off + n > o.size:
                break
            if off >= 0:
                cands.append((i, off))
            i += 1
        if not cands:
            raise ExecError("symbolic-index load out of bounds at %s" % where)
        lo, hi = p.idx.lo, p.idx.hi
        cands = [(i, off) for i, off in cands if lo <= i <= hi] or cands
        for i, off in reversed(cands):
            try:
                v = self.load_typed(ty, Ptr(p.obj, off), where)
            except ExecError:
                continue
            if res is None:
                res = v
            else:
                c = T.t_icmp("eq", p.idx, i, p.idx.w)
                res = self._sel1(c, ty, v, res, None, None)
        if res is None:
            raise ExecError("symbolic-index load: no readable candidate at %s" % where)
        return res

    # ------------------------------------------------------------ calls
    def do_call(self, fn, frame, ins):
        callee, args, normal, unwind = ins.a
        if callee[0] == "global":
            name = callee[1]
        elif callee[0] == "local":
            fp = frame[callee[1]]
            if isinstance(fp, Ptr) and isinstance(fp.obj, tuple) and fp.obj[0] == "fn":
                name = fp.obj[1]
            else:
                raise Unsupported("indirect call at %s" % self.where(fn, ins))
        else:
            raise Unsupported("callee %r" % (callee,))
        argv = [self.val(frame, at, av) for at, av in args]
        r = self.call_named(name, args, argv, ins.ty, fn, ins)
        if ins.dest is not None:
            frame[ins.dest] = r
        if normal is not None:
            return ("br", normal)
        return None

    def call_named(self, name, args, argv, rty, fn, ins):
        for pat, hook in self._hook_list:
            if pat.search(name):
                r = hook(self, name, argv, rty)
                if r is not NotImplemented:
                    return r
        if name.startswith("llvm."):
            return self.intrinsic(name, args, argv, rty, fn, ins)
        d = self.m.gpos.get(name)
        if d is not None and name not in self.m.fpos:
            g = self.m.global_def(name)
            if g[0] == "alias":
                name = g[1]
        if name in self.m.fpos:
            if PANIC_PAT.search(name) and "precondition_check" not in name:
                raise PanicReached(name, self.where(fn, ins))
            return self.call_function(self.m.function(name), argv)
        return self.external(name, args, argv, rty, fn, ins)

    def external(self, name, args, argv, rty, fn, ins):
        if PANIC_PAT.search(name):
            raise PanicReached(name, self.where(fn, ins))
        if "rust_alloc_zeroed" in name:
            n = argv[0]
            if isinstance(n, Term):
                raise SymbolicControl("allocation size", n, self.where(fn, ins))
            p = self.alloc_uninit(n, "heap")
            self.memset(p, 0, n)
            return p
        if "rust_alloc" in name and "error" not in name:
            n = argv[0]
            if isinstance(n, Term):
                raise SymbolicControl("allocation size", n, self.where(fn, ins))
            return self.alloc_uninit(n, "heap")
        if "rust_dealloc" in name:
            return None
        if "rust_realloc" in name:
            p, old, align, new = argv
            q = self.alloc_uninit(new, "heap")
            self.memcpy_partial(q, p, min(old, new))
            return q
        if "rust_no_alloc_shim_is_unstable" in name:
            return None
        if name in ("memcmp", "bcmp"):
            a, b, n = argv
            if isinstance(n, Term):
                raise SymbolicControl("memcmp length", n, self.where(fn, ins))
            return self.memcmp(a, b, n, name == "bcmp")
        raise Unsupported("external function %s" % name)

    def memcpy_partial(self, dst, src, n):
        """copy n bytes, tolerating uninitialised source bytes"""
        so = self.mem[src.obj]
        do = self.mem[dst.obj]
        ks = self._cells_in(so, src.off, n)
        for k in self._cells_in(do, dst.off, n):
            del do.cells[k]
        for k in ks:
            do.cells[dst.off + k - src.off] = so.cells[k]

    def memcmp(self, a, b, n, only_eq):
        if n == 0:
            return 0
        xa = self.load(a, n) if n <= 64 else None
        if only_eq or True:
            # general: byte-wise first difference (memcmp) / any difference (bcmp)
            ba = self.read_bytes(a, n)
            bb = self.read_bytes(b, n)
            if only_eq:
                acc = 0
                for x, y in zip(ba, bb):
                    acc = T.t_or(acc, T.t_xor(x, y, 8), 8)
                ne = T.t_icmp("ne", acc, 0, 8)
                return T.t_zext(ne, 32) if isinstance(ne, Term) else ne
            res = 0
            for x, y in reversed(list(zip(ba, bb))):
                d = T.t_sub(T.t_zext(x, 32) if isinstance(x, Term) else x,
                            T.t_zext(y, 32) if isinstance(y, Term) else y, 32)
                neq = T.t_icmp("ne", x, y, 8)
                res = T.t_ite(neq, d, res, 32) if isinstance(neq, Term) else (d if neq else res)
            return res

    def intrinsic(self, name, args, argv, rty, fn, ins):
        n = name
        if n.startswith("llvm.lifetime") or n.startswith("llvm.experimental.noalias") \
                or n.startswith("llvm.assume") or n.startswith("llvm.dbg") \
                or n.startswith("llvm.prefetch") or n.startswith("llvm.invariant"):
            return None
        if n.startswith("llvm.x86.addcarry"):
            w = int(n.rsplit(".", 1)[1])
            cin, a, b = argv
            cbit = self._tobit(cin, 8)
            wide = T.t_addn([T.t_zext(a, w + 1), T.t_zext(b, w + 1), T.t_zext(cbit, w + 1)], w + 1)
            return [T.t_zext(T.t_extract(wide, w, 1), 8), T.t_extract(wide, 0, w)]
        if n.startswith("llvm.x86.subborrow"):
            w = int(n.rsplit(".", 1)[1])
            bin_, a, b = argv
            bbit = self._tobit(bin_, 8)
            wide = t_sbbw(a, b, bbit, w)
            return [T.t_zext(T.t_extract(wide, w, 1), 8), T.t_extract(wide, 0, w)]
        m = re.match(r"llvm\.(u|s)(add|sub|mul)\.with\.overflow\.i(\d+)", n)
        if m:
            sg, o, w = m.group(1), m.group(2), int(m.group(3))
            a, b = argv
            if sg == "u" and o == "add":
                wide = T.t_addn([T.t_zext(a, w + 1), T.t_zext(b, w + 1)], w + 1)
                return [T.t_extract(wide, 0, w), T.t_extract(wide, w, 1)]
            if sg == "u" and o == "sub":
                wide = t_sbbw(a, b, 0, w)
                return [T.t_extract(wide, 0, w), T.t_extract(wide, w, 1)]
            if sg == "u" and o == "mul":
                wide = T.t_mul(T.t_zext(a, 2 * w), T.t_zext(b, 2 * w), 2 * w)
                return [T.t_extract(wide, 0, w), T.t_icmp("ne", T.t_extract(wide, w, w), 0, w)]
            if sg == "s" and o in ("add", "sub"):
                xa, xb = T.t_sext(a, w, w + 1), T.t_sext(b, w, w + 1)
                wide = T.t_add(xa, xb, w + 1) if o == "add" else T.t_sub(xa, xb, w + 1)
                res = T.t_extract(wide, 0, w)
                ov = T.t_icmp("ne", T.t_extract(wide, w, 1), T.t_extract(wide, w - 1, 1), 1)
                return [res, ov]
            raise Unsupported(n)
        m = re.match(r"llvm\.(u|s)(add|sub)\.sat\.i(\d+)", n)
        if m:
            sg, o, w = m.group(1), m.group(2), int(m.group(3))
            a, b = argv
            if sg == "u" and o == "sub":
                c = T.t_icmp("ult", a, b, w)
                d = T.t_sub(a, b, w)
                return T.t_ite(c, 0, d, w) if isinstance(c, Term) else (0 if c else d)
            if sg == "u" and o == "add":
                wide = T.t_addn([T.t_zext(a, w + 1), T.t_zext(b, w + 1)], w + 1)
                c = T.t_extract(wide, w, 1)
                s = T.t_extract(wide, 0, w)
                return T.t_ite(c, T.mask(w), s, w) if isinstance(c, Term) else (T.mask(w) if c else s)
            raise Unsupported(n)
        m = re.match(r"llvm\.fsh(l|r)\.(.+)$", n)
        if m:
            left = m.group(1) == "l"
            a, b, k = argv

            def f(t, x, y, kk):
                if isinstance(kk, Term):
                    raise Unsupported("symbolic funnel-shift amount")
                return T.t_fsh(left, x, y, kk, t[1])
            return self._vecwise(rty, f, a, b, k)
        m = re.match(r"llvm\.(bswap|bitreverse|ctpop)\.(.+)$", n)
        if m:
            o = m.group(1)

            def f(t, x):
                if o == "bswap":
                    return T.t_bswap(x, t[1])
                return T.t_unop(o, x, t[1])
            return self._vecwise(rty, f, argv[0])
        m = re.match(r"llvm\.(ctlz|cttz)\.i(\d+)", n)
        if m:
            return T.t_unop(m.group(1), argv[0], int(m.group(2)))
        m = re.match(r"llvm\.(umin|umax|smin|smax)\.(.+)$", n)
        if m:
            o = m.group(1)
            return self._vecwise(rty, lambda t, x, y: T.t_binop(o, x, y, t[1]), argv[0], argv[1])
        m = re.match(r"llvm\.abs\.i(\d+)", n)
        if m:
            w = int(m.group(1))
            x = argv[0]
            neg = T.t_icmp("slt", x, 0, w)
            nx = T.t_sub(0, x, w)
            return T.t_ite(neg, nx, x, w) if isinstance(neg, Term) else (nx if neg else x)
        if n.startswith("llvm.memcpy") or n.startswith("llvm.memmove"):
            dst, src, ln = argv[0], argv[1], argv[2]
            if isinstance(ln, Term):
                if self.sym_index_policy:
                    self.sym_index_policy(self, "memcpy length", ln, self.where(fn, ins))
                raise SymbolicControl("memcpy length", ln, self.where(fn, ins))
            if ln:
                if isinstance(dst, SymPtr) or isinstance(src, SymPtr):
                    raise SymbolicControl("memcpy address",
                                          (dst if isinstance(dst, SymPtr) else src).idx,
                                          self.where(fn, ins))
                self._check(src, ln, self.where(fn, ins))
                self._check(dst, ln, self.where(fn, ins))
                self.memcpy_partial(dst, src, ln)
                if self.record_trace:
                    self.trace.append(("memcpy", dst.obj, dst.off, src.obj, src.off, ln))
            return None
        if n.startswith("llvm.memset"):
            dst, byte, ln = argv[0], argv[1], argv[2]
            if isinstance(ln, Term):
                raise SymbolicControl("memset length", ln, self.where(fn, ins))
            self.memset(dst, byte, ln, self.where(fn, ins))
            return None
        m = re.match(r"llvm\.vector\.reduce\.(add|or|and|xor)\.v(\d+)i(\d+)", n)
        if m:
            o, cnt, w = m.group(1), int(m.group(2)), int(m.group(3))
            f = {"add": T.t_add, "or": T.t_or, "and": T.t_and, "xor": T.t_xor}[o]
            acc = argv[0][0]
            for e in argv[0][1:]:
                acc = f(acc, e, w)
            return acc
        if n == "llvm.x86.pclmulqdq":
            a, b, imm = argv
            x = a[1] if imm & 1 else a[0]
            y = b[1] if imm & 16 else b[0]
            r = T.t_binop("clmul", T.t_zext(x, 128), T.t_zext(y, 128), 128)
            return [T.t_extract(r, 0, 64), T.t_extract(r, 64, 64)]
        if n.startswith("llvm.trap") or n.startswith("llvm.ubsantrap"):
            raise PanicReached(n, self.where(fn, ins))
        if n.startswith("llvm.is.constant"):
            return 0
        if n.startswith("llvm.expect"):
            return argv[0]
        if n.startswith("llvm.ptrmask"):
            return argv[0]
        raise Unsupported("intrinsic %s" % n)

    def _tobit(self, c, w):
        if isinstance(c, Term):
            if c.hi <= 1:
                return T.t_extract(c, 0, 1)
            return T.t_icmp("ne", c, 0, w)
        return int(c != 0)


def t_sbbw(a, b, bin_, w):
    """(w+1)-bit value of a - b - bin; bit w is the borrow"""
    if not isinstance(a, Term) and not isinstance(b, Term) and not isinstance(bin_, Term):
        return (a - b - bin_) & T.mask(w + 1)
    return T._mk("sbbw", (a, b, bin_), w + 1, w)


# extend term evaluation with sbbw
_old_apply = T._apply


def _apply2(t, v, env):
    if t.op == "sbbw":
        return (v[0] - v[1] - v[2]) & T.mask(t.w)
    return _old_apply(t, v, env)


T._apply = _apply2

_BIN = {"add", "sub", "mul", "udiv", "sdiv", "urem", "srem", "shl", "lshr", "ashr", "and", "or",
        "xor"}


def _insert(agg, idx, e, ty):
    if agg is UNDEF:
        if ty[0] == "struct":
            agg = [UNDEF] * len(ty[1])
        else:
            agg = [UNDEF] * ty[1]
    agg = list(agg)
    if len(idx) == 1:
        agg[idx[0]] = e
    else:
        sub_ty = ty[1][idx[0]] if ty[0] == "struct" else ty[2]
        agg[idx[0]] = _insert(agg[idx[0]], idx[1:], e, sub_ty)
    return agg
