"""Parser for the textual LLVM IR that rustc emits (the subset that occurs in
crrl).  Functions and globals are parsed lazily."""
import re

TOK = re.compile(r'''
    \s+
  | (?P<str>c"(?:[^"\\]|\\[0-9A-Fa-f]{2}|\\\\)*")
  | (?P<qid>[%@]"(?:[^"\\]|\\.)*")
  | (?P<id>[%@][-a-zA-Z$._0-9]+)
  | (?P<md>![-a-zA-Z$._0-9]*)
  | (?P<attr>\#[0-9]+)
  | (?P<num>-?[0-9]+(?:\.[0-9]+(?:e[+-]?[0-9]+)?)?)
  | (?P<hex>0x[0-9A-Fa-f]+)
  | (?P<word>[a-zA-Z_][-a-zA-Z_0-9.]*)
  | (?P<dots>\.\.\.)
  | (?P<p>[,()\[\]{}<>=*:|])
''', re.X)


def tokenize(s):
    out = []
    pos = 0
    n = len(s)
    while pos < n:
        if s[pos] == ';':
            break
        m = TOK.match(s, pos)
        if not m:
            raise SyntaxError("tokenize: %r" % s[pos:pos + 40])
        pos = m.end()
        k = m.lastgroup
        if k is None:
            continue
        out.append((k, m.group(k)))
    return out


class ParseError(Exception):
    pass


ATTR_WORDS = {
    "noundef", "nonnull", "noalias", "readonly", "writeonly", "readnone", "nocapture",
    "zeroext", "signext", "inreg", "returned", "immarg", "nest", "nofree", "swiftself",
    "dead_on_unwind", "writable", "noext", "align", "dereferenceable",
    "dereferenceable_or_null", "captures", "range", "sret", "byval", "byref", "inalloca",
    "preallocated", "elementtype", "initializes", "nofpclass", "dead_on_return",
    "allocalign", "allocptr", "swifterror", "swiftasync",
}
CALLCONV = {"fastcc", "coldcc", "ccc", "tailcc", "preserve_mostcc", "preserve_allcc", "cc"}
FLAG_WORDS = {"nuw", "nsw", "exact", "disjoint", "nneg", "inbounds", "nusw", "samesign",
              "volatile", "fast", "nnan", "ninf", "nsz", "arcp", "contract", "afn", "reassoc",
              "atomic"}
BINOPS = {"add", "sub", "mul", "udiv", "sdiv", "urem", "srem", "shl", "lshr", "ashr", "and",
          "or", "xor"}
CASTS = {"trunc", "zext", "sext", "ptrtoint", "inttoptr", "bitcast", "addrspacecast"}


class P:
    """token cursor with type / value parsers"""

    def __init__(self, toks, line=""):
        self.t = toks
        self.i = 0
        self.line = line

    def peek(self, k=0):
        j = self.i + k
        return self.t[j] if j < len(self.t) else (None, None)

    def next(self):
        tk = self.peek()
        self.i += 1
        return tk

    def at(self, val):
        return self.peek()[1] == val

    def accept(self, val):
        if self.peek()[1] == val:
            self.i += 1
            return True
        return False

    def expect(self, val):
        if not self.accept(val):
            raise ParseError("expected %r at %r in %s" % (val, self.t[self.i:self.i + 5], self.line))

    def skip_group(self):
        # at '(' : skip balanced
        depth = 0
        while True:
            k, v = self.next()
            if v == "(":
                depth += 1
            elif v == ")":
                depth -= 1
                if depth == 0:
                    return
            elif k is None:
                raise ParseError("unbalanced group")

    def skip_attrs(self):
        while True:
            k, v = self.peek()
            if k == "word" and v in ATTR_WORDS:
                self.i += 1
                if self.at("("):
                    self.skip_group()
                elif v == "align" and self.peek()[0] == "num":
                    self.i += 1
                continue
            if k == "attr":
                self.i += 1
                continue
            return

    def skip_flags(self):
        while self.peek()[0] == "word" and self.peek()[1] in FLAG_WORDS:
            self.i += 1

    # ---- types
    def type(self):
        k, v = self.next()
        if k == "word":
            if v[0] == "i" and v[1:].isdigit():
                t = ("int", int(v[1:]))
            elif v == "ptr":
                t = ("ptr",)
                if self.peek() == ("word", "addrspace"):
                    self.i += 1
                    self.skip_group()
            elif v == "void":
                t = ("void",)
            elif v in ("float", "double", "half"):
                t = ("fp", v)
            elif v == "label":
                t = ("label",)
            elif v == "metadata":
                t = ("metadata",)
            elif v == "token":
                t = ("token",)
            else:
                raise ParseError("type? %r in %s" % (v, self.line))
        elif v == "{":
            elts = []
            if not self.accept("}"):
                while True:
                    elts.append(self.type())
                    if self.accept("}"):
                        break
                    self.expect(",")
            t = ("struct", tuple(elts), False)
        elif v == "<":
            if self.at("{"):
                self.i += 1
                elts = []
                if not self.accept("}"):
                    while True:
                        elts.append(self.type())
                        if self.accept("}"):
                            break
                        self.expect(",")
                self.expect(">")
                t = ("struct", tuple(elts), True)
            else:
                n = int(self.next()[1])
                k2, v2 = self.next()
                assert v2 == "x", self.line
                et = self.type()
                self.expect(">")
                t = ("vec", n, et)
        elif v == "[":
            n = int(self.next()[1])
            k2, v2 = self.next()
            assert v2 == "x", self.line
            et = self.type()
            self.expect("]")
            t = ("array", n, et)
        elif k in ("id", "qid") and v[0] == "%":
            t = ("named", v)
        else:
            raise ParseError("type? %r in %s" % (v, self.line))
        # function pointer types: T (args)  -- legacy; skip
        while self.at("*"):
            self.i += 1
            t = ("ptr",)
        return t

    # ---- values (operands).  Returned as tagged tuples
    def value(self, ty):
        k, v = self.next()
        if k in ("id", "qid"):
            name = v[0] + (v[2:-1] if k == "qid" else v[1:])
            return ("local", name[1:]) if name[0] == "%" else ("global", name[1:])
        if k == "num":
            return ("int", int(v))
        if k == "hex":
            return ("int", int(v, 16))
        if k == "word":
            if v == "true":
                return ("int", 1)
            if v == "false":
                return ("int", 0)
            if v == "null":
                return ("null",)
            if v in ("undef", "poison"):
                return ("undef",)
            if v == "zeroinitializer":
                return ("zero",)
            if v == "splat":
                self.expect("(")
                et = self.type()
                ev = self.value(et)
                self.expect(")")
                return ("splat", ev)
            if v == "getelementptr":
                self.skip_flags()
                self.expect("(")
                bt = self.type()
                self.expect(",")
                pt = self.type()
                pv = self.value(pt)
                idx = []
                while self.accept(","):
                    it = self.type()
                    idx.append((it, self.value(it)))
                self.expect(")")
                return ("cgep", bt, pv, idx)
            if v in ("ptrtoint", "inttoptr", "bitcast"):
                self.expect("(")
                st = self.type()
                sv = self.value(st)
                assert self.next()[1] == "to"
                dt = self.type()
                self.expect(")")
                return ("ccast", v, st, sv, dt)
            raise ParseError("value? %r in %s" % (v, self.line))
        if k == "str":
            return ("bytes", _cstr(v))
        if v == "<":
            if self.at("{"):
                self.i += 1
                elts = self._agg_elts("}")
                self.expect(">")
                return ("agg", elts)
            elts = self._agg_elts(">")
            return ("agg", elts)
        if v == "[":
            return ("agg", self._agg_elts("]"))
        if v == "{":
            return ("agg", self._agg_elts("}"))
        raise ParseError("value? %r in %s" % (v, self.line))

    def _agg_elts(self, close):
        elts = []
        if self.accept(close):
            return elts
        while True:
            et = self.type()
            elts.append((et, self.value(et)))
            if self.accept(close):
                return elts
            self.expect(",")

    def typed_value(self):
        t = self.type()
        self.skip_attrs()
        return t, self.value(t)


def _cstr(tok):
    s = tok[2:-1]
    out = bytearray()
    i = 0
    while i < len(s):
        c = s[i]
        if c == "\\":
            if s[i + 1] == "\\":
                out.append(92)
                i += 2
            else:
                out.append(int(s[i + 1:i + 3], 16))
                i += 3
        else:
            out.append(ord(c))
            i += 1
    return bytes(out)


class Instr:
    __slots__ = ("dest", "op", "ty", "a", "line")

    def __init__(self, dest, op, ty, a, line):
        self.dest, self.op, self.ty, self.a, self.line = dest, op, ty, a, line


def parse_instr(line):
    toks = tokenize(line)
    p = P(toks, line)
    dest = None
    if p.peek(1)[1] == "=" and p.peek()[0] in ("id", "qid"):
        k, v = p.next()
        dest = v[2:-1] if k == "qid" else v[1:]
        p.next()
    k, op = p.next()
    if op in ("tail", "musttail", "notail"):
        k, op = p.next()
    if op in BINOPS:
        p.skip_flags()
        ty = p.type()
        a = p.value(ty)
        p.expect(",")
        b = p.value(ty)
        return Instr(dest, op, ty, (a, b), line)
    if op == "icmp":
        p.skip_flags()
        pred = p.next()[1]
        ty = p.type()
        a = p.value(ty)
        p.expect(",")
        b = p.value(ty)
        return Instr(dest, "icmp", ty, (pred, a, b), line)
    if op in CASTS:
        p.skip_flags()
        st = p.type()
        v = p.value(st)
        assert p.next()[1] == "to", line
        dt = p.type()
        return Instr(dest, op, dt, (st, v), line)
    if op == "select":
        p.skip_flags()
        ct, cv = p.typed_value()
        p.expect(",")
        t1, v1 = p.typed_value()
        p.expect(",")
        t2, v2 = p.typed_value()
        return Instr(dest, "select", t1, (ct, cv, v1, v2), line)
    if op == "getelementptr":
        p.skip_flags()
        bt = p.type()
        p.expect(",")
        pt, pv = p.typed_value()
        idx = []
        while p.accept(","):
            if p.peek()[0] == "md":
                break
            it, iv = p.typed_value()
            idx.append((it, iv))
        return Instr(dest, "gep", ("ptr",), (bt, pv, idx), line)
    if op == "load":
        p.skip_flags()
        ty = p.type()
        p.expect(",")
        pt, pv = p.typed_value()
        return Instr(dest, "load", ty, (pv,), line)
    if op == "store":
        p.skip_flags()
        ty, v = p.typed_value()
        p.expect(",")
        pt, pv = p.typed_value()
        return Instr(None, "store", ty, (v, pv), line)
    if op == "alloca":
        if p.peek()[1] == "inalloca":
            p.next()
        ty = p.type()
        cnt = None
        align = 1
        while p.accept(","):
            if p.peek()[1] == "align":
                p.next()
                align = int(p.next()[1])
            elif p.peek()[0] == "md":
                break
            else:
                ct, cnt = p.typed_value()
        return Instr(dest, "alloca", ("ptr",), (ty, cnt, align), line)
    if op == "phi":
        p.skip_flags()
        ty = p.type()
        inc = []
        while True:
            p.expect("[")
            v = p.value(ty)
            p.expect(",")
            lab = p.next()
            lname = lab[1][2:-1] if lab[0] == "qid" else lab[1][1:]
            p.expect("]")
            inc.append((v, lname))
            if not p.accept(","):
                break
        return Instr(dest, "phi", ty, inc, line)
    if op in ("call", "invoke"):
        p.skip_flags()
        while p.peek()[0] == "word" and (p.peek()[1] in CALLCONV):
            p.next()
        p.skip_attrs()
        rty = p.type()
        # optional function type "(args...)" for varargs
        if p.at("("):
            p.skip_group()
        callee = p.value(("ptr",))
        p.expect("(")
        args = []
        if not p.accept(")"):
            while True:
                if p.peek()[0] == "dots":
                    p.next()
                else:
                    at = p.type()
                    p.skip_attrs()
                    if at == ("metadata",):
                        # metadata operand: skip till , or )
                        depth = 0
                        while True:
                            kk, vv = p.peek()
                            if vv in ("(", "{", "["):
                                depth += 1
                            elif vv in (")", "}", "]"):
                                if depth == 0:
                                    break
                                depth -= 1
                            elif vv == "," and depth == 0:
                                break
                            p.next()
                        args.append((at, ("undef",)))
                    else:
                        args.append((at, p.value(at)))
                if p.accept(")"):
                    break
                p.expect(",")
        normal = unwind = None
        if op == "invoke":
            while p.peek()[1] != "to":
                if p.peek()[0] is None:
                    raise ParseError("invoke without 'to': " + line)
                p.next()
            p.next()
            assert p.next()[1] == "label"
            lab = p.next()
            normal = lab[1][2:-1] if lab[0] == "qid" else lab[1][1:]
            assert p.next()[1] == "unwind"
            assert p.next()[1] == "label"
            lab = p.next()
            unwind = lab[1][2:-1] if lab[0] == "qid" else lab[1][1:]
        return Instr(dest, "call", rty, (callee, args, normal, unwind), line)
    if op == "ret":
        ty = p.type()
        if ty == ("void",):
            return Instr(None, "ret", ty, (None,), line)
        return Instr(None, "ret", ty, (p.value(ty),), line)
    if op == "br":
        if p.peek()[1] == "label":
            p.next()
            lab = p.next()
            return Instr(None, "br", None, (lab[1][2:-1] if lab[0] == "qid" else lab[1][1:],), line)
        ct, cv = p.typed_value()
        p.expect(",")
        assert p.next()[1] == "label"
        l1 = p.next()
        p.expect(",")
        assert p.next()[1] == "label"
        l2 = p.next()
        f = lambda lab: lab[1][2:-1] if lab[0] == "qid" else lab[1][1:]
        return Instr(None, "condbr", None, (cv, f(l1), f(l2)), line)
    if op == "switch":
        ty, v = p.typed_value()
        p.expect(",")
        assert p.next()[1] == "label"
        lab = p.next()
        f = lambda lab: lab[1][2:-1] if lab[0] == "qid" else lab[1][1:]
        default = f(lab)
        p.expect("[")
        cases = []
        while not p.accept("]"):
            ct = p.type()
            cv = p.value(ct)
            p.expect(",")
            assert p.next()[1] == "label"
            cases.append((cv[1], f(p.next())))
        return Instr(None, "switch", ty, (v, default, cases), line)
    if op == "unreachable":
        return Instr(None, "unreachable", None, (), line)
    if op == "extractvalue":
        ty, v = p.typed_value()
        idx = []
        while p.accept(","):
            if p.peek()[0] == "md":
                break
            idx.append(int(p.next()[1]))
        return Instr(dest, "extractvalue", ty, (v, idx), line)
    if op == "insertvalue":
        ty, v = p.typed_value()
        p.expect(",")
        et, ev = p.typed_value()
        idx = []
        while p.accept(","):
            if p.peek()[0] == "md":
                break
            idx.append(int(p.next()[1]))
        return Instr(dest, "insertvalue", ty, (v, ev, idx), line)
    if op == "extractelement":
        ty, v = p.typed_value()
        p.expect(",")
        it, iv = p.typed_value()
        return Instr(dest, "extractelement", ty, (v, iv), line)
    if op == "insertelement":
        ty, v = p.typed_value()
        p.expect(",")
        et, ev = p.typed_value()
        p.expect(",")
        it, iv = p.typed_value()
        return Instr(dest, "insertelement", ty, (v, ev, iv), line)
    if op == "shufflevector":
        t1, v1 = p.typed_value()
        p.expect(",")
        t2, v2 = p.typed_value()
        p.expect(",")
        mt, mv = p.typed_value()
        return Instr(dest, "shufflevector", t1, (v1, v2, mt, mv), line)
    if op == "freeze":
        ty, v = p.typed_value()
        return Instr(dest, "freeze", ty, (v,), line)
    if op in ("landingpad", "resume", "cleanuppad", "catchpad", "fence"):
        return Instr(dest, op, None, (), line)
    raise ParseError("unknown instruction: " + line)


class Function:
    def __init__(self, name, params, rty, blocks, order):
        self.name, self.params, self.rty = name, params, rty
        self.blocks, self.order = blocks, order


DEFINE_RE = re.compile(r'^define\s.*?@("(?:[^"\\]|\\.)*"|[-a-zA-Z$._0-9]+)\(', re.M)
DECL_RE = re.compile(r'^declare\s.*?@("(?:[^"\\]|\\.)*"|[-a-zA-Z$._0-9]+)\(', re.M)
GLOBAL_RE = re.compile(r'^@("(?:[^"\\]|\\.)*"|[-a-zA-Z$._0-9]+) = ', re.M)
LABEL_RE = re.compile(r'^("(?:[^"\\]|\\.)*"|[-a-zA-Z$._0-9]+):')


def _unq(n):
    return n[1:-1] if n.startswith('"') else n


class Module:
    def __init__(self, path):
        with open(path) as fh:
            self.text = fh.read()
        self.fpos = {}
        for m in DEFINE_RE.finditer(self.text):
            self.fpos[_unq(m.group(1))] = m.start()
        self.decls = set(_unq(m.group(1)) for m in DECL_RE.finditer(self.text))
        self.gpos = {}
        for m in GLOBAL_RE.finditer(self.text):
            self.gpos[_unq(m.group(1))] = m.start()
        self._fcache = {}
        self._gcache = {}
        self.named_types = {}
        for m in re.finditer(r'^(%"[^"]+"|%[-a-zA-Z$._0-9]+) = type (.*)$', self.text, re.M):
            self.named_types[m.group(1)] = m.group(2)

    def resolve(self, name):
        """follow function aliases (LLVM's mergefunc turns identical bodies into aliases)"""
        for _ in range(8):
            if name in self.fpos or name not in self.gpos:
                return name
            g = self.global_def(name)
            if g[0] != "alias":
                return name
            name = g[1]
        return name

    def find_functions(self, pattern):
        r = re.compile(pattern)
        return [n for n in self.fpos if r.search(n)]

    def function(self, name):
        f = self._fcache.get(name)
        if f is not None:
            return f
        pos = self.fpos[name]
        end = self.text.index("\n}\n", pos)
        body = self.text[pos:end].split("\n")
        header = body[0]
        toks = tokenize(header)
        p = P(toks, header)
        # define [linkage etc] <retattrs> RetT @name(params) ...
        # find the '@name' token, type is just before it (walk back is messy):
        # parse forward: skip words until a type parses and is followed by the global id
        i = 1
        rty = None
        while i < len(toks):
            q = P(toks, header)
            q.i = i
            try:
                t = q.type()
                if q.peek()[0] in ("id", "qid") and q.peek()[1][0] == "@":
                    rty = t
                    p.i = q.i
                    break
            except (ParseError, AssertionError, ValueError, TypeError, IndexError):
                pass
            i += 1
        if rty is None:
            raise ParseError("cannot parse define header: " + header)
        p.next()
        p.expect("(")
        params = []
        if not p.accept(")"):
            while True:
                if p.peek()[0] == "dots":
                    p.next()
                else:
                    pt = p.type()
                    p.skip_attrs()
                    k, v = p.peek()
                    if k in ("id", "qid"):
                        p.next()
                        pname = v[2:-1] if k == "qid" else v[1:]
                    else:
                        pname = None
                    params.append((pt, pname))
                if p.accept(")"):
                    break
                p.expect(",")
        # unnamed params get numbers 0..; first block then is numbered after
        cnt = 0
        fixed = []
        for pt, pn in params:
            if pn is None:
                pn = str(cnt)
                cnt += 1
            fixed.append((pt, pn))
        params = fixed
        blocks = {}
        order = []
        cur = None
        for ln in body[1:]:
            s = ln.strip()
            if not s or s.startswith(";"):
                continue
            m = LABEL_RE.match(ln)
            if m and not ln.startswith(" "):
                cur = _unq(m.group(1))
                blocks[cur] = []
                order.append(cur)
                continue
            if cur is None:
                cur = str(cnt)
                blocks[cur] = []
                order.append(cur)
            b = blocks[cur]
            # continuation lines: invoke ... \n to label, landingpad clauses, multi-line switch
            if b and (s.startswith("to label") or s == "cleanup" or s.startswith("catch ")
                      or s.startswith("filter ")
                      or (b[-1].startswith("switch ") and b[-1].count("[") > b[-1].count("]"))):
                b[-1] = b[-1] + " " + s
                continue
            b.append(s)
        fn = Function(name, params, rty, blocks, order)
        fn.parsed = {}
        self._fcache[name] = fn
        return fn

    def block(self, fn, label):
        b = fn.parsed.get(label)
        if b is None:
            b = [parse_instr(s) for s in fn.blocks[label]]
            fn.parsed[label] = b
        return b

    def global_def(self, name):
        """returns (type, value, is_const) parsed from the initializer"""
        g = self._gcache.get(name)
        if g is not None:
            return g
        pos = self.gpos[name]
        end = self.text.index("\n", pos)
        line = self.text[pos:end]
        toks = tokenize(line)
        p = P(toks, line)
        p.next()
        p.expect("=")
        is_alias = False
        while p.peek()[0] == "word" and p.peek()[1] in (
                "private", "internal", "unnamed_addr", "local_unnamed_addr", "constant",
                "global", "external", "hidden", "dso_local", "weak", "linkonce_odr",
                "thread_local", "alias", "available_externally", "protected", "default",
                "weak_odr", "common", "appending"):
            if p.peek()[1] == "alias":
                is_alias = True
            p.next()
        ty = p.type()
        if is_alias:
            # alias <type>, ptr @target
            if p.at("("):
                p.skip_group()
            p.expect(",")
            pt = p.type()
            tv = p.value(pt)
            g = ("alias", tv[1])
        else:
            k, v = p.peek()
            if k is None or v == ",":
                g = ("extern", ty)
            else:
                val = p.value(ty)
                g = ("data", ty, val)
        self._gcache[name] = g
        return g
