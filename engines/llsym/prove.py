"""Obligation-level procedures on top of the integer encoding:
congruence with discovered witnesses and auxiliary lemmas, ranges, and
residual-guided falsification."""
import time, math, random
from .intenc import IntEnc, Lin, solve_mod, _n
from .smt import run_solver, parse_model


class Result:
    def __init__(self, status, solver="z3", seconds=0.0, queries=0, info=None, model=None):
        self.status = status        # 'proved' | 'refuted' | 'unknown'
        self.solver, self.seconds, self.queries = solver, seconds, queries
        self.info = info or {}
        self.model = model

    def __repr__(self):
        return "Result(%s, %.2fs, %d queries, %s)" % (self.status, self.seconds, self.queries,
                                                        {k: v for k, v in self.info.items() if k != 'lemmas'})


def _sym(k, q):
    k %= q
    return k - q if k > q // 2 else k


def _reduce(D, q):
    m = {}
    for a, k in D.m.items():
        s = _sym(k, q)
        if s:
            m[a] = s
    return Lin(_sym(D.c, q), m)


def _solve(enc, goal, extra, timeout, solvers=("z3",), logic="QF_LIA", models=False,
           exact=False, local=False):
    """returns verdict, model, seconds, solver.  local=True: use only the
    program-order prefix of constraints that the goal's atoms live in."""
    last = ("unknown", "", 0.0, solvers[0])
    tot = 0.0
    prefix = enc.prefix_for([goal]) if local else None
    import os, sys
    dbg = os.environ.get("VERIF_DEBUG")
    for s in solvers:
        if local:
            # growing neighbourhoods of the goal in the constraint graph; an
            # `unsat` on a slice is valid for the whole system, anything else
            # only means "look further"
            for hops in (4, 10, 24):
                script = enc.script(goal, extra=extra, logic=logic, models=False, prefix=prefix,
                                    hops=hops)
                v, mod, dt = run_solver(script, s, min(timeout, 6))
                tot += dt
                if dbg:
                    sys.stderr.write("  [solve %s hops=%d prefix=%s %.2fs] %s\n" % (v, hops, prefix, dt, goal[:90]))
                if v == "unsat":
                    return v, mod, tot, s
        script = enc.script(goal, extra=extra, logic=(None if exact else logic),
                            models=models, exact_products=exact, prefix=prefix)
        v, mod, dt = run_solver(script, s, timeout)
        tot += dt
        if dbg:
            sys.stderr.write("  [solve %s prefix=%s %.2fs] %s\n" % (v, prefix, dt, goal[:110]))
        if v in ("sat", "unsat"):
            return v, mod, tot, s
        last = (v, mod, tot, s)
    return last


def nullspace_relations(atoms, samples):
    """integer linear relations  c0 + sum c_j*atom_j = 0  holding on all
    samples (exact rational elimination).  Returns list of Lin."""
    from fractions import Fraction
    cols = ["1"] + list(atoms)
    rows = [[Fraction(1)] + [Fraction(env[a]) for a in atoms] for env in samples]
    n = len(cols)
    # row-reduce sample matrix; nullspace = relations
    piv_cols = []
    r = 0
    M = [row[:] for row in rows]
    for c in range(n):
        pr = None
        for i in range(r, len(M)):
            if M[i][c] != 0:
                pr = i
                break
        if pr is None:
            continue
        M[r], M[pr] = M[pr], M[r]
        pv = M[r][c]
        M[r] = [x / pv for x in M[r]]
        for i in range(len(M)):
            if i != r and M[i][c] != 0:
                f = M[i][c]
                M[i] = [x - f * y for x, y in zip(M[i], M[r])]
        piv_cols.append(c)
        r += 1
        if r == len(M):
            break
    free = [c for c in range(n) if c not in piv_cols]
    rels = []
    for fc in free:
        vec = [Fraction(0)] * n
        vec[fc] = Fraction(1)
        for i, pc in enumerate(piv_cols):
            vec[pc] = -M[i][fc]
        den = 1
        for x in vec:
            den = den * x.denominator // math.gcd(den, x.denominator)
        iv = [int(x * den) for x in vec]
        g = 0
        for x in iv:
            g = math.gcd(g, abs(x))
        if g > 1:
            iv = [x // g for x in iv]
        rels.append(Lin(iv[0], {a: k for a, k in zip(atoms, iv[1:]) if k}))
    return rels


class ModBasis:
    """incremental Gaussian elimination modulo q over linear forms known to be zero"""

    def __init__(self, q, order_index):
        self.q = q
        self.idx = order_index      # atom -> program-order index (newest pivot preferred)
        self.piv = {}               # pivot atom -> normalised form (pivot coefficient 1)
        self.seq = []

    def reduce(self, f):
        q = self.q
        cur = _reduce(f, q)
        # eliminate pivots, newest first (definitions are triangular in program order)
        while True:
            cand = [a for a in cur.m if a in self.piv]
            if not cand:
                return cur
            a = max(cand, key=lambda x: self.idx.get(x, -1))
            k = cur.m[a] % q
            cur = _reduce(cur - self.piv[a].scale(k), q)

    def add(self, e):
        f = self.reduce(e)
        best = None
        for a, k in f.m.items():
            if math.gcd(k % self.q, self.q) == 1:
                if best is None or self.idx.get(a, -1) > self.idx.get(best, -1):
                    best = a
        if best is None:
            return False
        inv = pow(f.m[best] % self.q, -1, self.q)
        self.piv[best] = _reduce(f.scale(inv), self.q)
        self.seq.append(best)
        return True


class Expander:
    """substitute remainder atoms by their defining forms (recursively)"""

    def __init__(self, enc):
        self.enc = enc
        self.memo = {}
        self.defn = {}
        for a, d in enc.defs.items():
            if d[0] == "rem":
                _, f, w, qa, ql = d
                self.defn[a] = f - Lin(ql << w, {qa: 1 << w})
            elif d[0] == "sbbrem":
                self.defn[a] = d[1] + Lin(0, {d[3]: d[2]})

    def atom(self, a):
        r = self.memo.get(a)
        if r is None:
            d = self.defn.get(a)
            r = Lin(0, {a: 1}) if d is None else self.form(d)
            self.memo[a] = r
        return r

    def form(self, f):
        if not any(a in self.defn for a in f.m):
            return f
        out = Lin(f.c)
        rest = {}
        for a, k in f.m.items():
            if a in self.defn:
                out = out + self.atom(a).scale(k)
            else:
                rest[a] = k
        return out + Lin(0, rest)


def prove_congruence(enc, R, V, q, extra=(), timeout=60, max_lemmas=60, solvers=("z3",),
                     samples=None):
    """Show R == V (mod q) under enc's constraints (+extra SMT assertions).
    Linear algebra modulo q over the encoder's defining equations (expanded)
    plus solver-proved auxiliary lemmas finds k with R = V + q*k; the solver
    then confirms that identity from the emitted constraint system."""
    t0 = time.time()
    nq = 0
    xp = Expander(enc)
    D = xp.form(R - V)
    zero_forms = []      # expanded lemma forms
    lemma_raw = []       # as asserted
    lemma_txt = []
    extra = list(extra)
    tried = set()
    rem_atoms = [a for a in enc.order if a in xp.defn]

    def add_lemma(E, txt):
        zero_forms.append(xp.form(E))
        lemma_raw.append(E)
        extra.append("(= %s 0)" % E.smt())
        lemma_txt.append(txt)

    for rounds in range(max_lemmas):
        sol = solve_mod(D, zero_forms, q)
        if sol is not None:
            lam, K = sol
            comb = Lin(0)
            for j, v in lam.items():
                if v:
                    comb = comb + lemma_raw[j].scale(v)
            goal = "(not (= %s (+ %s %s (* %d %s))))" % (R.smt(), V.smt(), comb.smt(), q, K.smt())
            v, _, dt, s = _solve(enc, goal, extra, timeout, solvers, logic=None)
            nq += 1
            if v == "unsat":
                return Result("proved", s, time.time() - t0, nq,
                              {"lemmas": lemma_txt, "witness_atoms": len(K.m)})
            return Result("unknown", s, time.time() - t0, nq,
                          {"reason": "final identity not confirmed: " + v, "lemmas": lemma_txt})
        cur = _residual(D, zero_forms, q)
        if not cur.m:
            break
        progress = False
        if samples:
            if rounds == 0:
                for a in rem_atoms:
                    if enc.atoms[a][1] == 0:
                        continue
                    if all(env[a] == 0 for env in samples):
                        kk = ("zero", a)
                        if kk in tried:
                            continue
                        tried.add(kk)
                        v, _, dt, s_ = _solve(enc, "(not (= %s 0))" % a, extra, min(timeout, 20),
                                              solvers, local=True)
                        nq += 1
                        if v == "unsat":
                            add_lemma(Lin(0, {a: 1}), "%s = 0 (remainder)" % a)
                            progress = True
                if progress:
                    continue
            ratoms = sorted(cur.m)
            if len(ratoms) <= 48 and len(samples) > len(ratoms) + 2:
                for E in nullspace_relations(ratoms, samples):
                    kk = ("rel", E.key())
                    if kk in tried or not E.m:
                        continue
                    tried.add(kk)
                    v, _, dt, s_ = _solve(enc, "(not (= %s 0))" % E.smt(), extra, min(timeout, 20),
                                          solvers, local=True)
                    nq += 1
                    if v == "unsat":
                        add_lemma(E, "%s = 0" % E.smt()[:80])
                        progress = True
                        break
                if progress:
                    continue
        for a in sorted(cur.m, key=lambda a: enc.atoms[a][1]):
            lo, hi = enc.atoms[a]
            if hi - lo > 8:
                continue
            for val in (0, 1):
                key = ("const", a, val)
                if key in tried or not (lo <= val <= hi):
                    continue
                if samples and any(env[a] != val for env in samples):
                    continue
                tried.add(key)
                v, _, dt, s = _solve(enc, "(not (= %s %d))" % (a, val), extra, min(timeout, 20),
                                     solvers, local=True)
                nq += 1
                if v == "unsat":
                    add_lemma(Lin(-val, {a: 1}), "%s = %d" % (a, val))
                    progress = True
                    break
            if progress:
                break
        if progress:
            continue
        break
    cur = _residual(D, zero_forms, q)
    if cur.m and len(cur.m) <= 64:
        v, _, dt, s = _solve(enc, "(not (= (mod %s %d) 0))" % (cur.smt(), q), extra, timeout,
                             solvers, logic=None)
        nq += 1
        if v == "unsat":
            return Result("proved", s + " (direct residual mod q)", time.time() - t0, nq,
                          {"lemmas": lemma_txt + ["residual == 0 (mod q) decided directly"]})
    return Result("unknown", "z3", time.time() - t0, nq,
                  {"reason": "no congruence witness", "residual": cur, "lemmas": lemma_txt,
                   "extra": extra})


def prove_congruence_old(enc, R, V, q, extra=(), timeout=60, max_lemmas=60, solvers=("z3",),
                     samples=None):
    """Show R == V (mod q) under enc's constraints (+extra SMT assertions).
    Finds k with R = V + q*k as an integer form over the encoder's atoms,
    proving auxiliary 'this form is zero' lemmas with the solver as needed."""
    t0 = time.time()
    nq = 0
    D = R - V
    zero_forms = []
    lemma_txt = []
    extra = list(extra)
    tried = set()
    for rounds in range(max_lemmas):
        sol = solve_mod(D, zero_forms, q)
        if sol is not None:
            lam, K = sol
            comb = Lin(0)
            for j, v in lam.items():
                if v:
                    comb = comb + zero_forms[j].scale(v)
            # final check by the solver: R = V + comb + q*K, under the lemmas
            goal = "(not (= %s (+ %s %s (* %d %s))))" % (R.smt(), V.smt(), comb.smt(), q, K.smt())
            v, _, dt, s = _solve(enc, goal, extra, timeout, solvers)
            nq += 1
            if v == "unsat":
                return Result("proved", s, time.time() - t0, nq,
                              {"lemmas": lemma_txt, "witness_atoms": len(K.m)})
            return Result("unknown", s, time.time() - t0, nq,
                          {"reason": "final identity not confirmed: " + v, "lemmas": lemma_txt})
        # residual after eliminating with current zero forms
        cur = _residual(D, zero_forms, q)
        if not cur.m:
            # constant residual not divisible by q: cannot be congruent
            break
        progress = False
        # (s) candidates discovered by concrete simulation, proved by the solver
        if samples:
            if rounds == 0:
                # split remainders that are always zero (e.g. Montgomery's discarded low words)
                for key_, sp in list(enc.splits.items()):
                    low = sp[0]
                    if low.is_const() or len(low.m) < 2:
                        continue
                    if all(low.eval(env) == 0 for env in samples):
                        kk = ("zero", low.key())
                        if kk in tried:
                            continue
                        tried.add(kk)
                        v, _, dt, s_ = _solve(enc, "(not (= %s 0))" % low.smt(), extra, min(timeout, 20), solvers, local=True)
                        nq += 1
                        if v == "unsat":
                            zero_forms.append(low)
                            extra.append("(= %s 0)" % low.smt())
                            lemma_txt.append("split remainder %s... = 0" % low.smt()[:60])
                            progress = True
                if progress:
                    continue
            ratoms = sorted(cur.m)
            if len(ratoms) <= 48 and len(samples) > len(ratoms) + 2:
                for E in nullspace_relations(ratoms, samples):
                    kk = ("rel", E.key())
                    if kk in tried or not E.m:
                        continue
                    tried.add(kk)
                    v, _, dt, s_ = _solve(enc, "(not (= %s 0))" % E.smt(), extra, min(timeout, 20), solvers, local=True)
                    nq += 1
                    if v == "unsat":
                        zero_forms.append(E)
                        extra.append("(= %s 0)" % E.smt())
                        lemma_txt.append("%s = 0" % E.smt()[:80])
                        progress = True
                if progress:
                    continue
        # (a) single atoms with small range that are constant
        cands = sorted(cur.m, key=lambda a: enc.atoms[a][1])
        for a in cands:
            lo, hi = enc.atoms[a]
            if hi - lo > 8:
                continue
            for val in (0, 1):
                key = ("const", a, val)
                if key in tried or not (lo <= val <= hi):
                    continue
                tried.add(key)
                v, _, dt, s = _solve(enc, "(not (= %s %d))" % (a, val), extra, min(timeout, 20), solvers, local=True)
                nq += 1
                if v == "unsat":
                    zf = Lin(-val, {a: 1})
                    zero_forms.append(zf)
                    extra.append("(= %s %d)" % (a, val))
                    lemma_txt.append("%s = %d" % (a, val))
                    progress = True
                    break
            if progress:
                break
        if progress:
            continue
        # (b) the whole residual, gcd-normalised, is zero
        g = 0
        for k in cur.m.values():
            g = math.gcd(g, abs(k))
        g = math.gcd(g, abs(cur.c)) if cur.c else g
        if g:
            E = cur.div(g)
            key = ("res", E.key())
            if key not in tried:
                tried.add(key)
                v, _, dt, s = _solve(enc, "(not (= %s 0))" % E.smt(), extra, min(timeout, 20), solvers, local=True)
                nq += 1
                if v == "unsat":
                    zero_forms.append(E)
                    extra.append("(= %s 0)" % E.smt())
                    lemma_txt.append("%s = 0" % E.smt())
                    continue
        # (c) pairs of Boolean atoms that are equal / complementary
        bools = [a for a in cur.m if enc.atoms[a] == (0, 1)]
        for i in range(len(bools)):
            for j in range(i + 1, len(bools)):
                a, b = bools[i], bools[j]
                for kind, E in (("eq", Lin(0, {a: 1, b: -1})), ("compl", Lin(-1, {a: 1, b: 1}))):
                    key = (kind, a, b)
                    if key in tried:
                        continue
                    tried.add(key)
                    v, _, dt, s = _solve(enc, "(not (= %s 0))" % E.smt(), extra,
                                         min(timeout, 20), solvers)
                    nq += 1
                    if v == "unsat":
                        zero_forms.append(E)
                        extra.append("(= %s 0)" % E.smt())
                        lemma_txt.append("%s = 0" % E.smt())
                        progress = True
                        break
                if progress:
                    break
            if progress:
                break
        if not progress:
            break
    cur = _residual(D, zero_forms, q)
    # (d) last resort: let the solver decide the residual congruence directly
    if cur.m and len(cur.m) <= 64:
        v, _, dt, s = _solve(enc, "(not (= (mod %s %d) 0))" % (cur.smt(), q), extra, timeout,
                             solvers, logic=None)
        nq += 1
        if v == "unsat":
            comb_ok = True
            return Result("proved", s + " (direct residual mod q)", time.time() - t0, nq,
                          {"lemmas": lemma_txt + ["residual == 0 (mod q) decided directly"]})
    return Result("unknown", "z3", time.time() - t0, nq,
                  {"reason": "no congruence witness", "residual": cur, "lemmas": lemma_txt,
                   "extra": extra})


def _residual(D, zero_forms, q):
    """D reduced modulo q and modulo the zero forms (same elimination as solve_mod)"""
    cur = _reduce(D, q)
    basis = []
    for e in zero_forms:
        f = _reduce(e, q)
        for pa, bf in basis:
            k = f.m.get(pa, 0) % q
            if k:
                f = _reduce(f - bf.scale(k), q)
        piv = None
        for a, k in f.m.items():
            if math.gcd(k % q, q) == 1:
                piv = (a, k % q)
                break
        if piv is None:
            continue
        inv = pow(piv[1], -1, q)
        f = _reduce(f.scale(inv), q)
        basis.append((piv[0], f))
    for pa, bf in basis:
        k = cur.m.get(pa, 0) % q
        if k:
            cur = _reduce(cur - bf.scale(k), q)
    return cur


def prove(enc, goal_smt, extra=(), timeout=60, solvers=("z3",)):
    """generic: goal (an SMT Bool string) holds under enc's constraints"""
    t0 = time.time()
    import os
    if os.environ.get("VERIF_DUMP_SMT"):
        with open(os.environ["VERIF_DUMP_SMT"], "w") as fh:
            fh.write(enc.script("(not %s)" % goal_smt, extra=list(extra), logic="QF_LIA", models=False))
    v, mod, dt, s = _solve(enc, "(not %s)" % goal_smt, list(extra), timeout, solvers, models=True)
    if v == "unsat":
        return Result("proved", s, time.time() - t0, 1)
    if v == "sat":
        return Result("refuted", s, time.time() - t0, 1, model=parse_model(mod),
                      info={"abstract": bool(enc.prod_ops) or bool(enc.opaque)})
    return Result("unknown", s, time.time() - t0, 1, {"reason": v})


def prove_range(enc, R, lo, hi, extra=(), timeout=60, solvers=("z3",)):
    return prove(enc, "(<= %s %s %s)" % (_n(lo), R.smt(), _n(hi)), extra, timeout, solvers)


def falsify(enc, neg_goal_smt, fix_sets, timeout=30, extra=(), solvers=("z3",)):
    """Look for a *real* counterexample: products are made exact by fixing
    some input atoms to concrete values (each element of fix_sets is a dict
    atom->value); the remaining query is linear.  Returns (model or None,
    seconds, queries)."""
    t0 = time.time()
    nq = 0
    for fx in fix_sets:
        ex = list(extra) + ["(= %s %d)" % (a, v) for a, v in fx.items()]
        script = enc.script(neg_goal_smt, extra=ex, logic=None, models=True, exact_products=True)
        v, mod, dt = run_solver(script, solvers[0], timeout)
        nq += 1
        if v == "sat":
            return parse_model(mod), time.time() - t0, nq
    return None, time.time() - t0, nq
