"""SMT-LIB emission (bit-vector encoding of a term DAG) and solver runner."""
import os, subprocess, tempfile, time
from . import terms as T
from .terms import Term

Z3 = os.environ.get("VERIF_Z3", "/usr/bin/z3")
Z3NEW = "/usr/local/bin/z3-new"
CVC5 = "/usr/bin/cvc5"


def bvc(v, w):
    return "(_ bv%d %d)" % (v & T.mask(w), w)


class BVEmitter:
    def __init__(self):
        self.lines = []
        self.done = {}
        self.vars = {}

    def ref(self, x, w):
        if isinstance(x, Term):
            return self.emit(x)
        return bvc(x, w)

    def emit(self, root):
        for t in T.topo([root]):
            if t.id in self.done:
                continue
            self._emit1(t)
        return self.done[root.id]

    def _emit1(self, t):
        op, w, a = t.op, t.w, t.args
        name = "t%d" % t.id
        R = lambda x, ww=w: self.done[x.id] if isinstance(x, Term) else bvc(x, ww)
        if op == "var":
            nm = "|%s|" % t.aux[0]
            self.vars[t.aux[0]] = (nm, w)
            self.lines.append("(declare-const %s (_ BitVec %d))" % (nm, w))
            if len(t.aux) == 3:
                self.lines.append("(assert (bvule %s %s))" % (bvc(t.aux[1], w), nm))
                self.lines.append("(assert (bvule %s %s))" % (nm, bvc(t.aux[2], w)))
            self.done[t.id] = nm
            return
        if op in ("add", "mul", "and", "or", "xor"):
            f = {"add": "bvadd", "mul": "bvmul", "and": "bvand", "or": "bvor", "xor": "bvxor"}[op]
            e = R(a[0])
            for x in a[1:]:
                e = "(%s %s %s)" % (f, e, R(x))
        elif op == "sub":
            e = "(bvsub %s %s)" % (R(a[0]), R(a[1]))
        elif op in ("shl", "lshr", "ashr"):
            f = {"shl": "bvshl", "lshr": "bvlshr", "ashr": "bvashr"}[op]
            e = "(%s %s %s)" % (f, R(a[0]), R(a[1]))
        elif op == "zext":
            e = "((_ zero_extend %d) %s)" % (w - a[0].w, R(a[0]))
        elif op == "sext":
            e = "((_ sign_extend %d) %s)" % (w - a[0].w, R(a[0]))
        elif op == "extract":
            e = "((_ extract %d %d) %s)" % (a[1] + w - 1, a[1], R(a[0]))
        elif op == "concat":
            wl = a[1].w if isinstance(a[1], Term) else t.aux
            e = "(concat %s %s)" % (R(a[0], w - wl), R(a[1], wl))
        elif op == "ite":
            e = "(ite (= %s #b1) %s %s)" % (R(a[0], 1), R(a[1]), R(a[2]))
        elif op in T._NEG:
            ww = t.aux
            if op == "eq":
                c = "(= %s %s)" % (R(a[0], ww), R(a[1], ww))
            elif op == "ne":
                c = "(distinct %s %s)" % (R(a[0], ww), R(a[1], ww))
            else:
                c = "(bv%s %s %s)" % (op, R(a[0], ww), R(a[1], ww))
            e = "(ite %s #b1 #b0)" % c
        elif op == "sbbw":
            iw = t.aux
            z = lambda x: "((_ zero_extend 1) %s)" % R(x, iw)
            b = a[2]
            bz = "((_ zero_extend %d) %s)" % (iw, R(b, 1)) if isinstance(b, Term) else bvc(b, w)
            e = "(bvsub (bvsub %s %s) %s)" % (z(a[0]), z(a[1]), bz)
        elif op in ("udiv", "urem"):
            e = "(bv%s %s %s)" % (op, R(a[0]), R(a[1]))
        elif op == "clmul":
            x, y = R(a[0]), R(a[1])
            parts = []
            nb = min(w, 64)
            for i in range(nb):
                parts.append("(ite (= ((_ extract %d %d) %s) #b1) (bvshl %s %s) %s)"
                             % (i, i, y, x, bvc(i, w), bvc(0, w)))
            e = parts[0]
            for p_ in parts[1:]:
                e = "(bvxor %s %s)" % (e, p_)
        elif op == "bitreverse":
            x = R(a[0])
            bits = ["((_ extract %d %d) %s)" % (i, i, x) for i in range(w)]
            # bit 0 of x becomes the top bit
            e = "(concat %s)" % " ".join(bits)
        elif op == "ctpop":
            x = R(a[0])
            e = bvc(0, w)
            for i in range(w):
                e = "(bvadd %s ((_ zero_extend %d) ((_ extract %d %d) %s)))" % (e, w - 1, i, i, x)
        elif op == "ctlz":
            x = R(a[0])
            e = bvc(w, w)
            for i in range(w):
                e = "(ite (= ((_ extract %d %d) %s) #b1) %s %s)" % (i, i, x, bvc(w - 1 - i, w), e)
        elif op == "cttz":
            x = R(a[0])
            e = bvc(w, w)
            for i in range(w - 1, -1, -1):
                e = "(ite (= ((_ extract %d %d) %s) #b1) %s %s)" % (i, i, x, bvc(i, w), e)
        elif op == "uf":
            # uninterpreted function application (logic must be QF_UFBV)
            fname, idx, widths = t.aux
            sym = "uf_%s_%s" % (fname, idx)
            if not hasattr(self, "ufs"):
                self.ufs = {}
            sig = (tuple(widths), w)
            if sym not in self.ufs:
                self.ufs[sym] = sig
                self.lines.append("(declare-fun %s (%s) (_ BitVec %d))"
                                  % (sym, " ".join("(_ BitVec %d)" % x for x in widths), w))
            elif self.ufs[sym] != sig:
                raise ValueError("BV emit: uf %s used with two signatures" % sym)
            e = "(%s %s)" % (sym, " ".join(R(x, ww) for x, ww in zip(a, widths)))
        elif op.startswith("uf:"):
            # aux = (index, widths of the arguments)
            idx, widths = t.aux if isinstance(t.aux, tuple) else (t.aux, tuple(x.w if isinstance(x, Term) else 8 for x in a))
            fname = "|%s#%s|" % (op, idx)
            if fname not in self.vars:
                sorts = " ".join("(_ BitVec %d)" % ww for ww in widths)
                self.lines.append("(declare-fun %s (%s) (_ BitVec %d))" % (fname, sorts, w))
                self.vars[fname] = (fname, None)
                self.has_uf = True
            e = "(%s %s)" % (fname, " ".join(R(x, ww) for x, ww in zip(a, widths)))
        else:
            raise ValueError("BV emit: " + op)
        self.lines.append("(define-fun %s () (_ BitVec %d) %s)" % (name, w, e))
        self.done[t.id] = name

    def script(self, asserts, logic="QF_BV", get_model=True):
        if logic == "QF_BV" and getattr(self, "has_uf", False):
            logic = "QF_UFBV"
        s = ["(set-logic %s)" % logic] if logic else []
        if get_model:
            s.append("(set-option :produce-models true)")
        s += self.lines
        for a in asserts:
            s.append("(assert %s)" % a)
        s.append("(check-sat)")
        if get_model and self.vars:
            s.append("(get-value (%s))" % " ".join(nm for nm, w in self.vars.values() if w is not None))
        return "\n".join(s) + "\n"


def run_solver(script, solver="z3", timeout=60, extra=()):
    """returns (verdict, model_text, seconds); verdict in sat/unsat/unknown/timeout/error"""
    t0 = time.time()
    with tempfile.NamedTemporaryFile("w", suffix=".smt2", delete=False) as fh:
        fh.write(script)
        path = fh.name
    try:
        if solver == "z3":
            cmd = [Z3, "-T:%d" % int(timeout), path]
        elif solver == "z3new":
            cmd = [Z3NEW, "-T:%d" % int(timeout), path]
        elif solver == "cvc5":
            cmd = [CVC5, "--lang", "smt2", "--tlimit=%d" % int(timeout * 1000), "--produce-models"] \
                  + list(extra) + [path]
        elif solver == "cvc5int":
            cmd = [CVC5, "--lang", "smt2", "--tlimit=%d" % int(timeout * 1000), "--produce-models",
                   "--solve-bv-as-int=sum"] + list(extra) + [path]
        else:
            raise ValueError(solver)
        try:
            p = subprocess.run(cmd, stdout=subprocess.PIPE, stderr=subprocess.STDOUT, text=True,
                               timeout=timeout + 10)
            out = p.stdout
        except subprocess.TimeoutExpired:
            return "timeout", "", time.time() - t0
    finally:
        try:
            os.unlink(path)
        except OSError:
            pass
    dt = time.time() - t0
    first = out.strip().split("\n")[0].strip() if out.strip() else ""
    errs = [l for l in out.split("\n") if "(error" in l and "model is not available" not in l]
    if errs and first not in ("sat",):
        # an error line makes the answer unusable
        if first == "unsat" or first == "unknown" or first == "":
            return "error", out[:2000], dt
    if first == "unsat":
        return "unsat", "", dt
    if first == "sat":
        return "sat", out, dt
    if first == "timeout" or "timeout" in first:
        return "timeout", out[:500], dt
    if first == "unknown":
        return "unknown", out[:500], dt
    return "error", out[:2000], dt


def parse_model(text):
    """parse (get-value) output for BV and Int constants -> dict name->int"""
    import re
    m = {}
    for name, val in re.findall(r"\(\s*(\|[^|]*\||[^\s()]+)\s+(#x[0-9a-fA-F]+|#b[01]+|\(_ bv\d+ \d+\)|\(- \d+\)|\d+)\s*\)", text):
        name = name.strip("|")
        if val.startswith("#x"):
            v = int(val[2:], 16)
        elif val.startswith("#b"):
            v = int(val[2:], 2)
        elif val.startswith("(_ bv"):
            v = int(val.split()[1][2:])
        elif val.startswith("(-"):
            v = -int(val[2:-1].strip())
        else:
            v = int(val)
        m[name] = v
    return m


def bv_check(goal_terms_nonzero=None, asserts=None, assumptions=(), timeout=60, solver="z3"):
    """Convenience: ask whether any of the 1-bit terms in goal list can be 1
    (i.e. a violation).  Returns (verdict, model, seconds)."""
    raise NotImplementedError
