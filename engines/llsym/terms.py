"""Hash-consed bit-vector term DAG with constant folding, light
simplification, concrete evaluation, and conservative interval / known-zero
analysis.  Concrete values are plain Python ints (always reduced mod 2^w by
the caller's width); symbolic values are Term objects."""

import itertools

_table = {}
_counter = itertools.count(1)

COMMUT = {"add", "mul", "and", "or", "xor", "eq", "ne", "clmul"}

# (C17) shallow flattening of nested additions in t_addn.  Sweeping with cut
# points needs every addition of the IR to stay a node of its own, so the
# hash-function proofs switch it off for the duration of a run.
ADD_FLATTEN = True


def mask(w):
    return (1 << w) - 1


def to_signed(v, w):
    return v - (1 << w) if v >> (w - 1) else v


class Term:
    __slots__ = ("op", "args", "w", "id", "lo", "hi", "zmask", "aux")

    def __repr__(self):
        return "t%d:%s/%d" % (self.id, self.op, self.w)


def is_term(x):
    return isinstance(x, Term)


def reset():
    _table.clear()


def nterms():
    return len(_table)


def _mk(op, args, w, aux=None):
    key = (op, tuple(a.id if isinstance(a, Term) else ("c", a) for a in args), w, aux)
    t = _table.get(key)
    if t is not None:
        return t
    t = Term()
    t.op, t.args, t.w, t.aux = op, tuple(args), w, aux
    t.id = next(_counter)
    _bounds(t)
    _table[key] = t
    return t


def _iv(x, w):
    if isinstance(x, Term):
        return x.lo, x.hi, x.zmask
    return x, x, (~x) & mask(max(w, 1))


def _bounds(t):
    """unsigned interval [lo,hi] and mask of bits known to be zero"""
    w, op, a = t.w, t.op, t.args
    M = mask(w)
    lo, hi, z = 0, M, 0
    if op == "var":
        if t.aux and len(t.aux) == 3:
            lo, hi = t.aux[1], t.aux[2]
    elif op == "add":
        l = sum(_iv(x, w)[0] for x in a)
        h = sum(_iv(x, w)[1] for x in a)
        if h <= M:
            lo, hi = l, h
        zz = M
        for x in a:
            zz &= _iv(x, w)[2]
        # common trailing known-zero bits survive addition
        tz = 0
        while tz < w and (zz >> tz) & 1:
            tz += 1
        z = mask(tz)
    elif op == "sub":
        l0, h0, _ = _iv(a[0], w)
        l1, h1, _ = _iv(a[1], w)
        if l0 >= h1:
            lo, hi = l0 - h1, h0 - l1
        elif h0 < l1:
            # always wraps exactly once
            lo, hi = l0 - h1 + M + 1, h0 - l1 + M + 1
    elif op == "mul":
        l0, h0, z0 = _iv(a[0], w)
        l1, h1, z1 = _iv(a[1], w)
        if h0 * h1 <= M:
            lo, hi = l0 * l1, h0 * h1
        tz = 0
        while tz < w and (z0 >> tz) & 1:
            tz += 1
        tz2 = 0
        while tz2 < w and (z1 >> tz2) & 1:
            tz2 += 1
        z = mask(min(w, tz + tz2))
    elif op == "and":
        l0, h0, z0 = _iv(a[0], w)
        l1, h1, z1 = _iv(a[1], w)
        z = (z0 | z1) & M
        hi = min(h0, h1, M & ~z)
    elif op in ("or", "xor"):
        l0, h0, z0 = _iv(a[0], w)
        l1, h1, z1 = _iv(a[1], w)
        z = z0 & z1 & M
        hi = min(M & ~z, mask(max(h0.bit_length(), h1.bit_length())))
        if op == "or":
            lo = max(l0, l1)
    elif op == "shl":
        l0, h0, z0 = _iv(a[0], w)
        if not isinstance(a[1], Term):
            k = a[1]
            z = ((z0 << k) | mask(k)) & M
            if (h0 << k) <= M:
                lo, hi = l0 << k, h0 << k
            else:
                hi = M & ~z
    elif op == "lshr":
        l0, h0, z0 = _iv(a[0], w)
        if not isinstance(a[1], Term):
            k = a[1]
            lo, hi = l0 >> k, h0 >> k
            z = ((z0 >> k) | (M & ~(M >> k))) & M
        else:
            hi = h0
    elif op == "zext":
        l0, h0, z0 = _iv(a[0], a[0].w)
        lo, hi = l0, h0
        z = (z0 | (M & ~mask(a[0].w))) & M
    elif op == "trunc":
        l0, h0, z0 = _iv(a[0], a[0].w)
        if h0 <= M:
            lo, hi = l0, h0
        z = z0 & M
    elif op == "extract":
        x, k = a
        l0, h0, z0 = _iv(x, x.w)
        z = (z0 >> k) & M
        if (h0 >> k) <= M:
            lo, hi = l0 >> k, h0 >> k
        hi = min(hi, M & ~z)
    elif op == "concat":
        lh, hh, zh = _iv(a[0], 0)
        ll, hl, zl = _iv(a[1], 0)
        wl = a[1].w if isinstance(a[1], Term) else t.aux
        lo, hi = (lh << wl) + ll, (hh << wl) + hl
        z = ((zh << wl) | zl) & M
    elif op == "ite":
        l0, h0, z0 = _iv(a[1], w)
        l1, h1, z1 = _iv(a[2], w)
        lo, hi, z = min(l0, l1), max(h0, h1), z0 & z1
    elif op in ("udiv",):
        l0, h0, z0 = _iv(a[0], w)
        hi = h0
    elif op in ("urem",):
        l1, h1, z1 = _iv(a[1], w)
        if h1 > 0:
            hi = h1 - 1
    elif op in ("umin",):
        hi = min(_iv(a[0], w)[1], _iv(a[1], w)[1])
    elif op in ("ctlz", "cttz", "ctpop"):
        hi = w
    elif op == "sext":
        pass
    if z:
        hi = min(hi, M & ~z)
    if lo > hi:
        lo = 0
    t.lo, t.hi, t.zmask = lo, hi, z


# ---------------------------------------------------------------- builders

def var(name, w, lo=None, hi=None):
    aux = (name,) if lo is None else (name, lo, hi)
    return _mk("var", (), w, aux)


def const(v, w):
    return v & mask(w)


def _c(x):
    return not isinstance(x, Term)


def t_add(a, b, w):
    return t_addn([a, b], w)


def t_addn(xs, w):
    M = mask(w)
    c = 0
    terms = []
    for x in xs:
        if _c(x):
            c = (c + x) & M
        elif ADD_FLATTEN and x.op == "add" and len(x.args) <= 3 and len(terms) <= 6:
            # shallow flattening only: unbounded flattening is exponential on
            # recurrences such as the SHA-2 message schedule
            for y in x.args:
                if _c(y):
                    c = (c + y) & M
                else:
                    terms.append(y)
        else:
            terms.append(x)
    if not terms:
        return c
    terms.sort(key=lambda t: t.id)
    if c:
        terms.append(c)
    if len(terms) == 1:
        return terms[0]
    return _mk("add", terms, w)


def t_sub(a, b, w):
    M = mask(w)
    if _c(a) and _c(b):
        return (a - b) & M
    if _c(b):
        return t_add(a, (-b) & M, w)
    if a is b:
        return 0
    return _mk("sub", (a, b), w)


def t_mul(a, b, w):
    M = mask(w)
    if _c(a) and _c(b):
        return (a * b) & M
    if _c(a):
        a, b = b, a
    if _c(b):
        if b == 0:
            return 0
        if b == 1:
            return a
        return _mk("mul", (a, b), w)
    if a.id > b.id:
        a, b = b, a
    return _mk("mul", (a, b), w)


def t_and(a, b, w):
    M = mask(w)
    if _c(a) and _c(b):
        return a & b
    if _c(a):
        a, b = b, a
    if _c(b):
        b &= M
        if b == 0:
            return 0
        if b == M:
            return a
        # bits of b outside the possibly-set bits of a are irrelevant
        if (b | a.zmask) & M == M:
            return a
        if a.op == "and" and _c(a.args[1]):
            return t_and(a.args[0], a.args[1] & b, w)
        # low mask of a zext / narrow value
        if b == mask(b.bit_length()) and a.hi <= b:
            return a
        return _mk("and", (a, b), w)
    if a is b:
        return a
    if a.id > b.id:
        a, b = b, a
    return _mk("and", (a, b), w)


def t_or(a, b, w):
    M = mask(w)
    if _c(a) and _c(b):
        return a | b
    if _c(a):
        a, b = b, a
    if _c(b):
        b &= M
        if b == 0:
            return a
        if b == M:
            return M
        return _mk("or", (a, b), w)
    if a is b:
        return a
    if a.id > b.id:
        a, b = b, a
    return _mk("or", (a, b), w)


def t_xor(a, b, w):
    M = mask(w)
    if _c(a) and _c(b):
        return a ^ b
    if _c(a):
        a, b = b, a
    if _c(b):
        b &= M
        if b == 0:
            return a
        if a.op == "xor" and _c(a.args[1]):
            return t_xor(a.args[0], a.args[1] ^ b, w)
        return _mk("xor", (a, b), w)
    if a is b:
        return 0
    # x ^ (x ^ y) -> y
    for p, q in ((a, b), (b, a)):
        if p.op == "xor" and not _c(p.args[1]):
            if p.args[0] is q:
                return p.args[1]
            if p.args[1] is q:
                return p.args[0]
    if a.id > b.id:
        a, b = b, a
    return _mk("xor", (a, b), w)


def t_not(a, w):
    return t_xor(a, mask(w), w)


def t_shl(a, k, w):
    if _c(a) and _c(k):
        return (a << k) & mask(w) if k < w else 0
    if _c(k):
        if k == 0:
            return a
        if k >= w:
            return 0
    return _mk("shl", (a, k), w)


def t_lshr(a, k, w):
    if _c(a) and _c(k):
        return a >> k if k < w else 0
    if _c(k):
        if k == 0:
            return a
        if k >= w:
            return 0
        if a.hi >> k == 0:
            return 0
        if a.op == "lshr" and _c(a.args[1]):
            return t_lshr(a.args[0], a.args[1] + k, w)
    return _mk("lshr", (a, k), w)


def t_ashr(a, k, w):
    if _c(a) and _c(k):
        return (to_signed(a, w) >> min(k, w - 1)) & mask(w)
    if _c(k):
        if k == 0:
            return a
        if not _c(a) and a.hi < (1 << (w - 1)):
            return t_lshr(a, k, w)
        if not _c(a) and a.lo >= (1 << (w - 1)) and k >= w - 1:
            return mask(w)
    return _mk("ashr", (a, k), w)


def t_zext(a, w):
    if _c(a):
        return a
    if a.w == w:
        return a
    if a.op == "zext":
        return t_zext(a.args[0], w)
    return _mk("zext", (a,), w)


def t_sext(a, wa, w):
    if _c(a):
        return to_signed(a, wa) & mask(w)
    if wa == w:
        return a
    if a.hi < (1 << (wa - 1)):
        return t_zext(a, w)
    return _mk("sext", (a,), w)


def t_trunc(a, w):
    if _c(a):
        return a & mask(w)
    if a.w == w:
        return a
    return t_extract(a, 0, w)


def t_extract(a, lo, w):
    """bits [lo, lo+w) of a"""
    if _c(a):
        return (a >> lo) & mask(w)
    if lo == 0 and w == a.w:
        return a
    assert lo + w <= a.w, (a, lo, w)
    if a.op in ("zext", "sext"):
        x = a.args[0]
        if lo + w <= x.w:
            return t_extract(x, lo, w)
        if a.op == "zext" and lo >= x.w:
            return 0
        if a.op == "zext" and lo == 0:
            return t_zext(x, w)
    if a.op == "extract":
        return t_extract(a.args[0], a.args[1] + lo, w)
    if a.op == "concat":
        hi_t, lo_t = a.args
        wl = lo_t.w if isinstance(lo_t, Term) else a.aux
        if lo + w <= wl:
            return t_extract(lo_t, lo, w)
        if lo >= wl:
            return t_extract(hi_t, lo - wl, w)
    if a.op == "lshr" and _c(a.args[1]):
        k = a.args[1]
        if lo + k + w <= a.w:
            return t_extract(a.args[0], lo + k, w)
    if a.op == "shl" and _c(a.args[1]):
        k = a.args[1]
        if lo >= k:
            return t_extract(a.args[0], lo - k, w)
        if lo + w <= k:
            return 0
    if a.op in ("and", "or", "xor") and lo == 0 and False:
        pass
    if (a.hi >> lo) == 0:
        return 0
    if lo == 0:
        # canonical truncation form; low bits of add/sub/mul/and/or/xor
        # distribute, which keeps carry chains narrow
        if a.op in ("and", "or", "xor"):
            f = {"and": t_and, "or": t_or, "xor": t_xor}[a.op]
            return f(t_extract(a.args[0], 0, w), t_extract(a.args[1], 0, w), w)
    return _mk("extract", (a, lo), w)


def t_concat(hi, lo, whi, wlo):
    if _c(hi) and _c(lo):
        return (hi << wlo) | lo
    w = whi + wlo
    if _c(hi) and hi == 0:
        return t_zext(lo, w)
    # adjacent extracts of the same term
    if (not _c(hi)) and (not _c(lo)):
        if hi.op == "extract" and lo.op == "extract" and hi.args[0] is lo.args[0] \
                and hi.args[1] == lo.args[1] + wlo:
            return t_extract(hi.args[0], lo.args[1], w)
        if hi.op == "extract" and hi.args[0] is lo and hi.args[1] == wlo:
            return t_extract(lo, 0, w) if w <= lo.w else _mk("concat", (hi, lo), w, wlo)
    if (not _c(hi)) and hi.op == "extract" and (not _c(lo)) and lo.op == "zext":
        pass
    return _mk("concat", (hi, lo), w, wlo)


def t_ite(c, a, b, w):
    if _c(c):
        return a if c & 1 else b
    if _c(a) and _c(b) and a == b:
        return a
    if a is b:
        return a
    if w == 1 and _c(a) and _c(b):
        if a == 1 and b == 0:
            return c
        if a == 0 and b == 1:
            return t_xor(c, 1, 1)
    return _mk("ite", (c, a, b), w)


_NEG = {"eq": "ne", "ne": "eq", "ult": "uge", "uge": "ult", "ule": "ugt", "ugt": "ule",
        "slt": "sge", "sge": "slt", "sle": "sgt", "sgt": "sle"}


def _cmp_c(pred, a, b, w):
    sa, sb = to_signed(a, w), to_signed(b, w)
    return int({"eq": a == b, "ne": a != b, "ult": a < b, "ule": a <= b, "ugt": a > b,
                "uge": a >= b, "slt": sa < sb, "sle": sa <= sb, "sgt": sa > sb,
                "sge": sa >= sb}[pred])


def t_icmp(pred, a, b, w):
    if _c(a) and _c(b):
        return _cmp_c(pred, a, b, w)
    if a is b:
        return int(pred in ("eq", "ule", "uge", "sle", "sge"))
    # interval decisions (unsigned)
    la, ha = (a, a) if _c(a) else (a.lo, a.hi)
    lb, hb = (b, b) if _c(b) else (b.lo, b.hi)
    if pred == "ult":
        if ha < lb:
            return 1
        if la >= hb:
            return 0
    if pred == "ule":
        if ha <= lb:
            return 1
        if la > hb:
            return 0
    if pred == "ugt":
        if la > hb:
            return 1
        if ha <= lb:
            return 0
    if pred == "uge":
        if la >= hb:
            return 1
        if ha < lb:
            return 0
    if pred in ("eq", "ne"):
        if ha < lb or hb < la:
            return int(pred == "ne")
    half = 1 << (w - 1)
    if pred in ("slt", "sle", "sgt", "sge") and ha < half and hb < half:
        return t_icmp({"slt": "ult", "sle": "ule", "sgt": "ugt", "sge": "uge"}[pred], a, b, w)
    # ne(bool,0) -> bool
    if w == 1 and _c(b):
        if (pred == "ne" and b == 0) or (pred == "eq" and b == 1):
            return a
        if (pred == "eq" and b == 0) or (pred == "ne" and b == 1):
            return t_xor(a, 1, 1)
    if pred in ("eq", "ne") and _c(b) and b == 0 and (not _c(a)) and a.op == "zext":
        return t_icmp(pred, a.args[0], 0, a.args[0].w)
    if pred in ("eq", "ne"):
        if _c(a):
            a, b = b, a
        elif not _c(b) and a.id > b.id:
            a, b = b, a
    return _mk(pred, (a, b), 1, w)


def t_unop(op, a, w):
    if _c(a):
        return _unop_c(op, a, w)
    return _mk(op, (a,), w)


def _unop_c(op, a, w):
    if op == "bswap":
        return int.from_bytes(a.to_bytes(w // 8, "little"), "big")
    if op == "bitreverse":
        return int(format(a, "0%db" % w)[::-1], 2)
    if op == "ctpop":
        return bin(a).count("1")
    if op == "ctlz":
        return w - a.bit_length()
    if op == "cttz":
        return w if a == 0 else (a & -a).bit_length() - 1
    raise ValueError(op)


def t_bswap(a, w):
    if _c(a):
        return _unop_c("bswap", a, w)
    n = w // 8
    parts = [t_extract(a, 8 * i, 8) for i in range(n)]   # parts[0] = lowest byte
    # result: lowest byte of input becomes highest
    r = parts[n - 1]
    wr = 8
    for i in range(n - 2, -1, -1):
        r = t_concat(parts[i], r, 8, wr)
        wr += 8
    return r


def t_binop(op, a, b, w):
    """udiv urem umin umax smin smax clmul"""
    if _c(a) and _c(b):
        if op == "udiv":
            return a // b
        if op == "urem":
            return a % b
        if op == "umin":
            return min(a, b)
        if op == "umax":
            return max(a, b)
        if op == "smin":
            return min(to_signed(a, w), to_signed(b, w)) & mask(w)
        if op == "smax":
            return max(to_signed(a, w), to_signed(b, w)) & mask(w)
        if op == "clmul":
            r = 0
            i = 0
            while b >> i:
                if (b >> i) & 1:
                    r ^= a << i
                i += 1
            return r & mask(w)
    if op in ("umin", "umax", "smin", "smax"):
        p = {"umin": "ult", "umax": "ugt", "smin": "slt", "smax": "sgt"}[op]
        return t_ite(t_icmp(p, a, b, w), a, b, w)
    return _mk(op, (a, b), w)


def t_fsh(left, a, b, k, w):
    """funnel shift: concat(a,b) shifted"""
    if _c(k):
        k %= w
        if k == 0:
            return a if left else b
        if left:
            return t_or(t_shl(a, k, w), t_lshr(b, w - k, w), w)
        return t_or(t_shl(a, w - k, w), t_lshr(b, k, w), w)
    raise NotImplementedError("symbolic funnel shift amount")


# ---------------------------------------------------------------- evaluation

def evaluate(roots, env):
    """Concrete evaluation of a list of terms/ints under env: var name -> int.
    Returns list of ints.  Iterative (DAGs can be deep)."""
    memo = {}
    out = []
    for r in roots:
        out.append(_eval(r, env, memo))
    return out


def _eval(root, env, memo):
    if not isinstance(root, Term):
        return root
    stack = [root]
    while stack:
        t = stack[-1]
        if t.id in memo:
            stack.pop()
            continue
        pend = [a for a in t.args if isinstance(a, Term) and a.id not in memo]
        if pend:
            stack.extend(pend)
            continue
        stack.pop()
        vals = [memo[a.id] if isinstance(a, Term) else a for a in t.args]
        memo[t.id] = _apply(t, vals, env)
    return memo[root.id]


def _apply(t, v, env):
    op, w = t.op, t.w
    M = mask(w)
    if op == "var":
        return env[t.aux[0]] & M
    if op == "add":
        return sum(v) & M
    if op == "sub":
        return (v[0] - v[1]) & M
    if op == "mul":
        return (v[0] * v[1]) & M
    if op == "and":
        return v[0] & v[1]
    if op == "or":
        return v[0] | v[1]
    if op == "xor":
        return v[0] ^ v[1]
    if op == "shl":
        return (v[0] << v[1]) & M if v[1] < w else 0
    if op == "lshr":
        return v[0] >> v[1] if v[1] < w else 0
    if op == "ashr":
        return (to_signed(v[0], w) >> min(v[1], w - 1)) & M
    if op == "zext":
        return v[0]
    if op == "sext":
        return to_signed(v[0], t.args[0].w) & M
    if op == "extract":
        return (v[0] >> v[1]) & M
    if op == "concat":
        wl = t.args[1].w if isinstance(t.args[1], Term) else t.aux
        return (v[0] << wl) | v[1]
    if op == "ite":
        return v[1] if v[0] & 1 else v[2]
    if op in _NEG:
        return _cmp_c(op, v[0], v[1], t.aux)
    if op in ("bswap", "bitreverse", "ctpop", "ctlz", "cttz"):
        return _unop_c(op, v[0], w)
    if op in ("udiv", "urem", "umin", "umax", "smin", "smax", "clmul"):
        if op in ("udiv", "urem") and v[1] == 0:
            raise ZeroDivisionError
        return t_binop(op, v[0], v[1], w)
    if op == "uf":
        f = UF_IMPL.get(t.aux[0])
        if f is None:
            raise ValueError("eval: uninterpreted function %s has no registered interpretation" % t.aux[0])
        return f(t.aux[1], tuple(v)) & M
    raise ValueError("eval: " + op)


def topo(roots):
    """terms reachable from roots in dependency order"""
    seen = set()
    order = []
    for r in roots:
        if not isinstance(r, Term) or r.id in seen:
            continue
        stack = [(r, 0)]
        while stack:
            t, st = stack.pop()
            if st == 0:
                if t.id in seen:
                    continue
                seen.add(t.id)
                stack.append((t, 1))
                for a in t.args:
                    if isinstance(a, Term) and a.id not in seen:
                        stack.append((a, 0))
            else:
                order.append(t)
    return order


def variables(roots):
    return [t for t in topo(roots) if t.op == "var"]


# ---------------------------------------------------------------- uninterpreted functions
# (added for C17) An application of an uninterpreted function family `name`,
# output component `idx`, to a fixed-arity argument list.  Hash-consing gives
# functional consistency for syntactically identical arguments; the SMT
# emitter declares one function symbol per (name, idx, argument widths) so a
# solver adds congruence for the rest.  `evaluate` uses UF_IMPL[name](idx,
# argument values) when an interpretation has been registered.

UF_IMPL = {}


def t_uf(name, idx, args, widths, w):
    """args: ints/Terms; widths: their bit widths (same length)"""
    assert len(args) == len(widths)
    if all(_c(a) for a in args) and name in UF_IMPL and UF_FOLD.get(name):
        return UF_IMPL[name](idx, tuple(args)) & mask(w)
    return _mk("uf", tuple(args), w, (name, idx, tuple(widths)))


UF_FOLD = {}


def substitute_raw(roots, mapping):
    """(C17) Like `substitute` below, but nodes are rebuilt with the raw
    constructor (`_rebuild`: no re-simplification, only canonical operand
    order), so the shape of the DAG is preserved exactly.  `mapping`: term id
    -> replacement (int or Term of the same width), not descended into.
    Returns the list of new roots."""
    memo = {}

    def get(x):
        if not isinstance(x, Term):
            return x
        return memo[x.id]
    for t in topo([r for r in roots if isinstance(r, Term)]):
        if t.id in mapping:
            memo[t.id] = mapping[t.id]
            continue
        if not t.args:
            memo[t.id] = t
            continue
        na = tuple(get(a) for a in t.args)
        if all(x is y for x, y in zip(na, t.args)):
            memo[t.id] = t
        else:
            memo[t.id] = _rebuild(t, na)
    return [get(r) for r in roots]


def _rebuild(t, na):
    """same operator applied to new arguments; constant-folds when every
    argument became constant (by concrete evaluation of the one node)"""
    if all(_c(a) for a in na) and t.op != "uf":
        return _apply(t, list(na), {})
    if t.op in ("add", "mul", "and", "or", "xor"):
        # canonical operand order (terms by id, one merged constant last) so that
        # nodes that became equal after the substitution are shared again
        cs = [a for a in na if _c(a)]
        ts = sorted((a for a in na if not _c(a)), key=lambda x: x.id)
        if len(cs) > 1 or (cs and _c(na[0])):
            f = {"add": lambda x, y: (x + y), "mul": lambda x, y: x * y, "and": lambda x, y: x & y,
                 "or": lambda x, y: x | y, "xor": lambda x, y: x ^ y}[t.op]
            c = cs[0]
            for x in cs[1:]:
                c = f(c, x)
            cs = [c & mask(t.w)]
        na = tuple(ts) + tuple(cs)
    return _mk(t.op, na, t.w, t.aux)


_REBUILD = None


def rebuild(op, args, w, aux):
    """re-create a term through the simplifying constructors"""
    a = args
    if op == "add":
        return t_addn(list(a), w)
    if op == "sub":
        return t_sub(a[0], a[1], w)
    if op == "mul":
        return t_mul(a[0], a[1], w)
    if op == "and":
        return t_and(a[0], a[1], w)
    if op == "or":
        return t_or(a[0], a[1], w)
    if op == "xor":
        return t_xor(a[0], a[1], w)
    if op == "shl":
        return t_shl(a[0], a[1], w) if _c(a[1]) else _mk(op, a, w, aux)
    if op == "lshr":
        return t_lshr(a[0], a[1], w) if _c(a[1]) else _mk(op, a, w, aux)
    if op == "ashr":
        return t_ashr(a[0], a[1], w) if _c(a[1]) else _mk(op, a, w, aux)
    if op == "zext":
        return t_zext(a[0], w)
    if op == "extract":
        return t_extract(a[0], a[1], w)
    if op == "ite":
        return t_ite(a[0], a[1], a[2], w)
    if op in _NEG:
        return t_icmp(op, a[0], a[1], aux)
    if all(_c(x) for x in a):
        return _apply(_mk(op, a, w, aux), list(a), {})
    return _mk(op, a, w, aux)


def cut(root, depth, prefix="cut"):
    """over-approximation of a term: sub-terms deeper than `depth` below the
    root are replaced by fresh unconstrained variables (same width)."""
    if not isinstance(root, Term):
        return root
    memo = {}

    def go(t, d):
        if not isinstance(t, Term):
            return t
        key = (t.id, d <= 0)
        if t.op == "var":
            return t
        if d <= 0:
            r = memo.get(("v", t.id))
            if r is None:
                r = var("%s_%d" % (prefix, t.id), t.w)
                memo[("v", t.id)] = r
            return r
        r = memo.get((t.id, d))
        if r is None:
            r = rebuild(t.op, tuple(go(x, d - 1) for x in t.args), t.w, t.aux)
            memo[(t.id, d)] = r
        return r
    import sys
    old = sys.getrecursionlimit()
    sys.setrecursionlimit(max(old, 10000))
    try:
        return go(root, depth)
    finally:
        sys.setrecursionlimit(old)


def substitute(roots, mapping):
    """rebuild terms with the sub-terms whose id is in `mapping` replaced
    (cut points).  Iterative; returns list."""
    memo = dict(mapping)
    out = []
    for r in roots:
        if not isinstance(r, Term):
            out.append(r)
            continue
        for t in topo([r]):
            if t.id in memo:
                continue
            if t.op == "var":
                memo[t.id] = t
                continue
            args = tuple(memo[a.id] if isinstance(a, Term) else a for a in t.args)
            if all((x is y) or (not isinstance(x, Term) and x == y) for x, y in zip(args, t.args)):
                memo[t.id] = t
            else:
                memo[t.id] = rebuild(t.op, args, t.w, t.aux)
        out.append(memo[r.id])
    return out


def evaluate_all(roots, env):
    """concrete value of every node reachable from roots: dict id -> int"""
    memo = {}
    for r in roots:
        _eval(r, env, memo)
    return memo


def find_by_values(roots, envs, targets):
    """locate DAG nodes by their concrete values: targets = list of tuples
    (one value per env).  returns list of Term or None"""
    memos = [evaluate_all(roots, e) for e in envs]
    index = {}
    for t in topo(roots):
        sig = tuple(m[t.id] for m in memos)
        index.setdefault((t.w, sig), t)
    res = []
    for w, sig in targets:
        res.append(index.get((w, tuple(sig))))
    return res


def cut_multi(roots, depth, prefix="cut"):
    """consistent over-approximation of several terms: a node is kept iff its
    minimum distance from any of the roots is <= depth; all other nodes become
    fresh variables (one per node, shared by all roots)."""
    dist = {}
    from collections import deque
    dq = deque()
    for r in roots:
        if isinstance(r, Term) and r.id not in dist:
            dist[r.id] = 0
            dq.append(r)
    nodes = {}
    while dq:
        t = dq.popleft()
        nodes[t.id] = t
        d = dist[t.id]
        if d >= depth:
            continue
        for a in t.args:
            if isinstance(a, Term) and a.id not in dist:
                dist[a.id] = d + 1
                dq.append(a)
    memo = {}

    def build(t):
        if not isinstance(t, Term):
            return t
        r = memo.get(t.id)
        if r is not None:
            return r
        if t.op == "var":
            memo[t.id] = t
            return t
        if t.id not in dist or (dist[t.id] >= depth and t.id not in roots_ids):
            r = var("%s_%d" % (prefix, t.id), t.w)
        else:
            r = rebuild(t.op, tuple(build(a) for a in t.args), t.w, t.aux)
        memo[t.id] = r
        return r
    roots_ids = set(r.id for r in roots if isinstance(r, Term))
    import sys
    old = sys.getrecursionlimit()
    sys.setrecursionlimit(max(old, 20000))
    try:
        return [build(r) for r in roots]
    finally:
        sys.setrecursionlimit(old)
