"""Engine P (polyid): MIR text -> abstract-ring execution -> polynomial
identities decided by z3 (sympy supplies untrusted certificates)."""
