"""Algorithm mode of the MIR interpreter (DESIGN.md section 2.4).

Scalar-multiplication *routines* are executed over the free module: a group
element is a linear form  sum_g c_g * g  over named generators (the input
point P, the conventional generator B, and their images under the
endomorphism: (g, 1) stands for mu*g) whose coefficients are z3 integer
terms over symbolic digits.  The point-level operations are intercepted by
name and act on linear forms (their being the group law is C03); lookups,
recoders and scalar splits are replaced by their contracts (C20 / C04(a) /
C11); everything else -- window construction, loop schedules, index
arithmetic, sign fix-ups on digits -- is executed from the real MIR, with
machine integers that depend on digits carried as z3 bit-vector terms.

The coordinates of an abstract point are opaque tokens `Coord(lin, i)`: they
may be copied, stored in arrays and re-assembled into a struct (only in
their original positions); any field operation on a token aborts the run
(`NotAbstractable`), never guessed."""
import re

import z3

from . import terms as R
from .interp import (Interp, Agg, Variant, Cell, Ref, IntV, BoolV, MaskV, UNIT, Unsupported, MirError,
                     Callee, short_type, strip_generics, int_type, clone)
from .mirparse import split_top


class NotAbstractable(Unsupported):
    pass


class ConstCell(Cell):
    """storage of an immutable static (precomputed table): shared between forked paths"""
    __slots__ = ()

    def __deepcopy__(self, memo):
        return self


class PathEnd(Exception):
    """the current symbolic path is finished (cut at a loop head) or infeasible"""


class PendLin:
    """the accumulator of a coalesced-doubling loop at a cut: the element whose
    product by 2^N is W (N the symbolic number of pending doublings).  Only
    `set_xdouble(N + c)` can consume it (giving W * 2^c)."""
    __slots__ = ("W", "N")

    def __init__(self, W, N):
        self.W, self.N = W, N


# --------------------------------------------------------------------------
# symbolic machine integers

class SymV:
    """machine integer depending on symbolic digits: z3 bit-vector term `e`,
    optionally with an integer view `iv` (z3 Int term equal to its value)"""
    __slots__ = ("e", "bits", "signed", "iv", "z")

    def __init__(self, e, bits, signed, iv=None, z=None):
        self.e, self.bits, self.signed, self.iv = e, bits, signed, iv
        # z: Boolean term equivalent to `value == 0` (kept through extensions and `|`;
        # the two bit-vector facts used are proved once by z3, see bv_lemmas())
        self.z = z if z is not None else ((iv == 0) if iv is not None else None)

    def __repr__(self):
        return "Sym%s%d(%s)" % ("i" if self.signed else "u", self.bits, str(self.e)[:60])

    def as_int(self):
        if self.iv is not None:
            return self.iv
        return z3.BV2Int(self.e, is_signed=self.signed)

    def __deepcopy__(self, memo):
        return self


class SymB:
    __slots__ = ("e",)

    def __init__(self, e):
        self.e = e

    def __deepcopy__(self, memo):
        return self


def bv(x, bits=None):
    if isinstance(x, SymV):
        return x.e
    if isinstance(x, IntV):
        return z3.BitVecVal(x.v, bits or x.bits)
    raise NotAbstractable("not an integer: %r" % (x,))


# --------------------------------------------------------------------------
# linear forms

def _simp(x):
    return x


class Lin:
    """sum over generators (name, mu-power in {0,1}) of integer terms"""
    __slots__ = ("c",)

    def __init__(self, c=None):
        self.c = dict(c or {})

    @staticmethod
    def gen(name):
        return Lin({(name, 0): 1})

    def keys(self):
        return self.c.keys()

    def get(self, k):
        return self.c.get(k, 0)

    def __add__(self, o):
        r = dict(self.c)
        for k, v in o.c.items():
            r[k] = r.get(k, 0) + v
        return Lin(r)

    def __sub__(self, o):
        r = dict(self.c)
        for k, v in o.c.items():
            r[k] = r.get(k, 0) - v
        return Lin(r)

    def __neg__(self):
        return Lin({k: -v for k, v in self.c.items()})

    def scale(self, n):
        return Lin({k: v * n for k, v in self.c.items()})

    @staticmethod
    def ite(cond, a, b):
        if cond is True or (z3.is_bool(cond) and z3.is_true(cond)):
            return a
        if cond is False or (z3.is_bool(cond) and z3.is_false(cond)):
            return b
        r = {}
        for k in set(a.c) | set(b.c):
            x, y = a.c.get(k, 0), b.c.get(k, 0)
            if isinstance(x, int) and isinstance(y, int) and x == y:
                r[k] = x
            else:
                r[k] = z3.If(cond, _iv(x), _iv(y))
        return Lin(r)

    def endo(self, rel):
        """apply the endomorphism mu; rel = (p, q) with mu^2 = p + q*mu"""
        p, q = rel
        r = {}
        for (g, e), v in self.c.items():
            if e == 0:
                r[(g, 1)] = r.get((g, 1), 0) + v
            else:
                r[(g, 0)] = r.get((g, 0), 0) + v * p
                r[(g, 1)] = r.get((g, 1), 0) + v * q
        return Lin(r)

    def __deepcopy__(self, memo):
        return self

    def __repr__(self):
        return "Lin(%s)" % ", ".join("%s%s:%s" % (g, "*mu" if e else "", str(v)[:40]) for (g, e), v in self.c.items())


def _iv(x):
    return z3.IntVal(x) if isinstance(x, int) else x


class Coord:
    """opaque coordinate i of the abstract element `lin` held in a struct of kind `kind`"""
    __slots__ = ("lin", "idx", "kind")

    def __init__(self, lin, idx, kind):
        self.lin, self.idx, self.kind = lin, idx, kind

    def __deepcopy__(self, memo):
        return self

    def __repr__(self):
        return "Coord(%s.%d)" % (self.kind, self.idx)


# --------------------------------------------------------------------------

def struct_fields(mir, module, ty):
    cache = mir.__dict__.setdefault("_struct_fields", {})
    key = (module, ty)
    if key in cache:
        return cache[key]
    pat = re.compile(r"= (?:%s::)?%s \{ (.*) \};" % (re.escape(module), re.escape(ty)))
    for nm, lst in mir.items.items():
        if not nm.startswith(module + "::"):
            continue
        for kind, s_, e_ in lst:
            for i in range(s_, e_ + 1):
                ln = mir.lines[i]
                if ty + " {" not in ln:
                    continue
                m = pat.search(ln)
                if m:
                    r = [p.split(": ", 1)[0] for p in split_top(m.group(1))]
                    cache[key] = r
                    return r
    raise KeyError("no aggregate of %s::%s in the MIR" % (module, ty))


class Config:
    """per-curve description of what is intercepted and with which contract"""

    def __init__(self, module, point="Point", affine=None, window_bits=5, endo=None,
                 endo_name="zeta", lookups=(), recoders=None, splits=None, tables=None, affine_rz=False,
                 naf_recoders=()):
        self.module = module
        self.point = point
        self.affine = affine              # name of the affine struct type (or None)
        self.window_bits = window_bits
        self.endo = endo                  # (p, q): mu^2 = p + q*mu, or None
        self.endo_name = endo_name
        self.lookups = set(lookups)
        self.recoders = recoders or {}    # name -> (ndigits, w, lo, hi, top_lo, top_hi)
        self.splits = splits or {}        # name -> contract id
        self.tables = tables or {}        # static short name -> (shift, 'all'|'odd')
        self.affine_rz = affine_rz
        self.naf_recoders = set(naf_recoders)


class AlgoInterp(Interp):
    def __init__(self, mir, cfg, **kw):
        Interp.__init__(self, mir, **kw)
        self.cfg = cfg
        self.assumptions = []      # z3 Bool: contracts of the replaced routines
        self.side = []             # (label, z3 Bool) conditions that must be implied
        self.digits = {}           # label -> list of SymV (as produced by recoders)
        self.scalars = {}          # label -> z3 Int (value of a scalar argument)
        self.splits_seen = []
        self.ops = {}              # intercepted operation counts
        self.fresh = 0
        self._arity = {}
        self.streams = []          # (digits, generator Lin) per NAF-recoded value
        self.scalar_gen = {}       # scalar token name -> Lin it multiplies
        self.int_gen = []          # (z3 Int var, Lin) for recoded integers (split halves, u128 arguments)
        self.path = []             # path condition (z3 Bool) of the path being executed
        self.pending_paths = []    # forked (frame, block, path condition)
        self.nforks = 0
        self.recoded = []          # scalar tokens handed to a recoder
        self.masks = []            # Boolean mask variables introduced by contracts
        self.lemmas = []           # (label, status, seconds) of solver-proved rewrite lemmas
        self._lemma_cache = {}

    # ------------------------------------------------------------------
    def arity(self, ty):
        if ty not in self._arity:
            self._arity[ty] = struct_fields(self.mir, self.cfg.module, ty)
        return self._arity[ty]

    def wrap(self, lin, ty=None):
        ty = ty or self.cfg.point
        names = self.arity(ty)
        kind = self.cfg.module + "::" + ty
        return Agg("struct", [Coord(lin, i, kind) for i in range(len(names))], kind, list(names))

    def as_lin(self, v, what="point", pending=False):
        if isinstance(v, Ref):
            v = v.get()
        if isinstance(v, Agg) and v.fields and all(isinstance(f, Coord) for f in v.fields):
            l0 = v.fields[0].lin
            k0 = v.fields[0].kind
            if all(f.lin is l0 and f.idx == i and f.kind == k0 for i, f in enumerate(v.fields)) and \
                    len(v.fields) == len(self.arity(k0.split("::")[-1])):
                if isinstance(l0, PendLin) and not pending:
                    raise NotAbstractable("operation on the accumulator before its pending doublings are applied")
                return l0
        raise NotAbstractable("%s is not an intact abstract element: %r" % (what, v))

    def coords_to_lin(self, toks, ty):
        """re-assemble coordinates stored in a flat array"""
        n = len(self.arity(ty))
        kind = self.cfg.module + "::" + ty
        if len(toks) != n or not all(isinstance(t, Coord) for t in toks):
            raise NotAbstractable("window entry is not a set of point coordinates")
        l0 = toks[0].lin
        if not all(t.lin is l0 and t.idx == i and t.kind == kind for i, t in enumerate(toks)):
            raise NotAbstractable("window entry mixes coordinates of different points")
        return l0

    def count(self, name):
        self.ops[name] = self.ops.get(name, 0) + 1

    def new_bv(self, name, bits):
        self.fresh += 1
        return z3.BitVec("%s" % name, bits)

    # ------------------------------------------------------------------
    # symbolic integers
    def cast_ext(self, v, ty, kind):
        it = int_type(ty)
        if isinstance(v, SymV) and it:
            bits, sg = it
            if bits == v.bits:
                return SymV(v.e, bits, sg, v.iv if sg == v.signed else None, v.z)
            if bits < v.bits:
                return SymV(z3.Extract(bits - 1, 0, v.e), bits, sg)
            ext = z3.SignExt if v.signed else z3.ZeroExt
            iv = v.iv if (sg == v.signed or not v.signed) else None
            if iv is None and v.iv is not None and v.signed and not sg:
                if not self.feasible(v.iv < 0):
                    iv = v.iv
            return SymV(ext(bits - v.bits, v.e), bits, sg, iv, v.z)
        if isinstance(v, SymB) and it:
            return SymV(z3.If(v.e, z3.BitVecVal(1, it[0]), z3.BitVecVal(0, it[0])), it[0], it[1])
        raise NotAbstractable("cast (%s, %s) of %r" % (ty, kind, v))

    def op_ext(self, op, a, b=None):
        if b is None:
            if isinstance(a, SymV):
                if op == "Not":
                    return SymV(~a.e, a.bits, a.signed)
                if op == "Neg":
                    iv = None
                    if a.iv is not None and a.signed:
                        iv = -a.iv
                        self.side.append(("negation does not overflow",
                                          self.under_path(a.iv > -(1 << (a.bits - 1)))))
                    return SymV(-a.e, a.bits, a.signed, iv)
            if isinstance(a, SymB) and op == "Not":
                return SymB(z3.Not(a.e))
            if isinstance(a, (Coord, Lin)):
                raise NotAbstractable("integer operation on an abstract value")
            return NotImplemented
        if isinstance(a, SymB) or isinstance(b, SymB):
            def be(x):
                if isinstance(x, SymB):
                    return x.e
                if isinstance(x, IntV):
                    return z3.BoolVal(bool(x.v))
                raise NotAbstractable("boolean operation on %r" % (x,))
            x, y = be(a), be(b)
            if op == "BitAnd":
                return SymB(z3.And(x, y))
            if op == "BitOr":
                return SymB(z3.Or(x, y))
            if op in ("BitXor", "Ne"):
                return SymB(z3.Xor(x, y))
            if op == "Eq":
                return SymB(x == y)
            raise NotAbstractable("boolean binop " + op)
        if not (isinstance(a, SymV) or isinstance(b, SymV)):
            return NotImplemented
        s = a if isinstance(a, SymV) else b
        bits, sg = (a.bits, a.signed) if isinstance(a, (SymV, IntV)) else (s.bits, s.signed)
        if op in ("Shl", "Shr", "ShlUnchecked", "ShrUnchecked"):
            # shift amount may have another width
            x = bv(a, bits)
            if isinstance(b, IntV):
                y = z3.BitVecVal(b.v % bits, bits)
            else:
                yb = b.e
                if b.bits < bits:
                    yb = z3.ZeroExt(bits - b.bits, yb)
                elif b.bits > bits:
                    yb = z3.Extract(bits - 1, 0, yb)
                y = yb & z3.BitVecVal(bits - 1, bits)
            if op.startswith("Shl"):
                return SymV(x << y, bits, sg)
            iv = None
            if isinstance(a, SymV) and a.iv is not None and not sg and isinstance(b, IntV):
                iv = a.iv / (1 << (b.v % bits))
            return SymV((x >> y) if sg else z3.LShR(x, y), bits, sg, iv)
        x, y = bv(a, bits), bv(b, bits)
        ia, ib = _ivof(a), _ivof(b)
        if ia is not None and ib is not None and op in ("Eq", "Ne", "Lt", "Le", "Gt", "Ge") and \
                _signed(a) == _signed(b):
            return SymB({"Eq": ia == ib, "Ne": ia != ib, "Lt": ia < ib, "Le": ia <= ib,
                         "Gt": ia > ib, "Ge": ia >= ib}[op])
        if op in ("Add", "AddUnchecked", "Sub", "SubUnchecked") and ia is not None and ib is not None:
            iv = ia + ib if op.startswith("Add") else ia - ib
            lo, hi = (-(1 << (bits - 1)), (1 << (bits - 1)) - 1) if sg else (0, (1 << bits) - 1)
            self.side.append(("no wrap-around in %s" % op, self.under_path(z3.And(iv >= lo, iv <= hi))))
            return SymV(x + y if op.startswith("Add") else x - y, bits, sg, z3.simplify(iv))
        if op in ("Add", "AddUnchecked"):
            return SymV(x + y, bits, sg)
        if op in ("Sub", "SubUnchecked"):
            return SymV(x - y, bits, sg)
        if op in ("Mul", "MulUnchecked"):
            iv = None
            if ia is not None and ib is not None and (isinstance(a, IntV) or isinstance(b, IntV)):
                iv = z3.simplify(ia * ib)
                lo, hi = (-(1 << (bits - 1)), (1 << (bits - 1)) - 1) if sg else (0, (1 << bits) - 1)
                self.side.append(("no wrap-around in Mul", self.under_path(z3.And(iv >= lo, iv <= hi))))
            return SymV(x * y, bits, sg, iv)
        if op == "BitAnd":
            return SymV(x & y, bits, sg)
        if op == "BitOr":
            za, zb = _zof(a), _zof(b)
            return SymV(x | y, bits, sg, None, z3.And(za, zb) if za is not None and zb is not None else None)
        if op == "BitXor":
            return SymV(x ^ y, bits, sg)
        if op in ("Eq", "Ne"):
            for p_, q_ in ((a, b), (b, a)):
                if isinstance(q_, IntV) and q_.v == 0 and isinstance(p_, SymV) and p_.z is not None:
                    return SymB(p_.z if op == "Eq" else z3.Not(p_.z))
        if op == "Eq":
            return SymB(x == y)
        if op == "Ne":
            return SymB(x != y)
        if op == "Lt":
            return SymB(x < y if sg else z3.ULT(x, y))
        if op == "Le":
            return SymB(x <= y if sg else z3.ULE(x, y))
        if op == "Gt":
            return SymB(x > y if sg else z3.UGT(x, y))
        if op == "Ge":
            return SymB(x >= y if sg else z3.UGE(x, y))
        raise NotAbstractable("symbolic binop " + op)

    def assert_ext(self, fr, t, v, expect):
        if isinstance(v, SymB):
            self.side.append(("assert in %s: %s" % (fr.body.name.rsplit("::", 1)[-1], t.text[:60]),
                              self.under_path(v.e if expect else z3.Not(v.e))))
            return
        raise NotAbstractable("assert on %r" % (v,))

    # ------------------------------------------------------------------
    # symbolic control flow: fork the top-level frame, one path at a time
    def under_path(self, cond):
        return z3.Implies(z3.And(self.path), cond) if self.path else cond

    def feasible(self, cond):
        s = z3.Solver()
        s.set("timeout", 10000)
        for a in self.assumptions:
            s.add(a)
        for c in self.path:
            s.add(c)
        s.add(cond)
        self.nfeas = getattr(self, "nfeas", 0) + 1
        return s.check() != z3.unsat

    def switch_ext(self, fr, t, v, bb):
        import copy
        if isinstance(v, SymB):
            conds = []
            for val, tgt in t.targets:
                if val is None:
                    conds.append((None, tgt))
                else:
                    conds.append((v.e if val else z3.Not(v.e), tgt))
            if len(conds) == 2 and conds[1][0] is None:
                conds[1] = (z3.Not(conds[0][0]), conds[1][1])
        elif isinstance(v, SymV):
            conds = []
            used = []
            for val, tgt in t.targets:
                if val is None:
                    conds.append((z3.And([z3.Not(u) for u in used]) if used else z3.BoolVal(True), tgt))
                else:
                    c = v.e == z3.BitVecVal(val, v.bits)
                    used.append(c)
                    conds.append((c, tgt))
        else:
            raise NotAbstractable("switchInt on %r" % (v,))
        # without pruning, infeasible paths are simply carried along: their path
        # condition is contradictory and every lemma on them holds vacuously
        feas = [(c, tgt) for c, tgt in conds if (not getattr(self, "prune", True)) or self.feasible(c)]
        if not feas:
            raise PathEnd()
        if len(feas) > 1 and fr.depth != 1:
            raise NotAbstractable("data-dependent branch inside %s" % fr.body.name.rsplit("::", 1)[-1])
        for c, tgt in feas[1:]:
            self.nforks += 1
            if self.nforks > 200000:
                raise NotAbstractable("too many paths")
            self.pending_paths.append((copy.deepcopy(fr), tgt, list(self.path) + [c]))
        self.path.append(feas[0][0])
        return feas[0][1]

    def run_forking(self, item, args, on_return):
        """execute `item`; every path that reaches the function's return calls
        on_return(frame-or-None, return value).  Paths may end earlier by raising PathEnd
        (cuts at loop heads are implemented by the loop hook)."""
        nm, which = item if isinstance(item, tuple) else (item, 0)
        body = self.mir.body(nm, which)
        self.executed[body.name] += 1
        from .interp import Frame
        fr = Frame(body, 1)
        for (loc, ty), a in zip(body.params, args):
            fr.cell(loc).val = a
        self.path = []
        work = [(fr, 0, [])]
        self.pending_paths = []
        while work or self.pending_paths:
            if not work:
                work.append(self.pending_paths.pop())
            f, bb, pc = work.pop()
            self.path = pc
            try:
                rv = self._exec(f, bb)
                on_return(f, rv)
            except PathEnd:
                pass

    def index_ext(self, fr, base_ref, iv):
        """read through a data-dependent index: ite-merge of the entries"""
        arr = base_ref.get()
        if not isinstance(iv, SymV) or not isinstance(arr, Agg) or not arr.fields:
            raise NotAbstractable("symbolic index %r" % (iv,))
        idx = iv.iv if iv.iv is not None else None
        n = len(arr.fields)
        if isinstance(arr.fields[0], Agg):
            lins = [self.as_lin(e, "table entry") for e in arr.fields]
            kind = arr.fields[0].path.split("::")[-1]
            res = lins[n - 1]
            for j in range(n - 2, -1, -1):
                c = (idx == j) if idx is not None else (iv.e == z3.BitVecVal(j, iv.bits))
                res = Lin.ite(c, lins[j], res)
            return Cell(self.wrap(res, kind)), ()
        if isinstance(arr.fields[0], Coord) and idx is not None:
            # flat table of coordinates: entry e occupies k consecutive words; a read at
            # k*e + c yields coordinate c of the (ite-merged) entry.  The merged element is
            # cached per base expression so that the k reads re-assemble into one point.
            kind = arr.fields[0].kind
            k = len(self.arity(kind.split("::")[-1]))
            if n % k:
                raise NotAbstractable("flat table of %d words for %d coordinates" % (n, k))
            cidx = None
            for c in range(k):
                st, _, _ = decide(self.assumptions + list(self.path), (idx - c) % k == 0, 10000)
                if st == "unsat":
                    cidx = c
                    break
            if cidx is None:
                raise NotAbstractable("cannot tell which coordinate a data-dependent index selects")
            base = z3.simplify(idx - cidx)
            cache = self.__dict__.setdefault("_flat_cache", {})
            key = (id(arr), str(base), len(self.path))
            hit = cache.get(key)
            if hit is None or hit[0] is not arr:
                lins = [self.coords_to_lin(arr.fields[e * k:(e + 1) * k], kind.split("::")[-1])
                        for e in range(n // k)]
                res = lins[-1]
                for e in range(n // k - 2, -1, -1):
                    res = Lin.ite(base == k * e, lins[e], res)
                cache[key] = (arr, res)
                hit = cache[key]
            return Cell(Coord(hit[1], cidx, kind)), ()
        raise NotAbstractable("symbolic index into an array of %r" % (arr.fields[0],))

    # ------------------------------------------------------------------
    def mask_cond(self, ctl, what):
        """Boolean meaning of a 0 / all-ones control word (side condition: it is one of the two)"""
        if isinstance(ctl, IntV) and not isinstance(ctl, MaskV):
            full = (1 << ctl.bits) - 1
            if ctl.v & full == full:
                return True
            if ctl.v == 0:
                return False
            raise MirError("control word neither 0 nor all-ones")
        if isinstance(ctl, SymV):
            full = z3.BitVecVal(-1, ctl.bits)
            self.side.append(("%s: control word is 0 or all-ones" % what,
                              z3.Or(ctl.e == 0, ctl.e == full)))
            return ctl.e != 0
        raise NotAbstractable("control word %r" % (ctl,))

    # ------------------------------------------------------------------
    def call(self, fr, t):
        cal = t.callee if isinstance(t.callee, Callee) else Callee(t.callee)
        t.callee = cal
        if cal.is_field:
            # no field arithmetic on opaque coordinates
            args = [self.operand(fr, a) for a in t.args]
            if any(isinstance(a.get() if isinstance(a, Ref) else a, Coord) for a in args):
                raise NotAbstractable("field operation %s on a coordinate of an abstract point (in %s)"
                                      % (cal.method, fr.body.name.rsplit("::", 1)[-1]))
        self._cur_term = t
        return Interp.call(self, fr, t)

    def builtin(self, fr, cal, args):
        r = self.intercept(fr, cal, args)
        if r is not NotImplemented:
            return r
        m = cal.method
        if args and isinstance(args[0], SymV):
            a = args[0]
            if m == "wrapping_neg" and len(args) == 1:
                return SymV(-a.e, a.bits, a.signed)
            if m in ("wrapping_sub", "wrapping_add") and len(args) == 2:
                y = bv(args[1], a.bits)
                return SymV(a.e - y if m == "wrapping_sub" else a.e + y, a.bits, a.signed)
        if len(args) == 2 and isinstance(args[1], SymV) and isinstance(args[0], IntV) and \
                m in ("wrapping_sub", "wrapping_add"):
            x = bv(args[0])
            y = bv(args[1], args[0].bits)
            return SymV(x - y if m == "wrapping_sub" else x + y, args[0].bits, args[0].signed)
        if cal.trait == "Index" and m == "index" and len(args) == 2 and isinstance(args[0], Ref):
            return args[0]          # full-range slicing `&a[..]`
        return Interp.builtin(self, fr, cal, args)

    def const_value_simple(self, text):
        return None

    # ------------------------------------------------------------------
    def intercept(self, fr, cal, args):
        cfg = self.cfg
        m = cal.method
        owner = cal.self_short
        toks = [a.get() if isinstance(a, Ref) else a for a in args]
        if toks and isinstance(toks[0], ScalarTok) and m not in cfg.recoders and m not in cfg.splits \
                and m not in cfg.naf_recoders:
            # arithmetic in the scalar field on an opaque scalar (C01): only `mul2` is modelled
            if m == "mul2" and len(args) == 1:
                self.count("scalar.mul2")
                t = ScalarTok(toks[0].name + "_x2")
                t.rel = ("mul2", toks[0])
                return t
            raise NotAbstractable("scalar operation %s on an opaque scalar" % m)
        if cal.trait is not None:
            return NotImplemented
        is_point = owner == cfg.point and (cal.self_mod in ("", cfg.module))
        is_aff = cfg.affine and owner == cfg.affine and (cal.self_mod in ("", cfg.module))
        if not (is_point or is_aff):
            return NotImplemented
        L = self.as_lin
        ret_ty = None
        if m in ("set_add", "set_sub") and is_point and len(args) == 2:
            self.count(m)
            a, b = L(args[0]), L(args[1])
            args[0].set(self.wrap(a + b if m == "set_add" else a - b))
            return UNIT
        if is_point and len(args) >= 2 and re.fullmatch(r"set_(add|sub)_(duif|affine|affine_extended)", m):
            self.count(m)
            a, b = L(args[0]), L(args[1], "affine operand")
            if len(args) == 3:
                skip = self.mask_cond(args[2], m)
                b = Lin.ite(skip, Lin(), b)
            args[0].set(self.wrap(a + b if "_add_" in m else a - b))
            return UNIT
        if m == "set_double" and len(args) == 1:
            self.count(m)
            args[0].set(self.wrap(L(args[0]).scale(2)))
            return UNIT
        if m == "set_xdouble" and len(args) == 2:
            self.count(m)
            n = args[1]
            a = self.as_lin(args[0], pending=True)
            if isinstance(a, PendLin):
                if isinstance(n, IntV):
                    d = z3.simplify(z3.IntVal(n.v) - a.N)
                elif isinstance(n, SymV) and n.iv is not None:
                    d = z3.simplify(n.iv - a.N)
                else:
                    raise NotAbstractable("doubling count without integer view")
                if not z3.is_int_value(d) or d.as_long() < 0:
                    raise NotAbstractable("doubling count %s is not the pending count plus a constant" % d)
                args[0].set(self.wrap(a.W.scale(1 << d.as_long())))
                return UNIT
            if not isinstance(n, IntV):
                raise NotAbstractable("symbolic doubling count")
            args[0].set(self.wrap(a.scale(1 << n.v)))
            return UNIT
        if m == "set_neg" and len(args) == 1:
            self.count(m)
            v = args[0].get()
            args[0].set(self.wrap(-L(args[0]), v.path.split("::")[-1]))
            return UNIT
        if m == "set_condneg" and len(args) == 2:
            self.count(m)
            v = args[0].get()
            a = L(args[0])
            c = self.mask_cond(args[1], m)
            args[0].set(self.wrap(Lin.ite(c, -a, a), v.path.split("::")[-1]))
            return UNIT
        if m == "set_cond" and len(args) == 3 and is_point:
            self.count(m)
            a, b = L(args[0]), L(args[1])
            c = self.mask_cond(args[2], m)
            args[0].set(self.wrap(Lin.ite(c, b, a)))
            return UNIT
        if m == "select" and len(args) == 3 and is_point:
            self.count(m)
            a, b = L(args[0]), L(args[1])
            c = self.mask_cond(args[2], m)
            return self.wrap(Lin.ite(c, b, a))
        if m == "add_sub" and len(args) == 2 and is_point:
            self.count(m)
            a, b = L(args[0]), L(args[1])
            return Agg("tuple", [self.wrap(a + b), self.wrap(a - b)])
        if m == "add_affine_affine" and len(args) == 2 and is_point:
            self.count(m)
            return self.wrap(L(args[0], "affine operand") + L(args[1], "affine operand"))
        if m in ("from_duif", "from_affine", "from_affine_extended") and len(args) == 1 and is_point:
            self.count(m)
            return self.wrap(L(args[0], "affine operand"))
        if cfg.endo and m in (cfg.endo_name, "set_" + cfg.endo_name):
            self.count(m)
            v = args[0].get() if isinstance(args[0], Ref) else args[0]
            ty = v.path.split("::")[-1]
            a = L(v).endo(cfg.endo)
            if len(args) == 2:        # GLS254: zeta(neg): conditional -mu
                c = self.mask_cond(args[1], m)
                a = Lin.ite(c, -a, a)
            if m.startswith("set_"):
                args[0].set(self.wrap(a, ty))
                return UNIT
            return self.wrap(a, ty)
        if m in cfg.lookups:
            return self.lookup(fr, cal, args)
        if m in cfg.recoders:
            return self.recode(cal, args)
        if m in cfg.naf_recoders:
            return self.recode_naf(fr, cal, args)
        if m in cfg.splits:
            return self.split(cal, args)
        return NotImplemented

    # ------------------------------------------------------------------
    def _ret_type(self, fr, cal, nargs):
        """declared return type of the callee (from its MIR header)"""
        cands = []
        for nm in self.mir.by_last.get(cal.method, []):
            if not nm.startswith(self.cfg.module + "::<impl"):
                continue
            for which, (kind, s, e) in enumerate(self.mir.items[nm]):
                if kind != "fn":
                    continue
                b = self.mir.body(nm, which)
                if len(b.params) == nargs:
                    cands.append(b)
        if len(cands) != 1:
            # not emitted (always inlined at MIR level elsewhere): use the type of the destination local
            t = getattr(self, "_cur_term", None)
            if t is not None and t.dest is not None and not t.dest.proj:
                ty = fr.body.local_types.get(t.dest.local)
                if ty:
                    return ty
            raise MirError("cannot find the declaration of %s (%d candidates)" % (cal.text, len(cands)))
        return cands[0].ret

    def lookup(self, fr, cal, args):
        """contract (C20): returns sign(k)*win[|k|-1], the neutral for k = 0;
        side condition |k| <= number of entries"""
        self.count("lookup")
        ret = self._ret_type(fr, cal, len(args)).strip()
        has_flag = ret.startswith("(")
        rty = (split_top(ret[1:-1])[0] if has_flag else ret)
        rty = strip_generics(rty).split("::")[-1]
        win = args[0].get() if isinstance(args[0], Ref) else args[0]
        k = args[1]
        n = len(self.arity(rty))
        if not isinstance(win, Agg):
            raise NotAbstractable("lookup window is %r" % (win,))
        if win.fields and isinstance(win.fields[0], Agg):
            entries = [self.as_lin(e, "window entry") for e in win.fields]
        else:
            if len(win.fields) % n:
                raise NotAbstractable("flat window of %d words for %d coordinates" % (len(win.fields), n))
            # a flat window of affine-extended entries may hold a subset of the
            # point's coordinates (jq255e: e,u,t); the entry kind is the return type
            entries = [self.coords_to_lin(win.fields[i:i + n], rty) for i in range(0, len(win.fields), n)]
        extra_neg = None
        if len(args) == 3:
            extra_neg = self.mask_cond(args[2], cal.method)
        m = len(entries)
        if isinstance(k, IntV):
            kv = k.v
            if abs(kv) > m:
                raise MirError("lookup index %d out of window" % kv)
            res = Lin() if kv == 0 else (entries[kv - 1] if kv > 0 else -entries[-kv - 1])
            flag = IntV(0xFFFFFFFF if kv == 0 else 0, 32)
        elif isinstance(k, SymV):
            K = self.int_view(k, cal.method)
            self.side.append(("%s: index within [-%d, %d]" % (cal.method, m, m), z3.And(K >= -m, K <= m)))
            res = self.lookup_lemma(K, entries, cal.method)
            flag = SymV(z3.If(K == 0, z3.BitVecVal(-1, 32), z3.BitVecVal(0, 32)), 32, False)
        else:
            raise NotAbstractable("lookup index %r" % (k,))
        if "zeta" in cal.method:
            if not self.cfg.endo:
                raise NotAbstractable("zeta lookup without endomorphism")
            res = res.endo(self.cfg.endo)
            if extra_neg is not None:
                res = Lin.ite(extra_neg, -res, res)
        elif extra_neg is not None:
            res = Lin.ite(extra_neg, -res, res)      # conditional negation flag
        out = self.wrap(res, rty)
        if has_flag:
            return Agg("tuple", [out, flag])
        return out

    def recode(self, cal, args):
        """contract (C04 (a)): digits in the documented ranges and
        sum d_i * 2^(w*i) = value of the argument"""
        self.count("recode")
        nd, w, lo, hi, tlo, thi = self.cfg.recoders[cal.method]
        idx = len(self.digits)
        label = "%s#%d" % (cal.method, idx)
        ds = []
        rng = getattr(self, "col_range", None)      # (lo, hi, number of columns): see recode_naf
        for i in range(nd):
            if rng is not None and not (rng[0] <= (i % rng[2]) <= rng[1]):
                ds.append(IntV(0, 8, True))
                continue
            D = z3.Int("d%d_%d" % (idx, i))
            a, b = (tlo, thi) if i == nd - 1 else (lo, hi)
            self.assumptions.append(z3.And(D >= a, D <= b))
            ds.append(SymV(z3.Int2BV(D, 8), 8, True, D))
        src = args[0].get() if isinstance(args[0], Ref) else args[0]
        val = sum((d.iv if isinstance(d, SymV) else d.v) * (1 << (w * i)) for i, d in enumerate(ds))
        if rng is not None:
            val = None      # partial digit vectors: the value relation is not used by column lemmas
        if isinstance(src, SymV):
            if src.iv is None or src.signed:
                raise NotAbstractable("recoder argument without an unsigned integer view")
            if val is not None:
                self.assumptions.append(val == src.iv)
        elif isinstance(src, ScalarTok):
            if val is not None:
                self.assumptions.append(val == src.value)
            self.recoded.append(src)
        else:
            raise NotAbstractable("recoder argument %r" % (src,))
        self.digits[label] = (ds, w)
        try:
            self.streams.append((ds, self.stream_generator([src])))
        except NotAbstractable:
            pass
        return Agg("array", ds)

    def recode_naf(self, fr, cal, args):
        """contract (C10 recoders): every digit is 0 or odd with |d| <= 15, and
        sum d_j 2^j = value of the argument.  Digits outside `col_range` (if
        set) are fixed to 0: the per-column lemmas of a worker only involve
        the digits of its own columns."""
        self.count("recode_naf")
        ret = self._ret_type(fr, cal, len(args))
        m = re.fullmatch(r"\[i8; (\d+)\]", ret.strip())
        if not m:
            raise NotAbstractable("NAF recoder returning %s" % ret)
        nd = int(m.group(1))
        idx = len(self.streams)
        src = [a.get() if isinstance(a, Ref) else a for a in args]
        gen = self.stream_generator(src)
        rng = getattr(self, "col_range", None)      # (lo, hi, loop length)
        ds = []
        for j in range(nd):
            if rng is not None and not (rng[0] <= (j % rng[2]) <= rng[1]):
                ds.append(IntV(0, 8, True))
                continue
            D = z3.Int("e%d_%d" % (idx, j))
            self.assumptions.append(z3.Or(D == 0, z3.And(D % 2 == 1, D >= -15, D <= 15)))
            ds.append(SymV(z3.Int2BV(D, 8), 8, True, D))
        self.streams.append((ds, gen))
        return Agg("array", ds)

    def stream_generator(self, src):
        """the element multiplied by the value recoded here"""
        s0 = src[0]
        if isinstance(s0, ScalarTok):
            g = self.scalar_gen.get(s0.name)
            if g is None:
                raise NotAbstractable("recoded scalar %s has no generator" % s0.name)
            return g
        if isinstance(s0, SymV) and s0.iv is not None:
            for key, g in self.int_gen:
                if key.eq(s0.iv):
                    return g
        raise NotAbstractable("cannot tell what the recoded integer multiplies")

    def split(self, cal, args):
        """contract (C11): k = k0 + k1*mu (mod r), returned as |k0|, sgn(k0), |k1|, sgn(k1)"""
        self.count("split")
        src = args[0].get() if isinstance(args[0], Ref) else args[0]
        if not isinstance(src, ScalarTok):
            raise NotAbstractable("split argument %r" % (src,))
        i = len(self.splits_seen)
        N0, N1 = z3.Int("n0_%d" % i), z3.Int("n1_%d" % i)
        S0, S1 = z3.Bool("s0_%d" % i), z3.Bool("s1_%d" % i)
        for N in (N0, N1):
            self.assumptions.append(z3.And(N >= 0, N < (1 << 128)))
        n0 = SymV(z3.Int2BV(N0, 128), 128, False, N0)
        n1 = SymV(z3.Int2BV(N1, 128), 128, False, N1)
        ones, zero = z3.BitVecVal(-1, 32), z3.BitVecVal(0, 32)
        s0 = SymV(z3.If(S0, ones, zero), 32, False)
        s1 = SymV(z3.If(S1, ones, zero), 32, False)
        k0 = z3.If(S0, -N0, N0)
        k1 = z3.If(S1, -N1, N1)
        self.masks.extend([S0, S1])
        g = self.scalar_gen.get(src.name)
        if g is not None and self.cfg.endo:
            self.int_gen.append((N0, Lin({k: _mul_int(z3.If(S0, z3.IntVal(-1), z3.IntVal(1)), v) if not isinstance(v, int)
                                          else z3.If(S0, z3.IntVal(-v), z3.IntVal(v)) for k, v in g.c.items()})))
            ge = g.endo(self.cfg.endo)
            self.int_gen.append((N1, Lin({k: z3.If(S1, z3.IntVal(-v), z3.IntVal(v)) if isinstance(v, int)
                                          else _mul_int(z3.If(S1, z3.IntVal(-1), z3.IntVal(1)), v)
                                          for k, v in ge.c.items()})))
        self.splits_seen.append((src, k0, k1))
        return Agg("tuple", [n0, s0, n1, s1])

    # ------------------------------------------------------------------
    def int_view(self, k, what):
        """integer value of a symbolic machine integer that depends on one
        digit and on mask bits: found among +-digit candidates, each *proved*
        by z3 (a rewrite lemma); fresh definition otherwise"""
        if k.iv is not None:
            return k.iv
        key = k.e.get_id()
        if key in self._lemma_cache:
            return self._lemma_cache[key]
        val = z3.BV2Int(k.e, is_signed=k.signed)
        ivars = [v for v in _free_vars(k.e) if z3.is_int(v)]
        bvars = [v for v in _free_vars(k.e) if z3.is_bool(v)]
        cands = []
        for D in ivars:
            cands += [D, -D]
            conds = list(bvars) + [z3.Xor(a, b) for i, a in enumerate(bvars) for b in bvars[i + 1:]]
            for c in conds:
                cands += [z3.If(c, -D, D), z3.If(c, D, -D)]
        for cand in cands:
            st, secs, _ = decide(self.assumptions, val == cand, 20000)
            if st == "unsat":
                self.lemmas.append(("%s: index value = %s" % (what, cand), st, secs))
                self._lemma_cache[key] = cand
                return cand
        raise NotAbstractable("no integer view for the lookup index in %s" % what)

    def lookup_lemma(self, K, entries, what):
        """sum_j ite(K = j, W_j, ite(K = -j, -W_j, 0))  ==  K * W_1  when z3
        proves it for every generator (under the range assumptions); the
        explicit ite form otherwise"""
        m = len(entries)
        raw = Lin()
        for j in range(m, 0, -1):
            raw = Lin.ite(K == j, entries[j - 1], Lin.ite(K == -j, -entries[j - 1], raw))
        w1 = entries[0]
        prod = Lin({g: _mul_int(K, c) for g, c in w1.c.items()})
        goals = []
        for g in set(raw.c) | set(prod.c):
            goals.append(_iv(raw.get(g)) == _iv(prod.get(g)))
        st, secs, _ = decide(self.assumptions + [z3.And(K >= -m, K <= m)], z3.And(goals), 30000)
        self.lemmas.append(("%s: lookup = index * win[0]" % what, st, secs))
        if st == "unsat":
            return prod
        return raw

    # ------------------------------------------------------------------
    def const_value(self, text, body=None):
        text = text.strip()
        m = re.fullmatch(r"\{alloc(\d+): &(.*)\}", text)
        if m:
            aid = int(m.group(1))
            if aid in self.mir.allocs:
                tc = self.__dict__.setdefault("_tables", {})
                if aid not in tc:
                    tc[aid] = ConstCell(self.table(self.mir.allocs[aid][0], m.group(2)))
                else:
                    self.count("table:" + self.mir.allocs[aid][0].split("::")[-1])
                return Ref(tc[aid])
            raise NotAbstractable("unknown allocation " + text)
        if text == "RangeFull":
            return UNIT
        if text.endswith("::NEUTRAL"):
            base = strip_generics(text).split("::")
            owner = base[-2] if len(base) >= 2 else ""
            if owner in (self.cfg.point, self.cfg.affine):
                return self.wrap(Lin(), owner)
        return Interp.const_value(self, text, body)

    def table(self, name, ty):
        """PRECOMP_X[j] = (j+1) * 2^s * B  (contents: ground facts)"""
        short = name.split("::")[-1]
        if short not in self.cfg.tables:
            raise NotAbstractable("static %s is not a declared table" % name)
        shift, kind, gen = self.cfg.tables[short]
        m = re.fullmatch(r"\[(.*); (\d+)\]", ty.strip())
        if not m:
            raise NotAbstractable("table type " + ty)
        elem = strip_generics(m.group(1)).split("::")[-1]
        n = int(m.group(2))
        self.count("table:" + short)

        def entry(j):
            mult = (j + 1) if kind == "all" else (2 * j + 1)
            return Lin({(gen, 0): mult << shift})
        if elem == (self.cfg.affine or "") or elem == self.cfg.point:
            return Agg("array", [self.wrap(entry(j), elem) for j in range(n)])
        # flat array of coordinates of the affine type
        aty = self.cfg.affine
        k = len(self.arity(aty))
        if n % k:
            raise NotAbstractable("flat table %s of %d words" % (name, n))
        out = []
        for j in range(n // k):
            out.extend(self.wrap(entry(j), aty).fields)
        return Agg("array", out)


def _ivof(x):
    if isinstance(x, SymV):
        return x.iv
    if isinstance(x, IntV) and not isinstance(x, MaskV):
        return z3.IntVal(x.v)
    return None


def _signed(x):
    return x.signed


def _zof(x):
    if isinstance(x, SymV):
        return x.z
    if isinstance(x, IntV):
        return z3.BoolVal(x.v == 0)
    return None


def bv_lemmas():
    """the bit-vector facts behind SymV.z, decided by z3 for the widths in use:
    ext(x) = 0 <-> x = 0 and (x | y) = 0 <-> x = 0 /\\ y = 0"""
    out = []
    for w, W in ((8, 32), (8, 64), (32, 64)):
        x = z3.BitVec("x", w)
        for nm, f in (("sign-extend", z3.SignExt), ("zero-extend", z3.ZeroExt)):
            st, secs, _ = decide([], (f(W - w, x) == 0) == (x == 0), 20000)
            out.append(("%s %d->%d preserves zero-ness" % (nm, w, W), st, secs))
    for W in (32, 64):
        x, y = z3.BitVec("x", W), z3.BitVec("y", W)
        st, secs, _ = decide([], ((x | y) == 0) == z3.And(x == 0, y == 0), 20000)
        out.append(("(x|y) = 0 <-> x = 0 and y = 0 at %d bits" % W, st, secs))
    return out


def _free_vars(e):
    seen, out, stack = set(), [], [e]
    while stack:
        x = stack.pop()
        if x.get_id() in seen:
            continue
        seen.add(x.get_id())
        if z3.is_const(x) and x.decl().kind() == z3.Z3_OP_UNINTERPRETED:
            out.append(x)
        else:
            stack.extend(x.children())
    return out


def _mul_int(K, c):
    """K * c with c an integer term built from constants, ite and sums"""
    if isinstance(c, int):
        return K * c if c != 1 else K
    if z3.is_int_value(c):
        return K * c.as_long()
    if z3.is_app_of(c, z3.Z3_OP_ITE):
        a = c.children()
        return z3.If(a[0], _iv(_mul_int(K, a[1])), _iv(_mul_int(K, a[2])))
    if z3.is_app_of(c, z3.Z3_OP_ADD):
        return z3.Sum([_iv(_mul_int(K, x)) for x in c.children()])
    if z3.is_app_of(c, z3.Z3_OP_UMINUS):
        return -_mul_int(K, c.children()[0])
    if z3.is_app_of(c, z3.Z3_OP_MUL):
        ch = c.children()
        if len(ch) == 2 and z3.is_int_value(ch[0]):
            return _iv(_mul_int(K, ch[1])) * ch[0].as_long()
        if len(ch) == 2 and z3.is_int_value(ch[1]):
            return _iv(_mul_int(K, ch[0])) * ch[1].as_long()
    return K * c


class ScalarTok:
    """an opaque scalar argument with integer value `value` (z3 Int)"""
    __slots__ = ("name", "value", "rel")

    def __init__(self, name):
        self.name = name
        self.value = z3.Int(name)
        self.rel = None


def decide(assumptions, goal, timeout_ms=60000):
    """z3: assumptions /\\ not goal unsat?  returns (status, seconds, model)"""
    import time
    t0 = time.time()
    s = z3.Solver()
    s.set("timeout", int(timeout_ms))
    for a in assumptions:
        s.add(a)
    s.add(z3.Not(goal))
    r = s.check()
    mdl = None
    if r == z3.sat:
        mdl = s.model()
    return str(r), time.time() - t0, mdl
