"""MIR dump of /repo's current working tree (scratch copy, rebuilt on every
run) and the native replay harness."""
import os, subprocess, time

from vlib.common import Scratch, log
from .mirparse import Mir

MIR_CMD = ["cargo", "+nightly", "rustc", "--offline", "--lib", "--",
           "-Zunpretty=mir", "-C", "debug-assertions=off", "-C", "overflow-checks=off"]


class BuildError(Exception):
    pass


def dump_mir():
    """returns (Mir, seconds, scratch).  The scratch copy is left in place
    (it is removed at exit by vlib.common)."""
    t0 = time.time()
    sc = Scratch()
    env = dict(os.environ)
    env["CARGO_NET_OFFLINE"] = "true"
    env["CARGO_TARGET_DIR"] = sc.target
    p = subprocess.run(MIR_CMD, cwd=sc.src, env=env, stdout=subprocess.PIPE, stderr=subprocess.PIPE,
                       text=True, timeout=600)
    if p.returncode != 0 or len(p.stdout) < 100000:
        raise BuildError("MIR dump failed (exit %d, %d bytes): %s" % (p.returncode, len(p.stdout), p.stderr[-1500:]))
    mir = Mir(p.stdout)
    return mir, time.time() - t0, sc
