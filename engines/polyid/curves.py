"""Curve models: the *specification side* of C03 (written from the standards /
papers, independently of the Rust code).

Each model gives
  * the representation map  affine point + free scaling variable -> struct
    fields (as ring terms), and the curve equation as a hypothesis;
  * the textbook affine group law as rational functions (num, den);
  * the identities that say "these output fields are a valid representation
    of that affine point";
  * a concrete big-integer implementation of the group (used only to replay
    candidate counterexamples natively and to validate the spec against the
    library)."""
import random
from fractions import Fraction

from . import terms as R

c = R.const


def S(n):
    return R.sym(n)


# --------------------------------------------------------------------------
# small number theory

def legendre(a, p):
    a %= p
    if a == 0:
        return 0
    return 1 if pow(a, (p - 1) // 2, p) == 1 else -1


def sqrt_mod(a, p):
    a %= p
    if a == 0:
        return 0
    if legendre(a, p) != 1:
        return None
    if p % 4 == 3:
        return pow(a, (p + 1) // 4, p)
    # Tonelli-Shanks
    q, s = p - 1, 0
    while q % 2 == 0:
        q //= 2
        s += 1
    z = 2
    while legendre(z, p) != -1:
        z += 1
    m, cc, t, r = s, pow(z, q, p), pow(a, q, p), pow(a, (q + 1) // 2, p)
    while t != 1:
        i, t2 = 0, t
        while t2 != 1:
            t2 = t2 * t2 % p
            i += 1
        b = pow(cc, 1 << (m - i - 1), p)
        m, cc = i, b * b % p
        t, r = t * cc % p, r * b % p
    return r


def inv(a, p):
    return pow(a % p, -1, p)


# --------------------------------------------------------------------------

class Affine:
    """a symbolic affine operand of a case: coordinate terms, hypotheses it
    brings, non-vanishing quantities, scaling symbol"""

    def __init__(self, xy, hyps=(), nz=(), z=None, neutral=False, label=""):
        self.xy = xy
        self.hyps = list(hyps)
        self.nz = list(nz)
        self.z = z
        self.neutral = neutral
        self.label = label


class Model:
    char2 = False
    units = ()
    trusted = ()
    const_hyps = ()

    def c_scalar(self, rng):
        return rng.randrange(1, self.p)

    def struct_fields(self, mir, ty):
        """field names (declaration order) of `module::ty`, read off an
        aggregate expression in the MIR of that module"""
        import re
        from .mirparse import split_top
        cache = mir.__dict__.setdefault("_struct_fields", {})
        key = (self.module, ty)
        if key in cache:
            return cache[key]
        pat = re.compile(r"= (?:%s::)?%s \{ (.*) \};" % (re.escape(self.module), re.escape(ty)))
        for nm, lst in mir.items.items():
            if not nm.startswith(self.module + "::"):
                continue
            for kind, s_, e_ in lst:
                for i in range(s_, e_ + 1):
                    ln = mir.lines[i]
                    if ty + " {" not in ln:
                        continue
                    m = pat.search(ln)
                    if m:
                        r = [p.split(": ", 1)[0] for p in split_top(m.group(1))]
                        cache[key] = r
                        return r
        raise KeyError("no aggregate of %s::%s in the MIR" % (self.module, ty))


# ==========================================================================
# twisted Edwards   a*x^2 + y^2 = 1 + d*x^2*y^2     (complete: a square, d not)

class Edwards(Model):
    family = "edwards"

    def __init__(self, name, module, p, a, d_term, d_value, extended, const_relations=(), hyp_scale=1,
                 units=()):
        self.name, self.module, self.p = name, module, p
        self.a, self.d, self.dv = a, d_term, d_value
        self.extended = extended
        self.coords = ["X", "Y", "Z", "T"] if extended else ["X", "Y", "Z"]
        self.const_relations = list(const_relations)
        self.hyp_scale = hyp_scale
        self.units = tuple(units)
        self.trusted = ("d is not a square and a is a square in F_p (checked as a ground fact), hence "
                        "1 +- d*x1*x2*y1*y2 never vanishes on curve points (Bernstein-Lange completeness)",)

    def curve(self, x, y):
        return R.scale(self.hyp_scale, c(self.a) * x * x + y * y - 1 - self.d * x * x * y * y)

    def generic(self, tag):
        x, y, z = S("x" + tag), S("y" + tag), S("z" + tag)
        return Affine((x, y), [self.curve(x, y)], [z], z, label="generic")

    def fixed(self, tag, x, y, label):
        z = S("z" + tag)
        return Affine((c(x), c(y)), [], [z], z, neutral=(x == 0 and y == 1), label=label)

    def like(self, tag, other, negate=False):
        x, y = other.xy
        z = S("z" + tag)
        return Affine(((-x if negate else x), y), [], [z], z, label=("-" if negate else "") + "same")

    def embed(self, A):
        x, y = A.xy
        z = A.z
        f = [x * z, y * z, z]
        if self.extended:
            f.append(x * y * z)
        return f

    def neg(self, A):
        x, y = A.xy
        return (-x, y)

    def law(self, P, Q):
        (x1, y1), (x2, y2) = P, Q
        t = self.d * x1 * x2 * y1 * y2
        return ((x1 * y2 + y1 * x2, 1 + t), (y1 * y2 - c(self.a) * x1 * x2, 1 - t))

    def represents(self, out, rat):
        (nx, dx), (ny, dy) = rat
        X, Y, Z = out[0], out[1], out[2]
        ids = [("x", X * dx - nx * Z), ("y", Y * dy - ny * Z)]
        if self.extended:
            ids.append(("T*Z=X*Y", out[3] * Z - X * Y))
        return ids

    def same_element(self, A, B):
        ids = [("X:Z", A[0] * B[2] - B[0] * A[2]), ("Y:Z", A[1] * B[2] - B[1] * A[2])]
        if self.extended:
            ids.append(("T:Z", A[3] * B[2] - B[3] * A[2]))
        return ids

    def oncurve(self, out):
        X, Y, Z = out[0], out[1], out[2]
        a = c(self.a)
        if self.extended:
            T = out[3]
            return R.scale(self.hyp_scale, a * X * X + Y * Y - Z * Z - self.d * T * T)
        return R.scale(self.hyp_scale, (a * X * X + Y * Y) * Z * Z - Z * Z * Z * Z - self.d * X * X * Y * Y)

    def nondeg(self, out, rat, ops):
        (nx, dx), (ny, dy) = rat
        return [("Z", out[2], [A.z for A in ops] + [dx, dy])]

    # ---- concrete ----
    def c_neutral(self):
        return (0, 1)

    def c_oncurve(self, P):
        x, y = P
        p = self.p
        return (self.a * x * x + y * y - 1 - self.dv * x * x * y * y) % p == 0

    def c_rand(self, rng):
        p = self.p
        while True:
            x = rng.randrange(p)
            den = (1 - self.dv * x * x) % p
            if den == 0:
                continue
            y = sqrt_mod((1 - self.a * x * x) * inv(den, p), p)
            if y is None:
                continue
            if rng.random() < 0.5:
                y = p - y
            return (x, y)

    def c_special(self):
        p = self.p
        out = [("neutral", (0, 1)), ("order2", (0, p - 1))]
        i = sqrt_mod(-self.a % p * inv(1, p), p) if False else None
        # order-4 points: y = 0, a*x^2 = 1
        x = sqrt_mod(inv(self.a, p), p)
        if x is not None:
            out.append(("order4", (x, 0)))
            out.append(("order4'", (p - x, 0)))
        return out

    def c_add(self, P, Q):
        p = self.p
        (x1, y1), (x2, y2) = P, Q
        t = self.dv * x1 * x2 * y1 * y2 % p
        return ((x1 * y2 + y1 * x2) * inv(1 + t, p) % p, (y1 * y2 - self.a * x1 * x2) * inv(1 - t, p) % p)

    def c_neg(self, P):
        return ((-P[0]) % self.p, P[1])

    def c_embed(self, P, z):
        p = self.p
        x, y = P
        f = [x * z % p, y * z % p, z % p]
        if self.extended:
            f.append(x * y * z % p)
        return f

    def c_decode(self, f):
        """raw fields -> affine point, plus validity flag"""
        p = self.p
        X, Y, Z = f[0], f[1], f[2]
        if Z % p == 0:
            return None, False
        zi = inv(Z, p)
        P = (X * zi % p, Y * zi % p)
        ok = self.c_oncurve(P)
        if self.extended:
            ok = ok and (f[3] * Z - X * Y) % p == 0
        return P, ok

    def c_same(self, P, Q):
        return P is not None and Q is not None and P[0] % self.p == Q[0] % self.p and P[1] % self.p == Q[1] % self.p


# ==========================================================================
# short Weierstrass  y^2 = x^3 + a*x + b, projective (X:Y:Z), neutral (0:Y:0)

class Weierstrass(Model):
    family = "weierstrass"

    def __init__(self, name, module, p, a, b_term, b_value, const_relations=()):
        self.name, self.module, self.p = name, module, p
        self.a, self.b, self.bv = a, b_term, b_value
        self.coords = ["X", "Y", "Z"]
        self.const_relations = list(const_relations)
        self.trusted = ("the group has odd (prime) order: no point has y = 0, and [2^k]P of a non-neutral "
                        "point is never neutral",
                        "completeness of the Bosma-Lenstra / Renes-Costello-Batina law on odd-order curves "
                        "(eprint 2015/1060 Thm 1): its output is never (0:0:0)")

    def curve(self, x, y):
        return y * y - x * x * x - c(self.a) * x - self.b

    def generic(self, tag):
        x, y, z = S("x" + tag), S("y" + tag), S("z" + tag)
        return Affine((x, y), [self.curve(x, y)], [z, y], z, label="generic")

    def like(self, tag, other, negate=False):
        x, y = other.xy
        z = S("z" + tag)
        return Affine((x, (-y if negate else y)), [], [z], z, label=("-" if negate else "") + "same")

    def neutral(self, tag):
        w = S("w" + tag)
        return Affine(None, [], [w], w, neutral=True, label="neutral")

    def embed(self, A):
        if A.neutral:
            return [R.ZERO, A.z, R.ZERO]
        x, y = A.xy
        return [x * A.z, y * A.z, A.z]

    def neg(self, A):
        return (A.xy[0], -A.xy[1])

    def chord(self, P, Q):
        (x1, y1), (x2, y2) = P, Q
        dx = x2 - x1
        l = y2 - y1
        Dx = dx * dx
        nx = l * l - (x1 + x2) * Dx
        Dy = Dx * dx
        ny = l * (x1 * Dx - nx) - y1 * Dy
        return ((nx, Dx), (ny, Dy))

    def tangent(self, P):
        x, y = P
        m = 3 * x * x + c(self.a)
        t = 2 * y
        Dx = t * t
        nx = m * m - 2 * x * Dx
        Dy = Dx * t
        ny = m * (x * Dx - nx) - y * Dy
        return ((nx, Dx), (ny, Dy))

    def bosma_lenstra(self, F1, F2):
        """the complete addition law of eprint 2015/1060 section 3 (from
        Bosma-Lenstra), as polynomials in the projective coordinates"""
        X1, Y1, Z1 = F1
        X2, Y2, Z2 = F2
        a = c(self.a)
        b3 = 3 * self.b
        A = X1 * Z2 + X2 * Z1
        X3 = (X1 * Y2 + X2 * Y1) * (Y1 * Y2 - a * A - b3 * Z1 * Z2) \
            - (Y1 * Z2 + Y2 * Z1) * (a * X1 * X2 + b3 * A - a * a * Z1 * Z2)
        Y3 = (3 * X1 * X2 + a * Z1 * Z2) * (a * X1 * X2 + b3 * A - a * a * Z1 * Z2) \
            + (Y1 * Y2 + a * A + b3 * Z1 * Z2) * (Y1 * Y2 - a * A - b3 * Z1 * Z2)
        Z3 = (Y1 * Z2 + Y2 * Z1) * (Y1 * Y2 + a * A + b3 * Z1 * Z2) \
            + (X1 * Y2 + X2 * Y1) * (3 * X1 * X2 + a * Z1 * Z2)
        return [X3, Y3, Z3]

    def represents(self, out, rat):
        (nx, dx), (ny, dy) = rat
        X, Y, Z = out
        return [("x", X * dx - nx * Z), ("y", Y * dy - ny * Z)]

    def is_neutral(self, out):
        return [("X=0", out[0]), ("Z=0", out[2])]

    def proportional(self, out, F):
        X, Y, Z = out
        return [("X:Y", X * F[1] - Y * F[0]), ("X:Z", X * F[2] - Z * F[0]), ("Y:Z", Y * F[2] - Z * F[1])]

    def same_element(self, A, B):
        return self.proportional(A, B)

    def oncurve(self, out):
        X, Y, Z = out
        return Y * Y * Z - X * X * X - c(self.a) * X * Z * Z - self.b * Z * Z * Z

    # ---- concrete ----
    def c_neutral(self):
        return None

    def c_oncurve(self, P):
        if P is None:
            return True
        x, y = P
        return (y * y - x * x * x - self.a * x - self.bv) % self.p == 0

    def c_rand(self, rng):
        p = self.p
        while True:
            x = rng.randrange(p)
            y = sqrt_mod(x * x * x + self.a * x + self.bv, p)
            if y is None or y == 0:
                continue
            if rng.random() < 0.5:
                y = p - y
            return (x, y)

    def c_special(self):
        return [("neutral", None)]

    def c_add(self, P, Q):
        p = self.p
        if P is None:
            return Q
        if Q is None:
            return P
        (x1, y1), (x2, y2) = P, Q
        if x1 == x2:
            if (y1 + y2) % p == 0:
                return None
            l = (3 * x1 * x1 + self.a) * inv(2 * y1, p) % p
        else:
            l = (y2 - y1) * inv(x2 - x1, p) % p
        x3 = (l * l - x1 - x2) % p
        return (x3, (l * (x1 - x3) - y1) % p)

    def c_neg(self, P):
        return None if P is None else (P[0], (-P[1]) % self.p)

    def c_embed(self, P, z):
        p = self.p
        if P is None:
            return [0, z % p, 0]
        return [P[0] * z % p, P[1] * z % p, z % p]

    def c_decode(self, f):
        p = self.p
        X, Y, Z = [v % p for v in f]
        if Z == 0:
            # valid neutral: X = 0 and Y != 0
            return None, (X == 0 and Y != 0)
        zi = inv(Z, p)
        P = (X * zi % p, Y * zi % p)
        return P, self.c_oncurve(P)

    def c_same(self, P, Q):
        if P is None or Q is None:
            return P is None and Q is None
        return P[0] % self.p == Q[0] % self.p and P[1] % self.p == Q[1] % self.p


# ==========================================================================
# Jacobi quartic  e^2 = bp*u^4 + ap*u^2 + 1 (double-odd curves jq255e/s),
# extended coordinates (E:U:Z:T), e=E/Z, u=U/Z, u^2=T/Z.
# underlying curve y^2 = x*(x^2 + a*x + b), ap = -2a, bp = a^2 - 4b.

class JacobiQuartic(Model):
    family = "jq"

    def __init__(self, name, module, p, a, b):
        self.name, self.module, self.p = name, module, p
        self.wa, self.wb = a % p, b % p          # double-odd curve constants
        ap = (-2 * a) % p
        bp = (a * a - 4 * b) % p
        # small signed representatives
        self.ap = ap if ap < p // 2 else ap - p
        self.bp = bp if bp < p // 2 else bp - p
        self.coords = ["E", "U", "Z", "T"]
        self.const_relations = []
        self.trusted = ("bp = a^2-4b is not a square in F_p (ground fact), hence 1 - bp*u1^2*u2^2 never vanishes; "
                        "the Jacobi-quartic addition law is the group law of the double-odd group "
                        "E/<N> with (e,u) ~ (-e,-u) (eprint 2022/1052)",)

    def curve(self, e, u):
        return e * e - c(self.bp) * u * u * u * u - c(self.ap) * u * u - 1

    def generic(self, tag):
        e, u, z = S("e" + tag), S("u" + tag), S("z" + tag)
        return Affine((e, u), [self.curve(e, u)], [z], z, label="generic")

    def fixed(self, tag, e, u, label):
        z = S("z" + tag)
        return Affine((c(e), c(u)), [], [z], z, neutral=(u == 0), label=label)

    def like(self, tag, other, negate=False):
        e, u = other.xy
        z = S("z" + tag)
        return Affine((e, (-u if negate else u)), [], [z], z, label=("-" if negate else "") + "same")

    def embed(self, A):
        e, u = A.xy
        z = A.z
        return [e * z, u * z, z, u * u * z]

    def neg(self, A):
        e, u = A.xy
        return (e, -u)

    def law(self, P, Q):
        (e1, u1), (e2, u2) = P, Q
        ap, bp = c(self.ap), c(self.bp)
        w = bp * u1 * u1 * u2 * u2
        den = 1 - w
        nu = e1 * u2 + e2 * u1
        ne = (1 + w) * (e1 * e2 + ap * u1 * u2) + 2 * bp * u1 * u2 * (u1 * u1 + u2 * u2)
        return ((ne, den * den), (nu, den))

    def represents(self, out, rat):
        """group elements are classes {(e,u), (-e,-u)}: equal classes <=> same
        u/e and same u^2 (the curve equation then fixes e up to the joint sign)"""
        (ne, de), (nu, du) = rat
        E, U, Z, T = out
        return [("u/e", U * du * ne - E * nu * de), ("u^2", U * U * du * du - nu * nu * Z * Z),
                ("T*Z=U^2", T * Z - U * U)]

    def same_element(self, A, B):
        return [("u/e", A[1] * B[0] - A[0] * B[1]), ("u^2", A[1] * A[1] * B[2] * B[2] - B[1] * B[1] * A[2] * A[2])]

    def oncurve(self, out):
        E, U, Z, T = out
        return E * E - c(self.bp) * T * T - c(self.ap) * T * Z - Z * Z

    def nondeg(self, out, rat, ops):
        (ne, de), (nu, du) = rat
        return [("Z", out[2], [A.z for A in ops] + [du])]

    # ---- concrete: through the double-odd curve y^2 = x(x^2+ax+b) ----
    def c_neutral(self):
        return (self.p - 1, 0)

    def c_oncurve(self, P):
        e, u = P
        return (e * e - self.bp * u ** 4 - self.ap * u * u - 1) % self.p == 0

    def c_rand(self, rng):
        p = self.p
        while True:
            u = rng.randrange(1, p)
            e = sqrt_mod(self.bp * u ** 4 + self.ap * u * u + 1, p)
            if e is None:
                continue
            if rng.random() < 0.5:
                e = p - e
            return (e, u)

    def c_special(self):
        return [("neutral", (self.p - 1, 0)), ("neutral+", (1, 0))]

    def _to_w(self, P):
        """(e,u) -> point on y^2 = x(x^2+ax+b): None for infinity"""
        p = self.p
        e, u = P
        if u % p == 0:
            return None if e % p == 1 else (0, 0)
        x = (1 + e - self.wa * u * u) * inv(2 * u * u, p) % p
        return (x, x * inv(u, p) % p)

    def _w_add(self, P, Q):
        p = self.p
        if P is None:
            return Q
        if Q is None:
            return P
        (x1, y1), (x2, y2) = P, Q
        if x1 == x2:
            if (y1 + y2) % p == 0:
                return None
            l = (3 * x1 * x1 + 2 * self.wa * x1 + self.wb) * inv(2 * y1, p) % p
        else:
            l = (y2 - y1) * inv(x2 - x1, p) % p
        x3 = (l * l - self.wa - x1 - x2) % p
        return (x3, (l * (x1 - x3) - y1) % p)

    def _from_w(self, P):
        p = self.p
        if P is None:
            return (1, 0)
        x, y = P
        if x == 0:
            return (p - 1, 0)
        u = x * inv(y, p) % p
        e = u * u * (x - self.wb * inv(x, p)) % p
        return (e, u)

    def c_add(self, P, Q):
        return self._from_w(self._w_add(self._to_w(P), self._to_w(Q)))

    def c_neg(self, P):
        return (P[0], (-P[1]) % self.p)

    def c_embed(self, P, z):
        p = self.p
        e, u = P
        return [e * z % p, u * z % p, z % p, u * u * z % p]

    def c_decode(self, f):
        p = self.p
        E, U, Z, T = [v % p for v in f]
        if Z == 0:
            return None, False
        zi = inv(Z, p)
        P = (E * zi % p, U * zi % p)
        ok = self.c_oncurve(P) and (T * Z - U * U) % p == 0 and E != 0
        return P, ok

    def c_same(self, P, Q):
        """group elements: (e,u) ~ (-e,-u)"""
        if P is None or Q is None:
            return False
        p = self.p
        return ((P[0] - Q[0]) % p == 0 and (P[1] - Q[1]) % p == 0) or \
            ((P[0] + Q[0]) % p == 0 and (P[1] + Q[1]) % p == 0)


# ==========================================================================
# the nine groups

P25519 = 2 ** 255 - 19
P448 = 2 ** 448 - 2 ** 224 - 1
P256 = 2 ** 256 - 2 ** 224 + 2 ** 192 + 2 ** 96 - 1
PK1 = 2 ** 256 - 2 ** 32 - 977
P255E = 2 ** 255 - 18651
P255S = 2 ** 255 - 3957

D25519 = (-121665 * pow(121666, -1, P25519)) % P25519
B256 = 0x5AC635D8AA3A93E7B3EBBD55769886BC651D06B0CC53B0F63BCE3C3E27D2604B


def models():
    half = Fraction(1, 2)
    ed25519 = Edwards("ed25519", "ed25519", P25519, -1, R.scale(half, S("ed25519_D2")), D25519, True,
                      const_relations=[("ed25519_D2", "121666*D2 + 2*121665 == 0 (mod p): D2 = 2d, d = -121665/121666",
                                        lambda v, p: (121666 * v + 2 * 121665) % p == 0),
                                       ("ed25519_D2", "D2 != 0 (mod p)", lambda v, p: v % p != 0)],
                      hyp_scale=2, units=("ed25519_D2",))
    ed448 = Edwards("ed448", "ed448", P448, 1, c(-39081), (-39081) % P448, False)
    p256 = Weierstrass("p256", "p256", P256, -3, S("p256_B"), B256,
                       const_relations=[("p256_B", "B == FIPS 186-4 P-256 b", lambda v, p: v % p == B256)])
    k1 = Weierstrass("secp256k1", "secp256k1", PK1, 0, c(7), 7)
    jqe = JacobiQuartic("jq255e", "jq255e", P255E, 0, -2)
    jqs = JacobiQuartic("jq255s", "jq255s", P255S, -1, pow(2, -1, P255S))
    return {m.name: m for m in (ed25519, ed448, p256, k1, jqe, jqs, GLS254())}


# ==========================================================================
# GLS254: y^2 + x*y = x^3 + a*x^2 + b*x over GF(2^254) = GF(2^127)[u]/(u^2+u+1),
# a = u, b = sb^2 = 1 + z^54.  Group elements are the points P + N, P in E[r],
# N = (0,0); the group law is  A (+) B = A + B + N;  coordinates (x, s) with
# s = y + x^2 + a*x + b, satisfying s^2 + x*s = (x^2 + a*x + b)^2;
# representation x = sb*X/Z, s = sb*S/Z^2, T = X*Z.   (eprint 2022/1325)
# Symbolically we use the scaled affine coordinates xi = x/sb, si = s/sb.

M127 = (1 << 127) | (1 << 63) | 1


def _clmul(a, b):
    r = 0
    while b:
        if b & 1:
            r ^= a
        a <<= 1
        b >>= 1
    return r


def _red127(v):
    while v.bit_length() > 127:
        v ^= M127 << (v.bit_length() - 128)
    return v


def f127_mul(a, b):
    return _red127(_clmul(a, b))


def f127_inv(a):
    # extended Euclid in GF(2)[z]
    if a == 0:
        raise ZeroDivisionError
    r0, r1 = M127, a
    s0, s1 = 0, 1
    while r1 != 1:
        d = r0.bit_length() - r1.bit_length()
        if d < 0:
            r0, r1, s0, s1 = r1, r0, s1, s0
            continue
        r0 ^= r1 << d
        s0 ^= s1 << d
        if r0 == 0:
            raise ZeroDivisionError
        if r0.bit_length() < r1.bit_length():
            r0, r1, s0, s1 = r1, r0, s1, s0
    return _red127(s1)


class F254:
    """element a0 + a1*u, packed as a0 | a1 << 128 (matches the byte encoding)"""
    MASK = (1 << 128) - 1

    @staticmethod
    def split(v):
        return v & F254.MASK, v >> 128

    @staticmethod
    def pack(a0, a1):
        return a0 | (a1 << 128)

    @staticmethod
    def mul(x, y):
        a0, a1 = F254.split(x)
        b0, b1 = F254.split(y)
        m00, m11 = f127_mul(a0, b0), f127_mul(a1, b1)
        mx = f127_mul(a0 ^ a1, b0 ^ b1)
        return F254.pack(m00 ^ m11, mx ^ m00)

    @staticmethod
    def inv(x):
        a0, a1 = F254.split(x)
        n = f127_mul(a0, a0) ^ f127_mul(a0, a1) ^ f127_mul(a1, a1)
        ni = f127_inv(n)
        return F254.pack(f127_mul(a0 ^ a1, ni), f127_mul(a1, ni))


class GLS254(Model):
    family = "gls"
    char2 = True
    name = "gls254"
    module = "gls254"
    coords = ["X", "S", "Z", "T"]
    const_relations = []
    p = 2  # characteristic; only used for gcd checks

    def __init__(self):
        self.u, self.sb = S("u"), S("sb")
        self.a = self.u
        self.b = self.sb * self.sb
        self.const_hyps = [self.u * self.u + self.u + 1]
        self.base = None      # set from the library's Point::BASE at run time
        self.trusted = ("x(A)*x(B) != b for group elements A = P+N, B = Q+N (it would need A -+ B = N, but "
                        "N is not in E[r]); in particular x(A)^2 != b (eprint 2022/1325, completeness)",
                        "adding N = (0,0): (x,y) + N = (b/x, b*(y+x)/x^2) (checked as spec lemma)")
        # concrete constants
        self.cU = F254.pack(0, 1)
        self.cSB = (1 << 27) | 1
        self.cB = (1 << 54) | 1

    # ---- symbolic ----
    def curve(self, xi, si):
        q = self.sb * xi * xi + self.u * xi + self.sb
        return si * si + xi * si + q * q

    def generic(self, tag):
        xi, si, z = S("x" + tag), S("s" + tag), S("z" + tag)
        return Affine((xi, si), [self.curve(xi, si)], [z], z, label="generic")

    def neutral(self, tag):
        z = S("z" + tag)
        return Affine((R.ZERO, self.sb), [], [z], z, neutral=True, label="neutral")

    def like(self, tag, other, negate=False):
        xi, si = other.xy
        z = S("z" + tag)
        return Affine((xi, (si + xi if negate else si)), [], [z], z, label=("-" if negate else "") + "same")

    def embed(self, A):
        xi, si = A.xy
        z = A.z
        return [xi * z, si * z * z, z, xi * z * z]

    def neg(self, A):
        xi, si = A.xy
        return (xi, si + xi)

    def xy(self, P):
        """curve coordinates (x, y) of the scaled affine (xi, si)"""
        xi, si = P
        return self.sb * xi, self.sb * (si + self.sb * xi * xi + self.u * xi + self.sb)

    def _yD_scaled(self, out):
        """Z3^2 * y(D) / ... : sb*S3 + b*X3^2 + a*sb*X3*Z3 + b*Z3^2  (= y(D)*Z3^2)"""
        X, Sx, Z, T = out
        return self.sb * Sx + self.b * X * X + self.a * self.sb * X * Z + self.b * Z * Z

    def rel_add(self, out, P, Q):
        """A, B, -(D+N) collinear and x(D+N) = chord x, D the output point; x1 != x2"""
        X, Sx, Z, T = out
        (x1, y1), (x2, y2) = self.xy(P), self.xy(Q)
        dC = (x1 + x2) * (x1 + x2)
        nC = (y1 + y2) * (y1 + y2) + (y1 + y2) * (x1 + x2) + (self.a + x1 + x2) * dC
        return [("x(D+N) = x(A+B)", X * nC + self.sb * dC * Z),
                ("A, B, -(D+N) collinear",
                 (self._yD_scaled(out) + y1 * X * X) * (x1 + x2) + (y1 + y2) * (self.sb * X * Z + x1 * X * X)),
                ("T=X*Z", T + X * Z)]

    def rel_double(self, out, P):
        X, Sx, Z, T = out
        x1, y1 = self.xy(P)
        mm = x1 * x1 + self.b + y1
        nC = mm * mm + mm * x1 + self.a * x1 * x1
        return [("x(D+N) = x(2A)", X * nC + self.sb * x1 * x1 * Z),
                ("-(D+N) on the tangent at A",
                 (self._yD_scaled(out) + y1 * X * X) * x1 + mm * (self.sb * X * Z + x1 * X * X)),
                ("T=X*Z", T + X * Z)]

    def rel_neutral(self, out):
        X, Sx, Z, T = out
        return [("X=0", X), ("S=sb*Z^2", Sx + self.sb * Z * Z), ("T=0", T)]

    def proportional(self, out, F):
        X, Sx, Z, T = out
        return [("X:Z", X * F[2] + F[0] * Z), ("S:Z^2", Sx * F[2] * F[2] + F[1] * Z * Z), ("T=X*Z", T + X * Z)]

    def same_element(self, A, B):
        return [("X:Z", A[0] * B[2] + B[0] * A[2]), ("S:Z^2", A[1] * B[2] * B[2] + B[1] * A[2] * A[2])]

    def validity(self, out):
        return [("T=X*Z", out[3] + out[0] * out[2])]

    def oncurve(self, out):
        X, Sx, Z, T = out
        q = self.sb * X * X + self.u * X * Z + self.sb * Z * Z
        return Sx * Sx + X * Sx * Z + q * q

    def spec_lemmas(self):
        """chord(P, N) = (b/x, b*(y+x)/x^2) on the curve (x,y), x != 0"""
        x, y = S("x"), S("y")
        h = y * y + x * y + x * x * x + self.a * x * x + self.b * x
        # lambda = y/x ; x' = l^2 + l + a + x ; y' = l*(x + x') + x' + y (with P2 = N: l*(0 + x') + x' + 0)
        # x' * x^2 = y^2 + x*y + a*x^2 + x^3  must equal b*x ; y' = (l+1)*x' = (y+x)/x * b/x
        return [("x(P+N)*x = b", (y * y + x * y + self.a * x * x + x * x * x) + self.b * x, [h])]

    # ---- concrete: curve points (x, y) / None, group elements given as (x, s) ----
    def c_mul(self, *xs):
        r = xs[0]
        for v in xs[1:]:
            r = F254.mul(r, v)
        return r

    def _y_of(self, x, s):
        return s ^ F254.mul(x, x) ^ F254.mul(self.cU, x) ^ self.cB

    def _s_of(self, x, y):
        return y ^ F254.mul(x, x) ^ F254.mul(self.cU, x) ^ self.cB

    def _w_oncurve(self, P):
        if P is None:
            return True
        x, y = P
        lhs = F254.mul(y, y) ^ F254.mul(x, y)
        x2 = F254.mul(x, x)
        rhs = F254.mul(x2, x) ^ F254.mul(self.cU, x2) ^ F254.mul(self.cB, x)
        return lhs == rhs

    def _w_add(self, P, Q):
        if P is None:
            return Q
        if Q is None:
            return P
        (x1, y1), (x2, y2) = P, Q
        if x1 == x2:
            if y2 == (y1 ^ x1):
                return None
            l = F254.mul(F254.mul(x1, x1) ^ self.cB ^ y1, F254.inv(x1))
        else:
            l = F254.mul(y1 ^ y2, F254.inv(x1 ^ x2))
        x3 = F254.mul(l, l) ^ l ^ self.cU ^ x1 ^ x2
        y3 = F254.mul(l, x1 ^ x3) ^ x3 ^ y1
        return (x3, y3)

    def _to_w(self, P):
        x, s = P
        return (x, self._y_of(x, s))

    def _from_w(self, W):
        if W is None:
            raise ValueError("point at infinity is not a group element")
        return (W[0], self._s_of(*W))

    def c_neutral(self):
        return (0, self.cB)

    def c_oncurve(self, P):
        return self._w_oncurve(self._to_w(P))

    def c_add(self, P, Q):
        return self._from_w(self._w_add(self._w_add(self._to_w(P), self._to_w(Q)), (0, 0)))

    def c_neg(self, P):
        return (P[0], P[1] ^ P[0])

    def c_rand(self, rng):
        if self.base is None:
            raise ValueError("GLS254 base point not set")
        k = rng.randrange(2, 1 << 14)
        g0 = self._w_add(self._to_w(self.base), (0, 0))       # in E[r]
        acc = None
        for bit in bin(k)[2:]:
            acc = self._w_add(acc, acc)
            if bit == "1":
                acc = self._w_add(acc, g0)
        return self._from_w(self._w_add(acc, (0, 0)))

    def c_special(self):
        return [("neutral", self.c_neutral())]

    def c_scalar(self, rng):
        return F254.pack(rng.getrandbits(127), rng.getrandbits(127)) or 1

    def c_embed(self, P, z):
        x, s = P
        isb = F254.inv(self.cSB)
        X = self.c_mul(x, z, isb)
        Sx = self.c_mul(s, z, z, isb)
        return [X, Sx, z, F254.mul(X, z)]

    def c_decode(self, f):
        X, Sx, Z, T = f
        if Z == 0:
            return None, False
        zi = F254.inv(Z)
        x = self.c_mul(self.cSB, X, zi)
        s = self.c_mul(self.cSB, Sx, zi, zi)
        P = (x, s)
        return P, (self.c_oncurve(P) and T == F254.mul(X, Z))

    def c_same(self, P, Q):
        return P is not None and Q is not None and P[0] == Q[0] and P[1] == Q[1]
