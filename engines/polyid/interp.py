"""Interpreter for the MIR subset used by point formulas.

Field elements are ring terms (terms.T); control flow must be concrete
(integers, loop counters) -- data-dependent selection happens only through
the field primitives `select/set_cond` and becomes `ite` terms.

Calls whose receiver is a field type (GF255<..>, GF448, GFsecp256k1,
ModInt256<..> (GFp256), GFb254/GFb127) are *primitives* when their name is in
PRIMS (the stub contract decided by C01/C20); any other field method (e.g.
`add_addsub_noreduce`) is interpreted from its own MIR, which is built from
those primitives."""
import copy as _copy
import re
from collections import Counter
from fractions import Fraction

from . import terms as R
from .mirparse import MirError, parse_block, skip_balanced, split_top


class Unsupported(MirError):
    pass


# --------------------------------------------------------------------------
# values

class IntV:
    __slots__ = ("v", "bits", "signed")

    def __init__(self, v, bits=64, signed=False):
        self.bits, self.signed = bits, signed
        v &= (1 << bits) - 1
        if signed and v >> (bits - 1):
            v -= 1 << bits
        self.v = v

    def __repr__(self):
        return "%d_%s%d" % (self.v, "i" if self.signed else "u", self.bits)

    def __deepcopy__(self, memo):
        return self


class BoolV(IntV):
    def __init__(self, v):
        IntV.__init__(self, 1 if v else 0, 8, False)


class MaskV:
    """a u32 that is 0xFFFFFFFF when cond holds, else 0"""
    __slots__ = ("cond", "bits")

    def __init__(self, cond, bits=32):
        self.cond, self.bits = cond, bits


class Agg:
    __slots__ = ("kind", "fields", "path", "names")

    def __init__(self, kind, fields, path=None, names=None):
        self.kind, self.fields, self.path, self.names = kind, list(fields), path, names

    def __repr__(self):
        return "%s%s%r" % (self.kind, ":" + self.path if self.path else "", self.fields)


class Variant(Agg):
    __slots__ = ("disc",)

    def __init__(self, disc, fields, path=None):
        Agg.__init__(self, "variant", fields, path)
        self.disc = disc


class Cell:
    __slots__ = ("val",)

    def __init__(self, val=None):
        self.val = val


class Ref:
    __slots__ = ("cell", "path")

    def __init__(self, cell, path=()):
        self.cell, self.path = cell, tuple(path)

    def get(self):
        v = self.cell.val
        for p in self.path:
            v = v.fields[p]
        return v

    def set(self, x):
        if not self.path:
            self.cell.val = x
            return
        v = self.cell.val
        if v is None:
            v = self.cell.val = Agg("auto", [])
        for p in self.path[:-1]:
            while len(v.fields) <= p:
                v.fields.append(None)
            if v.fields[p] is None:
                v.fields[p] = Agg("auto", [])
            v = v.fields[p]
        p = self.path[-1]
        while len(v.fields) <= p:
            v.fields.append(None)
        v.fields[p] = x


UNIT = Agg("tuple", [])


def clone(v):
    if isinstance(v, Variant):
        return Variant(v.disc, [clone(x) for x in v.fields], v.path)
    if isinstance(v, Agg):
        return Agg(v.kind, [clone(x) for x in v.fields], v.path, v.names)
    return v


# --------------------------------------------------------------------------
# names and types

_FIELD_TY = re.compile(r"^(GF[A-Za-z0-9_]*|ModInt256(ct)?)$")


def strip_generics(s):
    out = []
    depth = 0
    i = 0
    n = len(s)
    while i < n:
        c = s[i]
        if c == "<" :
            depth += 1
        elif c == ">" and not (i > 0 and s[i - 1] in "-="):
            depth -= 1
        elif depth == 0:
            out.append(c)
        i += 1
    return "".join(out).replace("::::", "::").rstrip(":")


def short_type(ty):
    """'&mut backend::w64::gf255_m64::GF255<19>' -> ('&mut ', 'GF255', module)"""
    ty = ty.strip()
    ty = re.sub(r"'\w+ ", "", ty)
    pre = ""
    while True:
        if ty.startswith("&mut "):
            pre += "&mut "
            ty = ty[5:]
        elif ty.startswith("&"):
            pre += "&"
            ty = ty[1:].lstrip()
        else:
            break
    base = strip_generics(ty)
    if "::" in base and not base.startswith(("(", "[")):
        mod, last = base.rsplit("::", 1)
    else:
        mod, last = "", base
    return pre, last, mod


def norm_type(ty):
    pre, last, mod = short_type(ty)
    return pre + last


class Callee:
    def __init__(self, text):
        self.text = text
        t = text.strip()
        self.trait = None
        self.rhs = None
        if t.startswith("<"):
            j = skip_balanced(t, 1, "")
            inner = t[1:j]
            rest = t[j + 1:]
            k = inner.find(" as ")
            # find ' as ' at depth 0
            depth = 0
            k = -1
            for i, c in enumerate(inner):
                if c == "<":
                    depth += 1
                elif c == ">" and not (i > 0 and inner[i - 1] in "-="):
                    depth -= 1
                elif depth == 0 and inner.startswith(" as ", i):
                    k = i
                    break
            if k < 0:
                self.selfty = inner
            else:
                self.selfty = inner[:k]
                tr = inner[k + 4:]
                self.trait = strip_generics(tr).rsplit("::", 1)[-1]
                m = re.match(r"[\w:]+<(.*)>$", tr)
                if m:
                    self.rhs = split_top(m.group(1))[0]
            self.method = strip_generics(rest).lstrip(":")
        else:
            base = strip_generics(t)
            if "::" in base:
                self.selfty, self.method = base.rsplit("::", 1)
            else:
                self.selfty, self.method = "", base
        _, self.self_short, self.self_mod = short_type(self.selfty) if self.selfty else ("", "", "")

    @property
    def is_field(self):
        return bool(_FIELD_TY.match(self.self_short))


_INT_TY = re.compile(r"^([iu])(8|16|32|64|128|size)$")


def int_type(ty):
    m = _INT_TY.match(ty.strip())
    if not m:
        return None
    bits = 64 if m.group(2) == "size" else int(m.group(2))
    return bits, m.group(1) == "i"


# --------------------------------------------------------------------------

class Frame:
    def __init__(self, body, depth):
        self.body = body
        self.depth = depth
        self.locals = {}

    def __deepcopy__(self, memo):
        f = Frame(self.body, self.depth)
        memo[id(self)] = f
        f.locals = _copy.deepcopy(self.locals, memo)
        return f

    def cell(self, i):
        c = self.locals.get(i)
        if c is None:
            c = self.locals[i] = Cell()
        return c

    def debug_local(self, name, pick=-1, nonref=False):
        """local index bound to a source-level variable name"""
        cands = []
        for n, pl in self.body.debug:
            if n == name and re.fullmatch(r"_\d+", pl):
                i = int(pl[1:])
                if nonref and self.body.local_types.get(i, "").startswith("&"):
                    continue
                cands.append(i)
        if not cands:
            raise MirError("no debug variable %s in %s" % (name, self.body.name))
        return cands[pick]


class Interp:
    MAX_STEPS = 2_000_000

    def __init__(self, mir, call_hook=None, const_hook=None, loop_hook=None, char2=False):
        self.mir = mir
        self.call_hook = call_hook
        self.const_hook = const_hook
        self.loop_hook = loop_hook
        self.char2 = char2
        self.prim_count = Counter()
        self.executed = Counter()
        self.named_consts = {}      # symbol name -> integer (or GF(2^254) tuple)
        self.steps = 0
        self._const_cache = {}
        self._resolve_cache = {}
        self.loop_counts = Counter()

    # ------------------------------------------------------------------
    def find_fn(self, module, type_name, method, nparams=None):
        """MIR item name of an inherent method `module::Type::method`"""
        out = []
        for nm in self.mir.by_last.get(method, []):
            if not nm.startswith(module + "::<impl"):
                continue
            for which, (kind, s, e) in enumerate(self.mir.items[nm]):
                if kind != "fn":
                    continue
                hdr = self.mir.lines[s]
                b = self.mir.body(nm, which)
                tys = [short_type(t) for _, t in b.params] + [short_type(b.ret)]
                if any(t[1] == type_name and (t[2] in ("", module)) for t in tys):
                    if nparams is None or len(b.params) == nparams:
                        out.append((nm, which))
        if len(out) != 1:
            raise MirError("find_fn %s::%s::%s: %d candidates" % (module, type_name, method, len(out)))
        return out[0]

    def find_sibling_fn(self, module, type_name, method, sibling="set_neg"):
        """an associated function that does not mention its type in its
        signature (e.g. a recoder): found in the impl block of `sibling`"""
        sib = self.find_fn(module, type_name, sibling)[0]
        prefix = sib.rsplit("::", 1)[0]
        nm = prefix + "::" + method
        if nm not in self.mir.items:
            # other impl blocks of the same module
            cands = [n for n in self.mir.by_last.get(method, []) if n.startswith(module + "::<impl")]
            if len(cands) != 1:
                raise MirError("find_sibling_fn %s::%s: %d candidates" % (module, method, len(cands)))
            nm = cands[0]
        return (nm, 0)

    def find_trait_fn(self, module, method, param_types):
        want = [norm_type(t) for t in param_types]
        out = []
        for nm in self.mir.by_last.get(method, []):
            if not nm.startswith(module + "::<impl"):
                continue
            for which, (kind, s, e) in enumerate(self.mir.items[nm]):
                if kind != "fn":
                    continue
                b = self.mir.body(nm, which)
                have = [norm_type(t) for _, t in b.params]
                if have == want:
                    out.append((nm, which))
        if len(out) != 1:
            raise MirError("find_trait_fn %s::%s%r: %d candidates" % (module, method, want, len(out)))
        return out[0]

    # ------------------------------------------------------------------
    def run(self, item, args):
        nm, which = item if isinstance(item, tuple) else (item, 0)
        body = self.mir.body(nm, which)
        return self._run_body(body, args, 1)

    def _run_body(self, body, args, depth):
        if depth > 40:
            raise Unsupported("call depth")
        self.executed[body.name] += 1
        fr = Frame(body, depth)
        if body.const_value is not None:
            return self.const_value(body.const_value, body)
        if len(args) != len(body.params):
            raise MirError("arity mismatch calling %s" % body.name)
        for (loc, ty), a in zip(body.params, args):
            fr.cell(loc).val = a
        return self._exec(fr, 0)

    def _exec(self, fr, bb):
        """run frame `fr` from basic block `bb` to its return (resumable: algorithm
        mode forks the top-level frame at symbolic branches)"""
        body = fr.body
        while True:
            self.steps += 1
            if self.steps > self.MAX_STEPS:
                raise Unsupported("step budget exceeded in " + body.name)
            blk = parse_block(body.blocks[bb])
            for st in blk.stmts:
                self.exec_stmt(fr, st)
            t = blk.term
            if t.kind == "goto":
                bb = t.target
            elif t.kind == "return":
                return fr.cell(0).val if fr.cell(0).val is not None else UNIT
            elif t.kind == "switch":
                v = self.operand(fr, t.op)
                if isinstance(v, MaskV) or not isinstance(v, IntV):
                    bb = self.switch_ext(fr, t, v, bb)
                    continue
                nxt = None
                for val, tgt in t.targets:
                    if val is None:
                        if nxt is None:
                            nxt = tgt
                    elif val == (v.v & ((1 << v.bits) - 1)):
                        nxt = tgt
                        break
                bb = nxt
            elif t.kind == "assert":
                op, expect = t.op
                v = self.operand(fr, op)
                if not isinstance(v, IntV):
                    self.assert_ext(fr, t, v, expect)
                    bb = t.target
                    continue
                if bool(v.v) != expect:
                    raise MirError("assertion failed in %s: %s" % (body.name, t.text))
                bb = t.target
            elif t.kind == "unreachable":
                raise MirError("reached `%s` in %s bb%d" % (t.text, body.name, bb))
            elif t.kind == "call":
                ret = self.call(fr, t)
                if t.dest is not None:
                    self.place_ref(fr, t.dest).set(ret)
                if t.target is None:
                    raise MirError("diverging call %s" % t.callee)
                bb = t.target
            else:
                raise Unsupported(t.kind)

    # ------------------------------------------------------------------
    def place_ref(self, fr, pl):
        cell = fr.cell(pl.local)
        path = ()
        for pr in pl.proj:
            k = pr[0]
            if k == "deref":
                v = Ref(cell, path).get()
                if not isinstance(v, Ref):
                    raise MirError("deref of non-reference %r in %s" % (v, fr.body.name))
                cell, path = v.cell, v.path
            elif k == "field":
                path = path + (pr[1],)
            elif k == "downcast":
                pass
            elif k == "index":
                iv = fr.cell(pr[1]).val
                if not isinstance(iv, IntV) or isinstance(iv, MaskV):
                    cell, path = self.index_ext(fr, Ref(cell, path), iv)
                    continue
                path = path + (iv.v,)
            elif k == "cindex":
                path = path + (pr[1],)
            else:
                raise Unsupported("projection " + k)
        return Ref(cell, path)

    def operand(self, fr, op):
        if op.kind == "const":
            return self.const_value(op.const, fr.body)
        v = self.place_ref(fr, op.place).get()
        if v is None:
            raise MirError("read of uninitialised %r in %s" % (op.place, fr.body.name))
        return clone(v)

    # ------------------------------------------------------------------
    def const_value(self, text, body=None):
        text = text.strip()
        m = re.fullmatch(r"(-?\d+)_([iu](?:8|16|32|64|128|size))", text)
        if m:
            bits, sg = int_type(m.group(2))
            return IntV(int(m.group(1)), bits, sg)
        if text in ("true", "false"):
            return BoolV(text == "true")
        m = re.fullmatch(r"([iu](?:8|16|32|64|128|size))::(MAX|MIN)", text)
        if m:
            bits, sg = int_type(m.group(1))
            if m.group(2) == "MAX":
                return IntV((1 << (bits - 1)) - 1 if sg else (1 << bits) - 1, bits, sg)
            return IntV(-(1 << (bits - 1)) if sg else 0, bits, sg)
        if text == "()":
            return UNIT
        if text.startswith(("\"", "b\"")):
            return Agg("str", [])
        if self.const_hook is not None:
            r = self.const_hook(self, text)
            if r is not NotImplemented:
                return r
        key = text
        if key in self._const_cache:
            return clone(self._const_cache[key])
        v = self._named_const(text)
        self._const_cache[key] = v
        return clone(v)

    def _named_const(self, text):
        base = strip_generics(text)
        parts = base.split("::")
        last = parts[-1]
        owner = parts[-2] if len(parts) >= 2 else ""
        if _FIELD_TY.match(owner) and last in ("ZERO", "ONE", "MINUS_ONE", "TWO"):
            return {"ZERO": R.ZERO, "ONE": R.ONE, "MINUS_ONE": R.const(-1), "TWO": R.const(2)}[last]
        if text in self.mir.items:
            cs = [(text, 0)]
        elif last.startswith("promoted[") and len(parts) >= 3:
            cs = []
            ty = parts[-3] if len(parts) >= 4 else ""
            for nm in self.mir.by_last.get(last, []):
                m = re.fullmatch(r"(.*<impl at [^>]*>)::%s::%s" % (re.escape(owner), re.escape(last)), nm)
                if not m or not nm.startswith(parts[0] + "::"):
                    continue
                st = self._impl_self_type(m.group(1))
                if st and ty and st != ty:
                    continue
                cs.append((nm, 0))
        else:
            mod = "::".join(parts[:-2])
            cs = []
            for nm in self.mir.by_last.get(last, []):
                for which, (kind, s, e) in enumerate(self.mir.items[nm]):
                    if kind not in ("const", "static"):
                        continue
                    if mod and not nm.startswith(mod + "::"):
                        continue
                    m = re.fullmatch(r"(.*<impl at [^>]*>)::" + re.escape(last), nm)
                    if m:
                        st = self._impl_self_type(m.group(1))
                        if st and owner and st != owner:
                            continue
                    elif owner and not nm.endswith("::%s::%s" % (owner, last)):
                        continue
                    cs.append((nm, which))
        if len(cs) != 1:
            raise MirError("cannot resolve constant %s (%d candidates)" % (text, len(cs)))
        nm, which = cs[0]
        body = self.mir.body(nm, which)
        v = self._run_body(body, [], 2)
        if isinstance(v, R.T) and R.is_const(v) and abs(v.aux) > (1 << 40):
            label = "%s_%s" % (nm.split("::")[0], last)
            self.named_consts[label] = int(v.aux)
            return R.sym(label)
        return v

    def _impl_self_type(self, prefix):
        """self type (short name) of the impl block `mod::<impl at ..>`"""
        cache = self.__dict__.setdefault("_impl_types", {})
        if prefix in cache:
            return cache[prefix]
        r = ""
        for nm, lst in self.mir.items.items():
            if not nm.startswith(prefix + "::"):
                continue
            for which, (kind, s, e) in enumerate(lst):
                if kind != "fn":
                    continue
                hdr = self.mir.lines[s]
                m = re.search(r"\(_1: (&(?:mut )?[^,)]+)", hdr)
                if m:
                    r = short_type(m.group(1))[1]
                    break
            if r:
                break
        cache[prefix] = r
        return r

    # ------------------------------------------------------------------
    def exec_stmt(self, fr, st):
        if st.kind == "setdisc":
            ref = self.place_ref(fr, st.place)
            v = ref.get()
            if isinstance(v, Variant):
                v.disc = st.rv
            else:
                ref.set(Variant(st.rv, v.fields if isinstance(v, Agg) else []))
            return
        rv = st.rv
        val = self.rvalue(fr, rv)
        self.place_ref(fr, st.place).set(val)

    def rvalue(self, fr, rv):
        k = rv.kind
        if k == "use":
            return self.operand(fr, rv.args[0])
        if k == "ref":
            return self.place_ref(fr, rv.args[0])
        if k == "tuple":
            return Agg("tuple", [self.operand(fr, a) for a in rv.args])
        if k == "struct":
            path, names = rv.aux
            return Agg("struct", [self.operand(fr, a) for a in rv.args], strip_generics(path), names)
        if k == "array":
            return Agg("array", [self.operand(fr, a) for a in rv.args])
        if k == "repeat":
            n = self.const_value(rv.aux) if not rv.aux.strip().isdigit() else IntV(int(rv.aux))
            v = self.operand(fr, rv.args[0])
            return Agg("array", [clone(v) for _ in range(n.v)])
        if k == "variant":
            path = strip_generics(rv.aux)
            last = path.rsplit("::", 1)[-1]
            if last == "Some":
                return Variant(1, [self.operand(fr, a) for a in rv.args], path)
            if last == "None":
                return Variant(0, [], path)
            # tuple struct constructor, e.g. ristretto255::Point(inner)
            return Agg("struct", [self.operand(fr, a) for a in rv.args], path)
        if k == "discriminant":
            v = self.place_ref(fr, rv.args[0]).get()
            if not isinstance(v, Variant):
                raise MirError("discriminant of non-enum")
            return IntV(v.disc, 64)
        if k == "len":
            v = self.place_ref(fr, rv.args[0]).get()
            return IntV(len(v.fields), 64)
        if k == "cast":
            v = self.operand(fr, rv.args[0])
            ty, kind = rv.aux
            it = int_type(ty)
            if isinstance(v, IntV) and it:
                return IntV(v.v, it[0], it[1])
            if isinstance(v, MaskV) and it and not it[1]:
                return MaskV(v.cond, it[0])
            if isinstance(v, Ref):
                return v
            return self.cast_ext(v, ty, kind)
        if k == "unop":
            v = self.operand(fr, rv.args[0])
            return self.unop(rv.aux, v)
        if k == "binop":
            a = self.operand(fr, rv.args[0])
            b = self.operand(fr, rv.args[1])
            return self.binop(rv.aux, a, b)
        raise Unsupported("rvalue " + k)

    # extension points (algorithm mode overrides these)
    def cast_ext(self, v, ty, kind):
        raise Unsupported("cast (%s, %s) of %r" % (ty, kind, v))

    def op_ext(self, op, a, b=None):
        return NotImplemented

    def switch_ext(self, fr, t, v, bb):
        raise Unsupported("switchInt on a symbolic value in %s bb%d" % (fr.body.name, bb))

    def assert_ext(self, fr, t, v, expect):
        raise Unsupported("assert on symbolic value")

    def index_ext(self, fr, base_ref, iv):
        raise Unsupported("symbolic index")

    def unop(self, op, v):
        r = self.op_ext(op, v)
        if r is not NotImplemented:
            return r
        if isinstance(v, MaskV):
            if op == "Not":
                return MaskV(R.bnot(v.cond), v.bits)
            if op == "Neg":
                raise Unsupported("Neg of mask")
        if isinstance(v, BoolV):
            if op == "Not":
                return BoolV(not v.v)
        if isinstance(v, IntV):
            if op == "Not":
                return IntV(~v.v, v.bits, v.signed)
            if op == "Neg":
                return IntV(-v.v, v.bits, v.signed)
        raise Unsupported("unop %s on %r" % (op, v))

    def binop(self, op, a, b):
        r = self.op_ext(op, a, b)
        if r is not NotImplemented:
            return r
        if isinstance(a, MaskV) or isinstance(b, MaskV):
            def cond(x):
                if isinstance(x, MaskV):
                    return x.cond
                full = (1 << x.bits) - 1
                if x.v & full == full:
                    return R.TRUE
                if x.v == 0:
                    return R.FALSE
                raise Unsupported("mask combined with a non-mask integer")
            bits = a.bits
            if op == "BitAnd":
                return MaskV(R.band(cond(a), cond(b)), bits)
            if op == "BitOr":
                return MaskV(R.bor(cond(a), cond(b)), bits)
            if op == "BitXor":
                ca, cb = cond(a), cond(b)
                return MaskV(R.bor(R.band(ca, R.bnot(cb)), R.band(R.bnot(ca), cb)), bits)
            raise Unsupported("binop %s on masks" % op)
        if not (isinstance(a, IntV) and isinstance(b, IntV)):
            raise Unsupported("binop %s on %r, %r" % (op, a, b))
        bits, sg = a.bits, a.signed
        x, y = a.v, b.v
        if op in ("Add", "AddUnchecked"):
            return IntV(x + y, bits, sg)
        if op in ("Sub", "SubUnchecked"):
            return IntV(x - y, bits, sg)
        if op in ("Mul", "MulUnchecked"):
            return IntV(x * y, bits, sg)
        if op == "BitAnd":
            return BoolV(x & y) if isinstance(a, BoolV) else IntV(x & y, bits, sg)
        if op == "BitOr":
            return BoolV(x | y) if isinstance(a, BoolV) else IntV(x | y, bits, sg)
        if op == "BitXor":
            return BoolV(x ^ y) if isinstance(a, BoolV) else IntV(x ^ y, bits, sg)
        if op in ("Shl", "ShlUnchecked"):
            return IntV(x << (y % bits), bits, sg)
        if op in ("Shr", "ShrUnchecked"):
            return IntV(x >> (y % bits), bits, sg)
        if op == "Div":
            return IntV(abs(x) // abs(y) * (1 if (x >= 0) == (y >= 0) else -1), bits, sg)
        if op == "Rem":
            return IntV(abs(x) % abs(y) * (1 if x >= 0 else -1), bits, sg)
        if op == "Eq":
            return BoolV(x == y)
        if op == "Ne":
            return BoolV(x != y)
        if op == "Lt":
            return BoolV(x < y)
        if op == "Le":
            return BoolV(x <= y)
        if op == "Gt":
            return BoolV(x > y)
        if op == "Ge":
            return BoolV(x >= y)
        raise Unsupported("binop " + op)

    # ------------------------------------------------------------------
    def call(self, fr, t):
        args = [self.operand(fr, a) for a in t.args]
        cal = t.callee if isinstance(t.callee, Callee) else Callee(t.callee)
        t.callee = cal
        if self.call_hook is not None:
            r = self.call_hook(self, fr, cal, args)
            if r is not NotImplemented:
                return r
        r = self.builtin(fr, cal, args)
        if r is not NotImplemented:
            return r
        if cal.is_field:
            r = self.field_prim(cal, args)
            if r is not NotImplemented:
                return r
        item = self.resolve(fr, cal, t.args)
        body = self.mir.body(*item)
        return self._run_body(body, args, fr.depth + 1)

    # ------------------------------------------------------------------
    def resolve(self, fr, cal, arg_ops):
        tys = []
        for a in arg_ops:
            if a.kind != "const" and not a.place.proj:
                tys.append(norm_type(fr.body.local_types.get(a.place.local, "?")))
            else:
                tys.append(None)
        key = (cal.text, tuple(tys))
        if key in self._resolve_cache:
            return self._resolve_cache[key]
        cands = []
        for nm in self.mir.by_last.get(cal.method, []):
            for which, (kind, s, e) in enumerate(self.mir.items[nm]):
                if kind != "fn":
                    continue
                b = self.mir.body(nm, which)
                if len(b.params) != len(tys):
                    continue
                have = [norm_type(ty) for _, ty in b.params]
                if all(w is None or w == h or h in ("Self", "&Self", "&mut Self") for w, h in zip(tys, have)):
                    cands.append((nm, which, have))
        if len(cands) > 1 and cal.self_mod:
            c2 = [c for c in cands if c[0].startswith(cal.self_mod + "::<impl")]
            if c2:
                cands = c2
        if len(cands) > 1 and cal.self_short:
            def mentions(c):
                b = self.mir.body(c[0], c[1])
                return any(short_type(ty)[1] == cal.self_short for _, ty in b.params) or \
                    short_type(b.ret)[1] == cal.self_short
            c2 = [c for c in cands if mentions(c)]
            if c2:
                cands = c2
        if len(cands) > 1 and cal.trait is None:
            # inherent call: the receiver (first parameter) must be the self type
            c2 = [c for c in cands if c[2] and c[2][0].lstrip("&mut ").strip() == cal.self_short]
            if c2:
                cands = c2
        if len(cands) > 1:
            # module of the caller as a last resort
            mod = fr.body.name.split("::<impl")[0]
            c2 = [c for c in cands if c[0].startswith(mod + "::<impl")]
            if c2:
                cands = c2
        if len(cands) != 1:
            raise MirError("cannot resolve call %s with %r from %s: %d candidates %r"
                           % (cal.text, tys, fr.body.name, len(cands), [c[0] for c in cands][:6]))
        self._resolve_cache[key] = cands[0][:2]
        return cands[0][:2]

    # ------------------------------------------------------------------
    def builtin(self, fr, cal, args):
        m, st, tr = cal.method, cal.self_short, cal.trait
        if tr == "IntoIterator" and m == "into_iter":
            return args[0]
        if tr == "Iterator" and m == "next":
            it = args[0]
            if self.loop_hook is not None:
                key = (fr.body.name, fr.depth)
                k = self.loop_counts[key]
                self.loop_counts[key] += 1
                self.loop_hook(self, fr, k, it)
            rng = it.get()
            rev = False
            holder = it
            if isinstance(rng, Agg) and rng.path and rng.path.endswith("Rev"):
                rev = True
                holder = Ref(it.cell, it.path + (0,))
                rng = rng.fields[0]
            if not (isinstance(rng, Agg) and rng.path and rng.path.endswith("Range")):
                raise Unsupported("Iterator::next on %r" % (rng,))
            s, e = rng.fields
            if s.v < e.v:
                if rev:
                    nv = IntV(e.v - 1, e.bits, e.signed)
                    Ref(holder.cell, holder.path + (1,)).set(nv)
                    return Variant(1, [nv])
                Ref(holder.cell, holder.path + (0,)).set(IntV(s.v + 1, s.bits, s.signed))
                return Variant(1, [s])
            return Variant(0, [])
        if tr == "Iterator" and m == "rev":
            return Agg("struct", [args[0]], "core::iter::Rev")
        if tr == "Clone" and m == "clone":
            return clone(args[0].get())
        if m == "leading_zeros" and isinstance(args[0], IntV):
            a = args[0]
            v = a.v & ((1 << a.bits) - 1)
            return IntV(a.bits - v.bit_length(), 32)
        if m == "wrapping_neg" and isinstance(args[0], IntV) and not isinstance(args[0], MaskV):
            a = args[0]
            return IntV(-a.v, a.bits, a.signed)
        if m in ("wrapping_sub", "wrapping_add") and all(isinstance(a, IntV) for a in args):
            a, b = args
            return IntV(a.v - b.v if m == "wrapping_sub" else a.v + b.v, a.bits, a.signed)
        if tr in ("From", "Into") and isinstance(args[0], IntV):
            return args[0]
        return NotImplemented

    # ------------------------------------------------------------------
    # field primitives (stub contracts: C01 field arithmetic, C20 selection)

    @staticmethod
    def _fv(x):
        if isinstance(x, Ref):
            x = x.get()
        if not isinstance(x, R.T):
            raise MirError("expected a field element, got %r" % (x,))
        return x

    @staticmethod
    def _cond(ctl):
        if isinstance(ctl, MaskV):
            return ctl.cond
        if isinstance(ctl, IntV):
            full = (1 << ctl.bits) - 1
            if ctl.v & full == full:
                return R.TRUE
            if ctl.v == 0:
                return R.FALSE
        raise MirError("control word is neither 0 nor all-ones: %r" % (ctl,))

    def _intarg(self, x):
        if isinstance(x, IntV) and not isinstance(x, MaskV):
            return x.v
        raise Unsupported("symbolic integer argument to a field primitive")

    _MULK = {"mul2": 2, "mul3": 3, "mul4": 4, "mul8": 8, "mul16": 16, "mul32": 32, "mul21": 21}

    def field_prim(self, cal, args):
        m = cal.method
        fv = self._fv
        P = self.prim_count
        two = R.const(2)

        def neg(a):
            return a if self.char2 else R.neg(a)

        def sub(a, b):
            return R.add(a, b) if self.char2 else R.sub(a, b)

        # value-returning binary operators (trait impls and inherent)
        if m in ("add", "add_noreduce") and len(args) == 2 and cal.trait in (None, "Add"):
            P["add"] += 1
            return R.add(fv(args[0]), fv(args[1]))
        if m in ("sub", "sub_noreduce") and len(args) == 2 and cal.trait in (None, "Sub"):
            P["sub"] += 1
            return sub(fv(args[0]), fv(args[1]))
        if m == "mul" and len(args) == 2 and cal.trait in (None, "Mul"):
            P["mul"] += 1
            return R.mul(fv(args[0]), fv(args[1]))
        if m == "neg" and len(args) == 1:
            P["neg"] += 1
            return neg(fv(args[0]))
        # assigning forms
        if m in ("add_assign", "set_add") and len(args) == 2:
            P["add"] += 1
            args[0].set(R.add(fv(args[0]), fv(args[1])))
            return UNIT
        if m in ("sub_assign", "set_sub") and len(args) == 2:
            P["sub"] += 1
            args[0].set(sub(fv(args[0]), fv(args[1])))
            return UNIT
        if m in ("mul_assign", "set_mul") and len(args) == 2:
            P["mul"] += 1
            args[0].set(R.mul(fv(args[0]), fv(args[1])))
            return UNIT
        if m == "set_neg" and len(args) == 1:
            P["neg"] += 1
            args[0].set(neg(fv(args[0])))
            return UNIT
        if m == "square" and len(args) == 1:
            P["mul"] += 1
            a = fv(args[0])
            return R.mul(a, a)
        if m == "set_square" and len(args) == 1:
            P["mul"] += 1
            a = fv(args[0])
            args[0].set(R.mul(a, a))
            return UNIT
        if m in ("xsquare", "set_xsquare") and len(args) == 2:
            a = fv(args[0])
            for _ in range(self._intarg(args[1])):
                P["mul"] += 1
                a = R.mul(a, a)
            if m == "set_xsquare":
                args[0].set(a)
                return UNIT
            return a
        if m in self._MULK and len(args) == 1:
            P["mulk"] += 1
            return R.scale(self._MULK[m], fv(args[0]))
        if m.startswith("set_") and m[4:] in self._MULK and len(args) == 1:
            P["mulk"] += 1
            args[0].set(R.scale(self._MULK[m[4:]], fv(args[0])))
            return UNIT
        if m == "mul2_noreduce" and len(args) == 1:
            P["mulk"] += 1
            return R.scale(2, fv(args[0]))
        if m in ("mul_small", "mul_u16", "mul_u32") and len(args) == 2:
            P["mulk"] += 1
            return R.scale(self._intarg(args[1]), fv(args[0]))
        if m == "set_mul_small" and len(args) == 2:
            P["mulk"] += 1
            args[0].set(R.scale(self._intarg(args[1]), fv(args[0])))
            return UNIT
        if m == "half" and len(args) == 1:
            if self.char2:
                raise Unsupported("half in characteristic 2")
            P["half"] += 1
            return R.scale(Fraction(1, 2), fv(args[0]))
        if m == "set_half" and len(args) == 1:
            if self.char2:
                raise Unsupported("half in characteristic 2")
            P["half"] += 1
            args[0].set(R.scale(Fraction(1, 2), fv(args[0])))
            return UNIT
        # selection
        if m == "select" and len(args) == 3:
            P["select"] += 1
            return R.ite(self._cond(args[2]), fv(args[1]), fv(args[0]))
        if m == "set_cond" and len(args) == 3:
            P["select"] += 1
            args[0].set(R.ite(self._cond(args[2]), fv(args[1]), fv(args[0])))
            return UNIT
        if m == "set_condneg" and len(args) == 2:
            P["select"] += 1
            a = fv(args[0])
            args[0].set(R.ite(self._cond(args[1]), neg(a), a))
            return UNIT
        if m == "iszero" and len(args) == 1:
            P["iszero"] += 1
            return MaskV(R.iszero(fv(args[0])))
        if m == "equals" and len(args) == 2:
            P["iszero"] += 1
            return MaskV(R.iszero(sub(fv(args[0]), fv(args[1]))))
        # constants
        if m in ("w64be", "from_w64be", "w64le", "from_w64le") and len(args) == 1 and \
                isinstance(args[0], Agg) and all(isinstance(a, IntV) for a in args[0].fields):
            args = list(args[0].fields)
        if m in ("w64be", "from_w64be") and all(isinstance(a, IntV) for a in args):
            v = 0
            for a in args:
                v = (v << 64) | (a.v & (2 ** 64 - 1))
            return self._ground(cal, v, len(args))
        if m in ("w64le", "from_w64le") and all(isinstance(a, IntV) for a in args):
            v = 0
            for a in reversed(args):
                v = (v << 64) | (a.v & (2 ** 64 - 1))
            return self._ground(cal, v, len(args))
        if m in ("from_u32", "from_u64", "from_i32", "from_i64", "from_u128", "from_i128") and \
                isinstance(args[0], IntV):
            return R.const(args[0].v)
        # binary-field constant multipliers (GLS254)
        if m in ("mul_u", "mul_u1", "mul_sb", "mul_b", "mul_bb") and len(args) == 1:
            P["mulc"] += 1
            a = fv(args[0])
            u, sb = R.sym("u"), R.sym("sb")
            k = {"mul_u": u, "mul_u1": R.add(u, R.ONE), "mul_sb": sb, "mul_b": R.mul(sb, sb),
                 "mul_bb": R.mul(R.mul(sb, sb), R.mul(sb, sb))}[m]
            return R.mul(a, k)
        if m == "b127" and len(args) == 2:
            a0, a1 = args
            return R.add(fv(a0), R.mul(fv(a1), R.sym("u")))
        return NotImplemented

    def _ground(self, cal, v, nwords):
        if self.char2:
            # GF(2^127) (2 words) or GF(2^254) (4 words: x0 + u*x1)
            if nwords == 2:
                return self._gf2const(v)
            lo, hi = v & ((1 << 128) - 1), v >> 128
            return R.add(self._gf2const(lo), R.mul(self._gf2const(hi), R.sym("u")))
        return R.const(v)

    def _gf2const(self, bits):
        if bits in (0, 1):
            return R.const(bits)
        if bits == (1 << 27) | 1:
            self.named_consts["sb"] = bits
            return R.sym("sb")
        if bits == (1 << 54) | 1:
            self.named_consts["sb"] = (1 << 27) | 1
            return R.mul(R.sym("sb"), R.sym("sb"))
        name = "gf2c_%x" % bits
        self.named_consts[name] = bits
        return R.sym(name)
