"""Parser for the subset of rustc's `-Zunpretty=mir` text that point formulas
use.  The dump is indexed by item header; bodies are parsed lazily."""
import re


class MirError(Exception):
    pass


# --------------------------------------------------------------------------
# low-level scanning helpers

_OPEN = "([{<"
_CLOSE = ")]}>"


def skip_balanced(s, i, stops):
    """advance from i until a char in `stops` is met at nesting depth 0.
    `->` and `=>` never close a '<'.  Returns index of the stop char (or len)."""
    depth = 0
    n = len(s)
    while i < n:
        c = s[i]
        if c == '"':
            i += 1
            while i < n and s[i] != '"':
                if s[i] == "\\":
                    i += 1
                i += 1
            i += 1
            continue
        if c == ">" and i > 0 and s[i - 1] in "-=":
            i += 1
            continue
        if depth == 0 and c in stops:
            return i
        if c in _OPEN:
            depth += 1
        elif c in _CLOSE:
            if depth == 0:
                return i
            depth -= 1
        i += 1
    return n


def split_top(s, sep=","):
    """split at top-level separators"""
    out = []
    i = 0
    start = 0
    n = len(s)
    while i < n:
        j = skip_balanced(s, i, sep)
        if j >= n or s[j] != sep:
            # either end or an unbalanced close; treat rest as one piece
            if j < n:
                i = j + 1
                continue
            break
        out.append(s[start:j].strip())
        i = j + 1
        start = i
    tail = s[start:].strip()
    if tail:
        out.append(tail)
    return out


# --------------------------------------------------------------------------
# AST

class Place:
    __slots__ = ("local", "proj")

    def __init__(self, local, proj=()):
        self.local = local
        self.proj = tuple(proj)

    def __repr__(self):
        return "P(_%d%s)" % (self.local, "".join("." + str(p) for p in self.proj))


class Operand:
    __slots__ = ("kind", "place", "const")

    def __init__(self, kind, place=None, const=None):
        self.kind, self.place, self.const = kind, place, const

    def __repr__(self):
        return "%s %s" % (self.kind, self.place if self.place is not None else self.const)


class Rvalue:
    __slots__ = ("kind", "args", "aux")

    def __init__(self, kind, args=(), aux=None):
        self.kind, self.args, self.aux = kind, list(args), aux

    def __repr__(self):
        return "R(%s %s %s)" % (self.kind, self.args, self.aux)


class Stmt:
    __slots__ = ("kind", "place", "rv", "text")

    def __init__(self, kind, place=None, rv=None, text=""):
        self.kind, self.place, self.rv, self.text = kind, place, rv, text


class Term:
    __slots__ = ("kind", "dest", "callee", "args", "target", "targets", "op", "text")

    def __init__(self, kind, **kw):
        self.kind = kind
        self.dest = self.callee = self.target = self.op = None
        self.args = []
        self.targets = []
        self.text = ""
        for k, v in kw.items():
            setattr(self, k, v)


class Block:
    __slots__ = ("stmts", "term", "_lines")

    def __init__(self):
        self.stmts = []
        self.term = None
        self._lines = []


class Body:
    def __init__(self, kind, name, header):
        self.kind = kind            # fn / const / static / promoted
        self.name = name            # full path as printed
        self.header = header
        self.params = []            # [(local, type)]
        self.ret = None
        self.local_types = {}       # local -> type string
        self.debug = []             # [(name, text of place)]
        self.blocks = {}            # id -> Block
        self.const_value = None     # for `const X: T = const 39081_u32;`


# --------------------------------------------------------------------------
# place / operand / rvalue

_LOCAL = re.compile(r"_(\d+)")


def parse_place(s, i=0):
    n = len(s)
    if s[i] == "_":
        m = _LOCAL.match(s, i)
        if not m:
            raise MirError("bad place: " + s[i:i + 40])
        pl = Place(int(m.group(1)))
        i = m.end()
    elif s[i] == "(":
        if s[i + 1] == "*":
            inner, i = parse_place(s, i + 2)
            if s[i] != ")":
                raise MirError("expected ) after deref: " + s)
            i += 1
            pl = Place(inner.local, inner.proj + (("deref",),))
        else:
            inner, i = parse_place(s, i + 1)
            if s.startswith(" as ", i):
                j = s.index(")", i)
                variant = s[i + 4:j]
                pl = Place(inner.local, inner.proj + (("downcast", variant),))
                i = j + 1
            elif s[i] == ".":
                m = re.compile(r"\.(\d+): ").match(s, i)
                if not m:
                    raise MirError("bad field projection: " + s[i:i + 40])
                j = skip_balanced(s, m.end(), "")
                if j >= n or s[j] != ")":
                    raise MirError("unterminated field type: " + s)
                pl = Place(inner.local, inner.proj + (("field", int(m.group(1))),))
                i = j + 1
            elif s[i] == ")":
                pl = inner
                i += 1
            else:
                raise MirError("bad place: " + s)
    else:
        raise MirError("bad place start: " + s[i:i + 40])
    # index suffixes
    while i < n and s[i] == "[":
        j = s.index("]", i)
        inner = s[i + 1:j]
        m = _LOCAL.fullmatch(inner)
        if m:
            pl = Place(pl.local, pl.proj + (("index", int(m.group(1))),))
        else:
            m = re.fullmatch(r"(-?\d+) of (\d+)", inner)
            if m:
                pl = Place(pl.local, pl.proj + (("cindex", int(m.group(1))),))
            else:
                m = re.fullmatch(r"(\d*):(-?\d*)", inner)
                if not m:
                    raise MirError("bad index: " + inner)
                pl = Place(pl.local, pl.proj + (("subslice", inner),))
        i = j + 1
    return pl, i


def parse_operand(s):
    s = s.strip()
    if s.startswith("copy "):
        pl, i = parse_place(s, 5)
        if s[i:].strip():
            raise MirError("trailing text in operand: " + s)
        return Operand("copy", pl)
    if s.startswith("move "):
        pl, i = parse_place(s, 5)
        if s[i:].strip():
            raise MirError("trailing text in operand: " + s)
        return Operand("move", pl)
    if s.startswith("const "):
        return Operand("const", const=s[6:].strip())
    raise MirError("bad operand: " + s)


_BINOPS = {"Add", "Sub", "Mul", "Div", "Rem", "BitXor", "BitAnd", "BitOr", "Shl", "Shr",
           "Eq", "Lt", "Le", "Ne", "Ge", "Gt", "Cmp", "Offset",
           "AddUnchecked", "SubUnchecked", "MulUnchecked", "ShlUnchecked", "ShrUnchecked",
           "AddWithOverflow", "SubWithOverflow", "MulWithOverflow"}
_UNOPS = {"Not", "Neg", "PtrMetadata"}


def parse_rvalue(s):
    s = s.strip()
    for pre in ("no_retag ", "deref_copy "):
        if s.startswith(pre):
            s = s[len(pre):]
            if not s.startswith(("copy ", "move ")):
                s = "copy " + s
    if s.startswith("&"):
        t = s[1:]
        mut = False
        if t.startswith("raw const "):
            t = t[10:]
        elif t.startswith("raw mut "):
            t = t[8:]
            mut = True
        elif t.startswith("mut "):
            t = t[4:]
            mut = True
        # two-phase borrows print as `&mut P` too
        pl, i = parse_place(t.strip(), 0)
        return Rvalue("ref", [pl], mut)
    if s.startswith(("copy ", "move ", "const ")):
        # plain operand or cast
        m = re.search(r" as (.+) \((\w+(?:\([^)]*\))?)\)$", s)
        if m and not s.startswith("const "):
            return Rvalue("cast", [parse_operand(s[:m.start()])], (m.group(1), m.group(2)))
        if m and s.startswith("const "):
            # const casts are rare; try operand first
            try:
                return Rvalue("cast", [parse_operand(s[:m.start()])], (m.group(1), m.group(2)))
            except MirError:
                pass
        return Rvalue("use", [parse_operand(s)])
    m = re.match(r"(\w+)\(", s)
    if m and s.endswith(")"):
        name = m.group(1)
        inner = s[m.end():-1]
        if name in _BINOPS:
            a = split_top(inner)
            return Rvalue("binop", [parse_operand(x) for x in a], name)
        if name in _UNOPS:
            return Rvalue("unop", [parse_operand(inner)], name)
        if name == "discriminant":
            pl, _ = parse_place(inner, 0)
            return Rvalue("discriminant", [pl])
        if name == "Len":
            pl, _ = parse_place(inner, 0)
            return Rvalue("len", [pl])
    if s.startswith("("):
        inner = s[1:-1].strip()
        if not s.endswith(")"):
            raise MirError("bad tuple: " + s)
        if inner == "":
            return Rvalue("tuple", [])
        return Rvalue("tuple", [parse_operand(x) for x in split_top(inner)])
    if s.startswith("["):
        inner = s[1:-1]
        parts = split_top(inner, ";")
        if len(parts) == 2:
            return Rvalue("repeat", [parse_operand(parts[0])], parts[1])
        return Rvalue("array", [parse_operand(x) for x in split_top(inner)])
    # aggregates: `Path { f: op, ... }` or `Path::Variant(op, ...)` or `Path::Variant`
    if s.endswith("}"):
        j = s.index(" {")
        path = s[:j]
        inner = s[j + 2:-1].strip()
        fields = []
        for part in split_top(inner):
            k = part.index(": ")
            fields.append((part[:k], parse_operand(part[k + 2:])))
        return Rvalue("struct", [f[1] for f in fields], (path, [f[0] for f in fields]))
    if s.endswith(")"):
        # find the opening paren of the argument list
        depth = 0
        j = len(s) - 1
        while j >= 0:
            if s[j] == ")":
                depth += 1
            elif s[j] == "(":
                depth -= 1
                if depth == 0:
                    break
            j -= 1
        path = s[:j]
        inner = s[j + 1:-1]
        return Rvalue("variant", [parse_operand(x) for x in split_top(inner)], path)
    if re.fullmatch(r"[\w:<>, &\[\]\(\)]+", s):
        return Rvalue("variant", [], s)
    raise MirError("unparsed rvalue: " + s)


# --------------------------------------------------------------------------
# statements / terminators

_BB = re.compile(r"bb(\d+)")


def _targets(txt):
    """'[return: bb1, unwind continue]' -> dict"""
    d = {}
    txt = txt.strip()
    if txt.startswith("["):
        txt = txt[1:-1]
    for part in split_top(txt):
        if ": " in part:
            k, v = part.split(": ", 1)
            m = _BB.fullmatch(v.strip())
            d[k.strip()] = int(m.group(1)) if m else v.strip()
        else:
            d[part] = None
    return d


def parse_line(line, blk):
    """parse one `...;` line inside a basic block; returns True when it was a
    terminator"""
    s = line.strip()
    if s.endswith(";"):
        s = s[:-1]
    if s.startswith("goto -> "):
        blk.term = Term("goto", target=int(_BB.search(s).group(1)))
        return True
    if s == "return":
        blk.term = Term("return")
        return True
    if s in ("unreachable", "resume", "abort", "unwind resume", "terminate(abi)"):
        blk.term = Term("unreachable", text=s)
        return True
    if s.startswith("switchInt("):
        j = skip_balanced(s, len("switchInt("), "")
        op = parse_operand(s[len("switchInt("):j])
        rest = s[j + 1:].strip()
        assert rest.startswith("-> ")
        tg = []
        for part in split_top(rest[3:].strip()[1:-1]):
            k, v = part.split(": ")
            tg.append((None if k == "otherwise" else int(k), int(_BB.fullmatch(v).group(1))))
        blk.term = Term("switch", op=op, targets=tg)
        return True
    if s.startswith("drop("):
        j = s.index(") -> ")
        d = _targets(s[j + 5:])
        blk.term = Term("goto", target=d.get("return"))
        return True
    if s.startswith("assert("):
        j = s.rindex(") -> ")
        d = _targets(s[j + 5:])
        inner = s[len("assert("):j]
        cond = split_top(inner)[0]
        neg = cond.startswith("!")
        blk.term = Term("assert", op=(parse_operand(cond.lstrip("!")), not neg),
                        target=d.get("success"), text=inner)
        return True
    if s.startswith(("StorageLive(", "StorageDead(", "nop", "ConstEvalCounter", "FakeRead(",
                     "AscribeUserType(", "Coverage", "PlaceMention(", "Retag(", "Deinit(",
                     "BackwardIncompatibleDropHint(")):
        return False
    if s.startswith("assume("):
        return False
    if s.startswith("discriminant("):
        m = re.match(r"discriminant\((.*)\) = (\d+)$", s)
        pl, _ = parse_place(m.group(1), 0)
        blk.stmts.append(Stmt("setdisc", pl, int(m.group(2)), s))
        return False
    # assignment or call
    pl, i = parse_place(s, 0)
    if not s.startswith(" = ", i):
        raise MirError("unparsed statement: " + s)
    rhs = s[i + 3:]
    m = re.search(r" -> (\[.*\]|unwind \w+|bb\d+)$", rhs)
    if m:
        call = rhs[:m.start()]
        tg = m.group(1)
        d = _targets(tg) if tg.startswith("[") else {}
        # locate the argument list
        depth = 0
        j = len(call) - 1
        while j >= 0:
            c = call[j]
            if c == ")":
                depth += 1
            elif c == "(":
                depth -= 1
                if depth == 0:
                    break
            j -= 1
        callee = call[:j]
        args = [parse_operand(x) for x in split_top(call[j + 1:-1])]
        blk.term = Term("call", dest=pl, callee=callee, args=args, target=d.get("return"), text=s)
        return True
    blk.stmts.append(Stmt("assign", pl, parse_rvalue(rhs), s))
    return False


# --------------------------------------------------------------------------
# the dump

_HDR = re.compile(r"^(fn|const|static|static mut) (.*)$")


class Mir:
    def __init__(self, text):
        self.lines = text.split("\n")
        self.items = {}     # name -> (kind, start, end)
        self.by_last = {}   # last path segment -> [name]
        self._parsed = {}
        self._index()

    def _index(self):
        L = self.lines
        n = len(L)
        i = 0
        self.allocs = {}    # alloc id -> (static name, first line, last line)
        last_mod = ""
        while i < n:
            ln = L[i]
            if ln.startswith("alloc"):
                ma = re.match(r"alloc(\d+) \((?:static: ([^,]+), )?size: (\d+)", ln)
                if ma:
                    j = i + 1
                    while j < n and L[j] != "}":
                        j += 1
                    nm = ma.group(2)
                    if nm and "::" not in nm and last_mod:
                        nm = last_mod + "::" + nm
                    if nm:
                        self.allocs.setdefault(int(ma.group(1)), (nm, i, j))
                    i = j + 1
                    continue
            if ln and not ln[0].isspace() and not ln.startswith("//"):
                m = _HDR.match(ln)
                if m and m.group(1) == "fn":
                    last_mod = m.group(2).split("::")[0]
                if m or ln.startswith("promoted["):
                    # single-line const?  `const X: T = const 1_u32;`
                    start = i
                    if ln.rstrip().endswith(";") and not ln.rstrip().endswith("{"):
                        end = i
                    else:
                        j = i + 1
                        while j < n and L[j] != "}":
                            j += 1
                        end = j
                    self._register(ln, start, end)
                    i = end + 1
                    continue
            i += 1

    def _register(self, hdr, start, end):
        if hdr.startswith("promoted["):
            m = re.match(r"promoted\[(\d+)\] in (.*?): ", hdr)
            if not m:
                return
            name = "%s::promoted[%s]" % (m.group(2), m.group(1))
            kind = "promoted"
        else:
            m = _HDR.match(hdr)
            kind = m.group(1)
            rest = m.group(2)
            if kind == "fn":
                j = self._fn_name_end(rest)
                name = rest[:j]
            else:
                j = skip_balanced(rest, 0, ":")
                # the path itself contains '::' -- find ': ' at depth 0 that is
                # not part of '::'
                j = self._const_name_end(rest)
                name = rest[:j]
        self.items.setdefault(name, []).append((kind, start, end))
        last = name.rsplit("::", 1)[-1]
        self.by_last.setdefault(last, []).append(name)

    @staticmethod
    def _fn_name_end(rest):
        # name ends at the '(' that opens the parameter list: first '(' at
        # depth 0 outside <...>
        depth = 0
        i = 0
        n = len(rest)
        while i < n:
            c = rest[i]
            if c == "<":
                depth += 1
            elif c == ">" and not (i > 0 and rest[i - 1] in "-="):
                depth -= 1
            elif c == "(" and depth == 0:
                return i
            i += 1
        return n

    @staticmethod
    def _const_name_end(rest):
        depth = 0
        i = 0
        n = len(rest)
        while i < n:
            c = rest[i]
            if c == "<":
                depth += 1
            elif c == ">" and not (i > 0 and rest[i - 1] in "-="):
                depth -= 1
            elif c == ":" and depth == 0:
                if rest.startswith("::", i):
                    i += 2
                    continue
                if i > 0 and rest[i - 1] == ":":
                    i += 1
                    continue
                return i
            i += 1
        return n

    # ------------------------------------------------------------------
    def body(self, name, which=0):
        key = (name, which)
        if key in self._parsed:
            return self._parsed[key]
        if name not in self.items:
            raise MirError("no MIR item " + name)
        kind, start, end = self.items[name][which]
        b = self._parse_body(kind, name, start, end)
        self._parsed[key] = b
        return b

    def header(self, name, which=0):
        kind, start, end = self.items[name][which]
        return self.lines[start]

    def _parse_body(self, kind, name, start, end):
        L = self.lines
        hdr = L[start]
        b = Body(kind, name, hdr)
        if start == end:
            m = re.search(r" = const (.*);$", hdr)
            if not m:
                raise MirError("unparsed single-line item: " + hdr)
            b.const_value = m.group(1)
            return b
        if kind == "fn":
            rest = hdr[3:]
            j = self._fn_name_end(rest)
            k = skip_balanced(rest, j + 1, "")
            ps = rest[j + 1:k]
            for part in split_top(ps):
                m = re.match(r"_(\d+): (.*)$", part)
                if m:
                    b.params.append((int(m.group(1)), m.group(2)))
            m = re.search(r"\) -> (.*) \{$", rest[k:])
            b.ret = m.group(1) if m else "()"
        cur = None
        inblock = False
        for i in range(start + 1, end):
            ln = L[i]
            s = ln.strip()
            if not s or s.startswith("//"):
                continue
            m = re.match(r"let (?:mut )?_(\d+): (.*);$", s)
            if m and cur is None:
                b.local_types[int(m.group(1))] = m.group(2)
                continue
            if cur is None and s.startswith("debug "):
                m = re.match(r"debug (\S+) => (.*);$", s)
                if m:
                    b.debug.append((m.group(1), m.group(2)))
                continue
            m = re.match(r"bb(\d+)(?: \(cleanup\))?: \{$", s)
            if m:
                cur = Block()
                inblock = True
                b.blocks[int(m.group(1))] = cur
                continue
            if s == "}":
                inblock = False
                continue
            if cur is None or not inblock:
                continue
            cur._lines.append(s)
        for p, t in b.params:
            b.local_types[p] = t
        # parse lazily per block: keep raw lines, parse on demand
        return b


def parse_block(blk):
    if blk.term is not None:
        return blk
    for s in blk._lines:
        if parse_line(s, blk):
            break
    if blk.term is None:
        raise MirError("block without terminator")
    return blk

