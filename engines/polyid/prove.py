"""Deciding polynomial identities modulo an ideal.

`f == 0 (mod h_1..h_k)` is decided by z3: sympy (untrusted) divides f by the
hypotheses for a lex order in which they form a Groebner basis and returns
cofactors c_i (and, when the leading coefficients of the h_i involve a
declared *unit* symbol such as the Edwards constant d, a monomial M in the
units); z3 is then asked whether

        M * f  -  sum_i c_i * h_i  !=  0

is satisfiable over the reals, with f given as the *unexpanded* DAG produced
by executing the MIR.  `unsat` means the polynomial identity holds over Q,
hence in every commutative ring in which the denominators occurring in the
certificate (reported; always powers of 2 here) and M are invertible."""
import time
from fractions import Fraction
from math import gcd

import z3
from sympy import QQ, lex, ring
from sympy.polys.orderings import grevlex

from . import terms as R

Z3_VERSION = "z3 " + z3.get_version_string()


class Result:
    def __init__(self, status, seconds=0.0, info="", queries=1, denoms=1, mult=None):
        self.status = status      # 'unsat' | 'nocert' | 'unknown' | 'sat'
        self.seconds = seconds
        self.info = info
        self.queries = queries
        self.denoms = denoms      # lcm of integer denominators used in the certificate
        self.mult = mult          # textual multiplier M (None == 1)

    @property
    def ok(self):
        return self.status == "unsat"


class Ideal:
    """hypotheses h_i (terms, meaning h_i = 0), a variable order, optional
    unit symbols (inverted inside the certificate search only)."""

    def __init__(self, hyps, order, units=(), char2=False):
        self.hyps = list(hyps)
        self.units = [u for u in units]
        self.order = [v for v in order if v not in self.units]
        self.char2 = char2
        self._ring = None

    def extended(self, extra_syms):
        """make sure every symbol is a generator (appended last = smallest)"""
        names = set(self.order) | set(self.units)
        add = [s for s in extra_syms if s not in names]
        if add:
            self.order = self.order + sorted(add)
            self._ring = None

    def ring(self):
        if self._ring is None:
            if self.units:
                K = QQ.frac_field(*self.units)
                Rg = ring(self.order, K, lex)[0]
                gens = dict(zip(self.order, Rg.gens))
                for u, g in zip(self.units, K.gens):
                    gens[u] = Rg.ground_new(g)
            else:
                K = QQ
                Rg = ring(self.order, QQ, lex)[0]
                gens = dict(zip(self.order, Rg.gens))
            H = [to_poly(h, Rg, gens) for h in self.hyps]
            if self.char2:
                H = [Rg.ground_new(K.convert(2))] + H
                from sympy import GF
                R2 = ring(self.order, GF(2), lex)[0]
                self._ring2 = (R2, [self._to2(h, R2) for h in H[1:]])
            self._ring = (Rg, gens, K, H)
        return self._ring

    @staticmethod
    def _to2(P, R2):
        out = R2.zero
        for mon, c in P.terms():
            if c.denominator != 1:
                raise ValueError("non-integer coefficient in characteristic 2")
            if int(c) % 2:
                out += R2.term_new(mon, R2.domain.one)
        return out

    def nf2(self, t):
        """characteristic 2: (remainder over GF(2), GF(2) cofactors)"""
        F = self.poly(t)
        Rg, gens, K, H = self.ring()
        R2, H2 = self._ring2
        F2 = self._to2(F, R2)
        if H2:
            q, r = F2.div(H2)
        else:
            q, r = [], F2
        return F, q, r

    def poly(self, t):
        self.extended(R.symbols([t] + self.hyps))
        Rg, gens, K, H = self.ring()
        return to_poly(t, Rg, gens)

    def nf(self, t):
        """(cofactors, remainder) of t modulo the hypotheses (untrusted)"""
        F = self.poly(t)
        Rg, gens, K, H = self.ring()
        if self.char2:
            F, q2, r2 = self.nf2(t)
            # lift: cofactors with 0/1 coefficients; c0 = (F - sum c_i h_i - r) / 2
            cof = [_lift2(qi, Rg) for qi in q2]
            rem = _lift2(r2, Rg)
            resid = F - rem
            for ci, hi in zip(cof, H[1:]):
                resid = resid - ci * hi
            c0 = Rg.zero
            for mon, c in resid.terms():
                if c.denominator != 1 or int(c) % 2:
                    raise ValueError("characteristic-2 lifting failed")
                c0 += Rg.term_new(mon, Rg.domain.convert(int(c) // 2))
            return [c0] + cof, rem
        if not H:
            return [], F
        q, r = F.div(H)
        return q, r


def to_poly(t, Rg, gens):
    memo = {}
    dom = Rg.domain
    for x in R.topo([t]):
        a = [memo[y.id] for y in x.args]
        if x.op == "sym":
            r = gens[x.aux]
        elif x.op == "const":
            r = Rg.ground_new(dom.convert(QQ(x.aux.numerator, x.aux.denominator)))
        elif x.op == "add":
            r = a[0] + a[1]
        elif x.op == "sub":
            r = a[0] - a[1]
        elif x.op == "mul":
            r = a[0] * a[1]
        elif x.op == "neg":
            r = -a[0]
        else:
            raise ValueError("to_poly: unresolved " + x.op)
        memo[x.id] = r
    return memo[t.id]


def _lift2(P2, Rg):
    out = Rg.zero
    for mon, c in P2.terms():
        if int(c) % 2:
            out += Rg.term_new(mon, Rg.domain.one)
    return out


def _div_char2(F, H, Rg):
    """division where H[0] is the constant 2: reduce coefficients mod 2 along
    the way (keeps numbers small); returns cofactors for [2] + H[1:]"""
    # clear: all inputs have integer coefficients here
    two = H[0]
    Hs = H[1:]

    def mod2(P):
        lo = Rg.zero
        hi = Rg.zero
        for mon, c in P.terms():
            c = int(c)
            r = c % 2
            if r:
                lo += Rg.term_new(mon, Rg.domain.convert(r))
            if c - r:
                hi += Rg.term_new(mon, Rg.domain.convert((c - r) // 2))
        return lo, hi
    c0 = Rg.zero
    lo, hi = mod2(F)
    c0 += hi
    cof = [Rg.zero for _ in Hs]
    rem = Rg.zero
    work = lo
    # iterate: divide, re-reduce mod 2
    for _ in range(10000):
        if not Hs:
            rem = work
            break
        q, r = work.div(Hs)
        for i, qi in enumerate(q):
            cof[i] += qi
        lo, hi = mod2(r)
        c0 += hi
        if hi == 0:
            rem = lo
            break
        work = lo
    else:
        raise RuntimeError("char-2 reduction did not converge")
    return [c0] + cof, rem


# --------------------------------------------------------------------------

def _poly_to_term(p, names, unit_names=(), M=None):
    """PolyElement (possibly over a fraction field) -> expanded term.  With
    M given (a polynomial of the fraction field's ring), coefficients are
    multiplied by M first and must become polynomial."""
    total = R.ZERO
    syms_ = [R.sym(n) for n in names]
    usyms = [R.sym(n) for n in unit_names]
    for mon, c in p.terms():
        if unit_names:
            cc = c * M if M is not None else c
            num, den = cc.numer, cc.denom
            if not den.is_ground:
                raise ValueError("non-polynomial coefficient after clearing")
            dv = den.LC
            ct = R.ZERO
            for um, uc in num.terms():
                fr = Fraction(int(uc.numerator), int(uc.denominator)) / Fraction(int(dv.numerator), int(dv.denominator))
                mt = R.const(fr)
                for s, e in zip(usyms, um):
                    for _ in range(e):
                        mt = R.mul(mt, s)
                ct = R.add(ct, mt)
        else:
            ct = R.const(Fraction(int(c.numerator), int(c.denominator)))
        m = ct
        for s, e in zip(syms_, mon):
            for _ in range(e):
                m = R.mul(m, s)
        total = R.add(total, m)
    return total


def _int_denoms(terms_):
    l = 1
    for t in R.topo(terms_):
        if t.op == "const":
            d = t.aux.denominator
            l = l * d // gcd(l, d)
    return l


def z3_is_zero(t, timeout_ms=60000):
    """ask z3 whether the ring term t can be non-zero"""
    t0 = time.time()
    (e,), syms = R.to_z3([t], z3)
    s = z3.Solver()
    s.set("timeout", int(timeout_ms))
    s.add(e != 0)
    r = s.check()
    return str(r), time.time() - t0


def prove_zero(f, ideal, timeout_ms=60000):
    """decide f == 0 modulo the ideal.  Returns Result."""
    t0 = time.time()
    if f is R.ZERO:
        return Result("unsat", 0.0, "syntactically zero", queries=0)
    try:
        q, r = ideal.nf(f)
    except Exception as e:  # certificate search failed: not a verdict
        return Result("unknown", time.time() - t0, "certificate search error: %s" % e, queries=0)
    if r != 0:
        return Result("nocert", time.time() - t0,
                      "normal form not zero (%d terms)" % len(r.terms()), queries=0)
    Rg, gens, K, H = ideal.ring()
    hy = list(ideal.hyps)
    if ideal.char2:
        hy = [R.const(2)] + hy
    M = None
    mult_txt = None
    if ideal.units:
        # common denominator of all cofactor coefficients
        Kr = K.field.ring
        M = Kr.one
        for qi in q:
            for mon, c in qi.terms():
                M = M.lcm(c.denom)
        if len(M.terms()) != 1:
            return Result("unknown", time.time() - t0,
                          "certificate multiplier is not a monomial in the unit constants: %s" % M, queries=0)
        Mk = K.field.new(M)  # as field element
        cof = [_poly_to_term(qi, ideal.order, ideal.units, Mk) for qi in q]
        mterm = _poly_to_term(Rg.ground_new(Mk), ideal.order, ideal.units, None)
        mult_txt = str(M.as_expr())
        lhs = R.mul(mterm, f)
    else:
        cof = [_poly_to_term(qi, ideal.order) for qi in q]
        lhs = f
    rhs = R.ZERO
    for c, h in zip(cof, hy):
        rhs = R.add(rhs, R.mul(c, h))
    goal = R.sub(lhs, rhs)
    st, secs = z3_is_zero(goal, timeout_ms)
    den = _int_denoms(cof)
    return Result(st if st in ("unsat", "sat") else "unknown", time.time() - t0,
                  "cofactor terms: %s" % [len(qi.terms()) for qi in q], 1, den, mult_txt)


# --------------------------------------------------------------------------

def factor_nonvanishing(t, ideal, nz, timeout_ms=60000):
    """certify that t is, modulo the ideal, c * product of powers of the
    polynomials in `nz` (each declared non-vanishing by the case), c a
    non-zero rational.  Returns (Result, description)."""
    t0 = time.time()
    try:
        q, r = ideal.nf(t)
    except Exception as e:
        return Result("unknown", time.time() - t0, "nf error: %s" % e, queries=0), ""
    if r == 0:
        return Result("nocert", time.time() - t0, "term is zero modulo the ideal", queries=0), ""
    Rg, gens, K, H = ideal.ring()
    if ideal.units:
        return Result("unknown", time.time() - t0, "factoring over a fraction field not supported", queries=0), ""
    nzp = []
    for n in nz:
        try:
            nzp.append(ideal.nf(n)[1])
        except Exception:
            nzp.append(None)
    Rg, gens, K, H = ideal.ring()
    r = ideal.nf(t)[1]
    if ideal.char2:
        import itertools
        R2, H2 = ideal._ring2
        target = ideal.nf2(t)[2]
        cands = []
        for n in nz:
            try:
                cands.append((n, ideal.nf2(n)[2]))
            except Exception:
                pass
        R2, H2 = ideal._ring2
        target = ideal.nf2(t)[2]
        cands = [(n, ideal._to2(ideal.poly(n), R2)) for n, _ in cands]
        # greedy exact division by the candidates first, then a small search
        pre = []
        changed = True
        while changed and target != 1:
            changed = False
            for i, (n, cp) in enumerate(cands):
                if cp == 1 or cp == 0:
                    continue
                q_, r_ = target.div([cp])
                if r_ == 0:
                    target = q_[0]
                    pre.append(i)
                    changed = True
        found = None
        if target == 1:
            found = ()
        for total in range(1, 10):
            if found is not None:
                break
            for combo in itertools.combinations_with_replacement(range(len(cands)), total):
                cp = R2.one
                for i in combo:
                    cp = cp * cands[i][1]
                if H2:
                    cp = cp.div(H2)[1]
                if cp == target:
                    found = combo
                    break
        if found is not None:
            found = tuple(pre) + tuple(found)
        if found is None:
            return Result("nocert", time.time() - t0,
                          "not a product of declared non-vanishing quantities (char 2): %s" % str(target.as_expr())[:200],
                          queries=0), ""
        prod = R.ONE
        for i in found:
            prod = R.mul(prod, cands[i][0])
        res = prove_zero(R.sub(t, prod), ideal, timeout_ms)
        res.seconds = time.time() - t0
        return res, " * ".join("(%s)" % (cands[i][0],) for i in found)
    c, facs = r.factor_list()
    prod = R.const(Fraction(int(c.numerator), int(c.denominator)))
    desc = [str(c)]

    def proportional(gn, npoly):
        if npoly is None or npoly == 0 or gn == 0:
            return None
        if len(gn.terms()) != len(npoly.terms()):
            return None
        ratio = gn.LC / npoly.LC
        if gn - npoly * ratio == 0:
            return Fraction(int(ratio.numerator), int(ratio.denominator))
        return None

    def reduce_(P):
        return P.div(H)[1] if H else P
    rest = Rg.one
    for g, e in facs:
        gn = reduce_(g)
        hit = None
        for n, npoly in zip(nz, nzp):
            fr = proportional(gn, npoly)
            if fr is not None:
                hit = (n, fr)
                break
        if hit is None:
            rest = rest * g ** e
            continue
        n, fr = hit
        for _ in range(e):
            prod = R.mul(prod, R.mul(R.const(fr), n))
        desc.append("(%s)^%d" % (n, e))
    if rest != 1:
        # the remaining factors may equal a product of non-vanishing
        # quantities only modulo the ideal: small exponent search
        import itertools
        target = reduce_(rest)
        cands = [(n, npoly) for n, npoly in zip(nz, nzp) if npoly is not None and npoly != 0]
        found = None
        for total in range(1, 5):
            for combo in itertools.combinations_with_replacement(range(len(cands)), total):
                cp = Rg.one
                for i in combo:
                    cp = cp * cands[i][1]
                fr = proportional(target, reduce_(cp))
                if fr is not None:
                    found = (combo, fr)
                    break
            if found:
                break
        if not found:
            return Result("nocert", time.time() - t0,
                          "factor %s is not a product of declared non-vanishing quantities" % rest.as_expr(),
                          queries=0), ""
        combo, fr = found
        prod = R.mul(prod, R.const(fr))
        for i in combo:
            prod = R.mul(prod, cands[i][0])
            desc.append("(%s)" % (cands[i][0],))
    res = prove_zero(R.sub(t, prod), ideal, timeout_ms)
    res.seconds = time.time() - t0
    return res, " * ".join(desc)
