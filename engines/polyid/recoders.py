"""Digit recoders (C04 (a), C10): branch-free integer code.

The recoder's MIR is executed with its machine integers as z3 bit-vectors.
The loop is cut at every iteration: the integer state (remaining value `x`/`y`,
carry `cc`, bit buffer `acc`) is replaced by fresh variables constrained by
the candidate invariant, one iteration is executed, and z3 decides (pure
bit-vector queries, all quantities zero-extended to a width that cannot wrap)

   (V)  Val(state) + loaded = digit + 2^w * Val(state')       value is preserved
   (R)  the digit is in its documented range (wNAF: 0 or odd, |d| <= 15)
   (B)  the invariant holds again (bounds that exclude wrap-around, carry in {0,1})

plus the base case (initial state = argument) and the final state (nothing
left: the top carry lands inside the array).  `loaded` are the source bytes
consumed during the iteration (found by looking at which byte variables the
post-state depends on), weighted by their position."""
import re
import time

import z3

from .interp import Cell, Ref, IntV, Agg, MirError, Unsupported
from .algo import AlgoInterp, Config, SymV, SymB, NotAbstractable, _free_vars


def _ze(e, W):
    return z3.ZeroExt(W - e.size(), e) if e.size() < W else e


def _se(e, W):
    return z3.SignExt(W - e.size(), e) if e.size() < W else e


def _bvof(v, bits=None):
    if isinstance(v, SymV):
        return v.e
    if isinstance(v, IntV):
        return z3.BitVecVal(v.v, bits or v.bits)
    raise NotAbstractable("not an integer: %r" % (v,))


def _check(assumptions, goal, timeout_ms):
    t0 = time.time()
    s = z3.Solver()
    s.set("timeout", int(timeout_ms))
    for a in assumptions:
        s.add(a)
    s.add(z3.Not(goal))
    r = s.check()
    return str(r), time.time() - t0, (s.model() if r == z3.sat else None)


class Spec:
    """what a recoder is supposed to do (from its doc comment)"""

    def __init__(self, kind, w, arg, state, lo=None, hi=None, tlo=None, thi=None, value_bits=None, buf=None,
                 max_value=None, note=""):
        self.kind = kind            # 'naf' | 'signed'
        self.w = w                  # bits per digit position (1 for wNAF)
        self.arg = arg              # 'u128' | 'u64' | 'scalar' | 'bytes28' | 'u129'
        self.state = state          # debug names of the value-carrying locals (unsigned), e.g. ['x', 'cc']
        self.lo, self.hi, self.tlo, self.thi = lo, hi, tlo, thi
        self.value_bits = value_bits  # the argument is below 2^value_bits (precondition / order bound)
        self.buf = buf              # name of the buffered-bit-count local (scalar signed recoders), concrete
        self.max_value = max_value  # exclusive upper bound of the argument (documented / call-site domain)
        self.note = note


def check_recoder(mir, module, fname, spec, order=None, timeout_ms=20000, scalar_bytes=32):
    """returns dict(status in ok/fail/unknown/na, detail, queries, secs, witness)"""
    t0 = time.time()
    it = AlgoInterp(mir, Config(module))
    top = module + "::"
    nbytes = {"scalar": scalar_bytes, "bytes28": 28}.get(spec.arg)
    W = (8 * nbytes + 24) if nbytes else 160
    res = {"status": "ok", "detail": [], "queries": 0, "secs": 0.0, "witness": None, "iterations": 0,
           "fns": []}
    # ---- argument
    byte_vars = []
    if spec.arg in ("u128", "u64"):
        bits = 128 if spec.arg == "u128" else 64
        n = z3.BitVec("n", bits)
        args = [SymV(n, bits, False)]
        nval = _ze(n, W)
        pre = [z3.ULT(nval, z3.BitVecVal(1 << spec.value_bits, W))] if spec.value_bits and spec.value_bits < bits else []
        if spec.max_value:
            pre.append(z3.ULT(nval, z3.BitVecVal(spec.max_value, W)))
    elif spec.arg == "u129":
        nh, nl = z3.BitVec("nh", 32), z3.BitVec("nl", 128)
        args = [SymV(nh, 32, False), SymV(nl, 128, False)]
        nval = (_ze(nh, W) << 128) + _ze(nl, W)
        pre = [z3.ULE(nh, 1), z3.ULT(nval, z3.BitVecVal((1 << 129) - 16, W))]
    else:
        byte_vars = [z3.BitVec("b%d" % i, 8) for i in range(nbytes)]
        nval = z3.BitVecVal(0, W)
        for i, b in enumerate(byte_vars):
            nval = nval + (_ze(b, W) << (8 * i))
        bound = order if (order and spec.arg == "scalar") else (1 << (spec.value_bits or 8 * nbytes))
        pre = [z3.ULT(nval, z3.BitVecVal(bound, W))]
        if spec.arg == "scalar":
            args = [Ref(Cell("scalar"))]
        else:
            args = [Ref(Cell(Agg("array", [SymV(b, 8, False) for b in byte_vars])))]
    weights = {b.get_id(): 8 * i for i, b in enumerate(byte_vars)}

    def call_hook(interp, fr, cal, a):
        if cal.method in ("encode", "encode32") and a and (a[0] == "scalar" or (isinstance(a[0], Ref) and a[0].get() == "scalar")):
            return Agg("array", [SymV(b, 8, False) for b in byte_vars])
        return NotImplemented
    it.call_hook = call_hook
    cuts = []      # per hook: (state exprs dict, digits array snapshot, fresh vars dict)

    def mine(fr):
        return fr.body.name.startswith(top) and fr.body.name.endswith("::" + fname)

    def hook(interp, fr, k, it_ref):
        if not mine(fr):
            return
        cur = {}
        rng = it_ref.get()
        if "j0" not in res and isinstance(rng, Agg) and rng.fields and isinstance(rng.fields[0], IntV):
            res["j0"] = rng.fields[0].v
        for nm in spec.state:
            v = fr.cell(fr.debug_local(nm)).val
            cur[nm] = (_bvof(v), v.bits)
        sd = fr.cell(fr.debug_local("sd")).val
        digs = list(sd.fields)
        conc = {}
        if spec.buf:
            b = fr.cell(fr.debug_local(spec.buf)).val
            if not isinstance(b, IntV) or isinstance(b, SymV):
                raise NotAbstractable("bit-count local %s is not concrete" % spec.buf)
            conc[spec.buf] = b.v
        fresh = {}
        for nm in spec.state:
            bits = cur[nm][1]
            f = z3.BitVec("%s_%d" % (nm, k), bits)
            fresh[nm] = f
            v = fr.cell(fr.debug_local(nm)).val
            fr.cell(fr.debug_local(nm)).val = SymV(f, bits, v.signed if isinstance(v, (SymV, IntV)) else False)
        cuts.append((cur, digs, fresh, conc))
    it.loop_hook = hook
    try:
        item = it.find_sibling_fn(module, "Point", fname)
        rv = it.run(item, args)
    except (NotAbstractable, Unsupported, MirError) as e:
        res["status"] = "na"
        res["detail"].append("not abstractable: %s" % str(e)[:200])
        return res
    res["fns"] = [n for n in it.executed if n.endswith("::" + fname)]
    niter = len(cuts) - 1
    res["iterations"] = niter
    if niter < 2:
        res["status"] = "na"
        res["detail"].append("no loop found")
        return res
    final_digits = list(rv.fields)
    nd = len(final_digits)
    w = spec.w

    def val(state, conc):
        """remaining value carried by the integer state (zero-extended)"""
        tot = z3.BitVecVal(0, W)
        for nm in spec.state:
            tot = tot + _ze(state[nm], W)
        return tot

    def loaded_bits(exprs, before_loaded):
        ids = set()
        for e in exprs:
            for v in _free_vars(e):
                if v.get_id() in weights:
                    ids.add(v.get_id())
        return ids

    # value bound of the whole remaining value at digit position j
    vb = spec.value_bits if spec.value_bits else (order.bit_length() if order else None)
    if spec.arg == "u129":
        vb = 129

    _fw = {}

    def bound(j):
        """bound of the part of the remaining value that is not the carry"""
        e = vb - w * j
        if spec.kind == "naf":
            b = (1 << e) if e >= 0 else 0
            if spec.max_value:
                # forward bound from the largest admissible argument: y' <= (y + 15) / 2
                if j not in _fw:
                    _fw[j] = (spec.max_value - 1) if j == 0 else (bound(j - 1) + 15) // 2
                b = min(b, _fw[j])
            return b
        return ((1 << e) - 1) if e > 0 else 0

    Mtop = (order - 1) if (order and spec.arg == "scalar") else ((1 << vb) - 1)

    def rbound(j):
        """bound of the whole remaining value (carry included) for signed digits: the value
        rounded to the nearest multiple of 2^(w*j)"""
        sh = w * j
        if sh == 0:
            return Mtop
        return (Mtop + (1 << (sh - 1))) >> sh

    def main_part(state, conc, unl):
        tot = unl
        for nm in spec.state:
            if nm != "cc":
                tot = tot + _ze(state[nm], W)
        return tot

    loaded = set()
    fails, unknowns = [], []

    def q(label, assumptions, goal, j):
        st, secs, mdl = _check(assumptions, goal, timeout_ms)
        res["queries"] += 1
        res["secs"] += secs
        if st == "sat":
            fails.append("%s at digit %d" % (label, j))
            if res["witness"] is None:
                res["witness"] = (j, mdl)
        elif st != "unsat":
            unknowns.append("%s at digit %d: %s" % (label, j, st))
        return st

    byte_by_id = {b.get_id(): b for b in byte_vars}

    def unloaded_value(loaded_ids, shift):
        """sum of the source bytes not yet consumed, as a multiple of 2^shift (exact by construction
        of the recoders: every unloaded byte starts at or above the current bit position)"""
        tot = z3.BitVecVal(0, W)
        for i, b in enumerate(byte_vars):
            if b.get_id() in loaded_ids:
                continue
            if 8 * i < shift:
                return None
            tot = tot + (_ze(b, W) << (8 * i - shift))
        return tot

    # ---- base: initial state carries the whole argument
    cur0, digs0, fresh0, conc0 = cuts[0]
    loaded0 = loaded_bits([cur0[nm][0] for nm in spec.state], set())
    st0 = {nm: cur0[nm][0] for nm in spec.state}
    u0 = unloaded_value(loaded0, 0)
    if u0 is None:
        res["status"] = "na"
        res["detail"].append("byte layout not understood")
        return res
    j0 = res.get("j0", 0)
    pre_digits = z3.BitVecVal(0, W)
    for j in range(j0):
        dj = _bvof(digs0[j], 8)
        pre_digits = pre_digits + (_se(dj, W) << (w * j))
        if spec.kind == "naf":
            q("digit out of range", pre, z3.Or(dj == 0, z3.And(z3.Extract(0, 0, dj) == 1, dj >= -15, dj <= 15)), j)
        else:
            q("digit out of range", pre, z3.And(dj >= spec.lo, dj <= spec.hi), j)
    u0s = unloaded_value(loaded0, w * j0)
    q("initial state", pre, ((val(st0, conc0) + u0s) << (w * j0)) + pre_digits == nval, 0)
    inv0 = [z3.ULE(main_part(st0, conc0, u0s), z3.BitVecVal(bound(j0), W))]
    if "cc" in spec.state:
        inv0 += [z3.ULE(st0["cc"], 1), z3.ULE(val(st0, conc0) + u0s, z3.BitVecVal(rbound(j0), W))]
    q("invariant does not hold initially", pre, z3.And(inv0), j0)
    loaded = set(loaded0)
    # ---- steps
    for k in range(niter):
        j = j0 + k
        cur, digs, fresh, conc = cuts[k + 1]
        pcur, pdigs, pfresh, pconc = cuts[k]
        before = {nm: pfresh[nm] for nm in spec.state}
        after = {nm: cur[nm][0] for nm in spec.state}
        d = digs[j]
        de = _bvof(d, 8)
        newly = loaded_bits([after[nm] for nm in spec.state] + [de], loaded) - loaded
        pos = w * j
        # invariant on the state before the iteration
        ub = unloaded_value(loaded, pos)
        ua = unloaded_value(loaded | newly, pos + w)
        if ub is None or ua is None:
            res["status"] = "na"
            res["detail"].append("byte consumption pattern not understood at digit %d" % j)
            return res
        inv_before = [z3.ULE(main_part(before, pconc, ub), z3.BitVecVal(bound(j), W))]
        if "cc" in spec.state:
            inv_before.append(z3.ULE(before["cc"], 1))
            inv_before.append(z3.ULE(val(before, pconc) + ub, z3.BitVecVal(rbound(j), W)))
        if spec.buf:
            # buffered bits: acc < 2^acc_len
            inv_before.append(z3.ULT(_ze(before["acc"], W), z3.BitVecVal(1 << max(0, pconc[spec.buf]), W)))
        if spec.kind == "naf" and byte_vars:
            # the 32-bit window holds at most 12 buffered bits plus a carry
            inv_before.append(z3.ULE(_ze(before[spec.state[0]], W), z3.BitVecVal(1 << 13, W)))
        assum = pre + inv_before
        remaining_after = val(after, conc) + ua
        goalV = val(before, pconc) + ub == _se(de, W) + (remaining_after << w)
        q("value not preserved", assum, goalV, j)
        # digit range
        top = (j == nd - 1)
        if spec.kind == "naf":
            goalR = z3.Or(de == 0, z3.And(z3.Extract(0, 0, de) == 1, de >= -15, de <= 15))
        else:
            lo, hi = (spec.tlo, spec.thi) if top else (spec.lo, spec.hi)
            goalR = z3.And(de >= lo, de <= hi)
        q("digit out of range", assum, goalR, j)
        inv_after = [z3.ULE(main_part(after, conc, ua), z3.BitVecVal(bound(j + 1), W))]
        last_inv = inv_after
        if "cc" in spec.state:
            inv_after.append(z3.ULE(after["cc"], 1))
            inv_after.append(z3.ULE(remaining_after, z3.BitVecVal(rbound(j + 1), W)))
        if spec.buf:
            inv_after.append(z3.ULT(_ze(after["acc"], W), z3.BitVecVal(1 << max(0, conc[spec.buf]), W)))
        if spec.kind == "naf" and byte_vars:
            inv_after.append(z3.ULE(_ze(after[spec.state[0]], W), z3.BitVecVal(1 << 13, W)))
        q("invariant not preserved", assum, z3.And(inv_after), j)
        loaded |= newly
        if len(fails) >= 3:
            break
    # ---- final: nothing left, remaining digits (if any) are zero
    if not fails:
        # what is left after the loop must be exactly the digits written after it (usually none)
        jend = j0 + niter
        lastfresh = cuts[niter][2]
        lastconc = cuts[niter][3]
        stf = {nm: lastfresh[nm] for nm in spec.state}
        uf = unloaded_value(loaded, w * jend)
        if uf is None:
            uf = z3.BitVecVal(0, W)
        invf = [z3.ULE(main_part(stf, lastconc, uf), z3.BitVecVal(bound(jend), W))]
        if "cc" in spec.state:
            invf += [z3.ULE(stf["cc"], 1), z3.ULE(val(stf, lastconc) + uf, z3.BitVecVal(rbound(jend), W))]
        if spec.buf:
            invf.append(z3.ULT(_ze(stf["acc"], W), z3.BitVecVal(1 << max(0, lastconc[spec.buf]), W)))
        tail = z3.BitVecVal(0, W)
        for j in range(jend, nd):
            dj = _bvof(final_digits[j], 8)
            tail = tail + (_se(dj, W) << (w * (j - jend)))
            if not (isinstance(final_digits[j], IntV) and final_digits[j].v == 0):
                lo, hi = (spec.tlo, spec.thi) if (j == nd - 1 and spec.kind != "naf") else (spec.lo, spec.hi)
                if spec.kind == "naf":
                    q("digit out of range", pre + invf, z3.Or(dj == 0, z3.And(z3.Extract(0, 0, dj) == 1, dj >= -15, dj <= 15)), j)
                else:
                    q("digit out of range", pre + invf, z3.And(dj >= lo, dj <= hi), j)
        q("value left after the last digit", pre + invf, val(stf, lastconc) + uf == tail, jend)
    if fails:
        res["status"] = "fail"
        res["detail"] = fails[:4]
    elif unknowns:
        res["status"] = "unknown"
        res["detail"] = unknowns[:4]
    res["wall"] = time.time() - t0
    res["witness_n"] = witness_argument(spec, res)
    res["witness"] = None if res["witness"] is None else res["witness"][0]
    return res


def witness_argument(spec, res):
    """an argument value that drives the real recoder into the failing state (or None)"""
    if not res.get("witness"):
        return None
    j, mdl = res["witness"]
    try:
        if spec.arg in ("u128", "u64", "u129"):
            bits = {"u128": 128, "u64": 64, "u129": 129}[spec.arg]
            if j == 0:
                for d in mdl.decls():
                    if d.name() == "n":
                        return mdl[d].as_long()
            tot = 0
            for nm in spec.state:
                for d in mdl.decls():
                    if d.name() == "%s_%d" % (nm, j):
                        tot += mdl[d].as_long()
            n = tot << (spec.w * j)
            return n if n < (1 << bits) else None
    except Exception:  # noqa
        return None
    return None


# --------------------------------------------------------------------------
# what each recoder of the library is documented to do

L448 = 2 ** 446 - 13818066809895115352007386748515426880336692474882178609894547503885


def _sc(top_lo, top_hi):
    return Spec("signed", 5, "scalar", ["acc", "cc"], -15, 16, top_lo, top_hi, buf="acc_len")


SIGNED = {      # C04 (a)
    "ed25519": {"recode_scalar": _sc(0, 4)},
    "p256": {"recode_scalar": _sc(0, 2)},
    "secp256k1": {"recode_scalar": _sc(0, 2),
                  "recode_u128": Spec("signed", 5, "u128", ["x", "cc"], -15, 16, 0, 8, value_bits=128)},
    "jq255e": {"recode_u128": Spec("signed", 5, "u128", ["x", "cc"], -15, 16, 0, 8, value_bits=128)},
    "jq255s": {"recode_scalar": _sc(0, 1)},
    "ed448": {"recode_scalar": _sc(0, 2)},
    "gls254": {"recode5_u128": Spec("signed", 5, "u128", ["x", "cc"], -15, 16, 0, 8, value_bits=128),
               "recode4_u128": Spec("signed", 4, "u128", ["x", "cc"], -7, 8, 0, 8, value_bits=127),
               "recode5_u64": Spec("signed", 5, "u64", ["x", "cc"], -15, 16, 0, 16, value_bits=64),
               "recode3_u128": Spec("signed", 3, "u128", ["x", "cc"], -3, 4, 0, 4, value_bits=128)},
}
NAFS = {        # C10
    "ed25519": {"recode_scalar_NAF": Spec("naf", 1, "scalar", ["x"]),
                "recode_u128_NAF": Spec("naf", 1, "u128", ["y"], value_bits=128, max_value=(1 << 128) - 16,
                                        note="domain n < 2^128 - 16 (callers pass |c| < 2^127); the 16 largest "
                                             "values wrap, see jq255e/jq255s where they are reachable")},
    "p256": {"recode_scalar_NAF": Spec("naf", 1, "scalar", ["x"]),
             "recode_u129_NAF": Spec("naf", 1, "u129", ["y"], value_bits=129, max_value=(1 << 129) - 16,
                                     note="documented domain: n < 2^129 - 16")},
    "secp256k1": {"recode_scalar_NAF": Spec("naf", 1, "scalar", ["x"]),
                  "recode_u128_NAF": Spec("naf", 1, "u128", ["y"], value_bits=128, max_value=(1 << 128) - 16,
                                          note="domain n < 2^128 - 16 (callers pass split halves); the 16 largest "
                                               "values wrap")},
    "jq255e": {"recode_scalar_NAF": Spec("naf", 1, "scalar", ["x"]),
               "recode_u128_NAF": Spec("naf", 1, "u128", ["y"], value_bits=128)},
    "jq255s": {"recode_scalar_NAF": Spec("naf", 1, "scalar", ["x"]),
               "recode_u128_NAF": Spec("naf", 1, "u128", ["y"], value_bits=128)},
    "ed448": {"recode_scalar_NAF": Spec("naf", 1, "scalar", ["x"]),
              "recode_halfwidth_NAF": Spec("naf", 1, "bytes28", ["x"], value_bits=224)},
}


SCALAR_BYTES = {"ed448": 56}


def scalar_order(mir, module):
    if module == "ed448":
        return L448
    for nm in mir.by_last.get("set_mul", []):
        if nm.startswith(module + "::<impl"):
            m = re.search(r"ModInt256(?:ct)?<([^>]*)>", mir.header(nm))
            if m:
                ws = []
                for w in m.group(1).split(","):
                    w = w.strip()
                    ws.append((1 << 64) - 1 if w == "u64::MAX" else (1 << 32) - 1 if w == "u32::MAX" else int(w))
                return sum(w << (64 * i) for i, w in enumerate(ws))
    return None


def reference_digits_ok(spec, n, digits):
    """native digits against the contract"""
    v = sum(d << (spec.w * i) for i, d in enumerate(digits))
    if v != n:
        return False, "sum of digits * 2^(w*i) = %#x, argument = %#x" % (v, n)
    for i, d in enumerate(digits):
        if spec.kind == "naf":
            if d != 0 and (d % 2 == 0 or abs(d) > 15):
                return False, "digit %d = %d is not a wNAF digit" % (i, d)
        else:
            lo, hi = (spec.tlo, spec.thi) if i == len(digits) - 1 else (spec.lo, spec.hi)
            if not lo <= d <= hi:
                return False, "digit %d = %d outside [%d, %d]" % (i, d, lo, hi)
    return True, ""


def recoder_task(mir, curve, fname, spec, timeout_ms=20000):
    """picklable result of check_recoder"""
    r = check_recoder(mir, curve, fname, spec, order=scalar_order(mir, curve), timeout_ms=timeout_ms,
                      scalar_bytes=SCALAR_BYTES.get(curve, 32))
    return {k: r.get(k) for k in ("status", "detail", "queries", "secs", "iterations", "witness", "witness_n",
                                  "fns", "wall")}


def native_recoder_check(run_lines, rp, curve, fname, spec, order, extra, rng, count=12):
    """digits produced natively against the contract.  Returns (checked, mismatch dict | None, error)"""
    vals = [v for v in extra if v is not None]
    if spec.arg in ("u128", "u64", "u129"):
        bits = {"u128": 128, "u64": 64, "u129": 129}[spec.arg]
        top = spec.max_value or (1 << (spec.value_bits or bits))
        vals += [0, 1, top - 1, top - 2, top - 15, top - 16, top - 17, top - 18, top >> 1, (top >> 1) - 9]
        vals += [rng.randrange(top) for _ in range(count)]
        vals = [v for v in vals if 0 <= v < top]
    elif spec.arg == "scalar":
        vals += [0, 1, order - 1, order - 2, (order - 1) // 2, 1 << 128, (1 << 200) - 1]
        vals += [rng.randrange(order) for _ in range(count)]
        vals = [v for v in vals if 0 <= v < order]
    elif spec.arg == "bytes28":
        vals += [0, 1, (1 << 224) - 1, (1 << 224) - 17, 1 << 223] + [rng.getrandbits(224) for _ in range(count)]
        vals = [v for v in vals if 0 <= v < (1 << 224)]
    lines = []
    for v in vals:
        if spec.arg == "u129":
            lines.append("%s recode:%s 0 %s %s" % (curve, fname, int(v >> 128).to_bytes(4, "little").hex(),
                                                   int(v & ((1 << 128) - 1)).to_bytes(16, "little").hex()))
        else:
            L = {"u128": 16, "u64": 8, "scalar": SCALAR_BYTES.get(curve, 32) + (1 if curve == "ed448" else 0),
                 "bytes28": 28}[spec.arg]
            lines.append("%s recode:%s 0 %s" % (curve, fname, int(v).to_bytes(L, "little").hex()))
    res = run_lines(rp, lines)
    checked = 0
    for v, r, ln in zip(vals, res, lines):
        if r[0] == "error":
            return checked, None, r[1]
        if r[0] == "panic":
            return checked, dict(key="%s.%s" % (curve, fname), argument=hex(v), request=ln, native="panic"), None
        raw = r[1][0] if r[1] else 0
        nd = None
        # the harness returns one byte string of digits; run_lines decoded it as a little-endian integer
        digits = None
        checked += 1
        yield_digits = r[2] if len(r) > 2 else None
        digits = yield_digits
        if digits is None:
            return checked, None, "harness did not return digit bytes"
        ok, why = reference_digits_ok(spec, v, digits)
        if not ok:
            return checked, dict(key="%s.%s" % (curve, fname), argument=hex(v), request=ln, native_digits=digits,
                                 why=why), None
    return checked, None, None
