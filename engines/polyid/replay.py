"""Native replay: a tiny program built in a scratch copy of /repo that
evaluates the *real* point functions on concrete coordinates over the real
field.  A module `verif_replay` is appended to each curve's source file (a
child module sees the private struct fields and private `set_*` functions);
`src/bin/verif_replay.rs` reads one request per line:

    <curve> <func> <n> <hex field element>...

and prints the output coordinates (hex, little-endian canonical encodings)
or `PANIC`."""
import os, subprocess, time

from vlib.common import Scratch, log

# curve -> (source file, field type, point ctor fields, extra operand struct, wrapper?)
CURVES = {
    "ed25519": dict(file="src/ed25519.rs", F="GF25519", coords=["X", "Y", "Z", "T"],
                    aff=("PointDuif", ["ypx", "ymx", "t2d"], ["set_add_duif", "set_sub_duif"], False)),
    "ed448": dict(file="src/ed448.rs", F="GF448", coords=["X", "Y", "Z"],
                  aff=("PointAffine", ["x", "y"], ["set_add_affine", "set_sub_affine"], False)),
    "p256": dict(file="src/p256.rs", F="GFp256", coords=["X", "Y", "Z"], ctor=True,
                 aff=("PointAffine", ["x", "y"], ["set_add_affine", "set_sub_affine"], True)),
    "secp256k1": dict(file="src/secp256k1.rs", F="GFsecp256k1", coords=["X", "Y", "Z"], ctor=True,
                      aff=("PointAffine", ["x", "y"], ["set_add_affine", "set_sub_affine"], True)),
    "jq255e": dict(file="src/jq255e.rs", F="GF255e", coords=["E", "U", "Z", "T"],
                   aff=("PointAffineExtended", ["e", "u", "t"],
                        ["set_add_affine_extended", "set_sub_affine_extended"], False)),
    "jq255s": dict(file="src/jq255s.rs", F="GF255s", coords=["E", "U", "Z", "T"],
                   aff=("PointAffineExtended", ["e", "u", "t"],
                        ["set_add_affine_extended", "set_sub_affine_extended"], False)),
    "gls254": dict(file="src/gls254.rs", F="GFb254", coords=["X", "S", "Z", "T"], decode="decode",
                   aff=("PointAffine", ["scaled_x", "scaled_s"], ["set_add_affine", "set_sub_affine"], False)),
    "ristretto255": dict(file="src/ristretto255.rs", F="crate::field::GF25519", coords=["X", "Y", "Z", "T"],
                         wrap="crate::ed25519::Point", aff=None),
    "decaf448": dict(file="src/decaf448.rs", F="crate::field::GF448", coords=["X", "Y", "Z"],
                     wrap="crate::ed448::Point", aff=None),
}


# precomputed tables: curve -> {static name: ("struct", [fields]) | ("flat", [fields])}
_DUIF = ("struct", ["ypx", "ymx", "t2d"])
_XY = ("struct", ["x", "y"])
_EUT = ("struct", ["e", "u", "t"])
TABLES = {
    "ed25519": {n: _DUIF for n in ("PRECOMP_B", "PRECOMP_B65", "PRECOMP_B130", "PRECOMP_B195")},
    "ed448": {n: _XY for n in ("PRECOMP_B", "PRECOMP_B75", "PRECOMP_B150", "PRECOMP_B225", "PRECOMP_B300",
                               "PRECOMP_B375")},
    "p256": {n: _XY for n in ("PRECOMP_G", "PRECOMP_G65", "PRECOMP_G130", "PRECOMP_G195")},
    "secp256k1": {n: _XY for n in ("PRECOMP_G", "PRECOMP_G65", "PRECOMP_G130", "PRECOMP_G195")},
    "jq255e": dict([(n, ("flat", ["e", "u", "t"])) for n in ("PRECOMP_B", "PRECOMP_B30", "PRECOMP_B65",
                                                               "PRECOMP_B95")] + [("PRECOMP_B130_ODD", _EUT)]),
    "jq255s": {n: _EUT for n in ("PRECOMP_B", "PRECOMP_B65", "PRECOMP_B130", "PRECOMP_B195")},
    "gls254": {n: ("flat", ["scaled_x", "scaled_s"]) for n in ("PRECOMP_B", "PRECOMP_B30", "PRECOMP_B65",
                                                                 "PRECOMP_B95")},
}


RECODERS = {
    "ed25519": {"recode_scalar": "scalar", "recode_scalar_NAF": "scalar", "recode_u128_NAF": "u128"},
    "p256": {"recode_scalar": "scalar", "recode_scalar_NAF": "scalar", "recode_u129_NAF": "u129"},
    "secp256k1": {"recode_scalar": "scalar", "recode_u128": "u128", "recode_scalar_NAF": "scalar",
                  "recode_u128_NAF": "u128"},
    "jq255e": {"recode_u128": "u128", "recode_scalar_NAF": "scalar", "recode_u128_NAF": "u128"},
    "jq255s": {"recode_scalar": "scalar", "recode_scalar_NAF": "scalar", "recode_u128_NAF": "u128"},
    "ed448": {"recode_scalar": "scalar", "recode_scalar_NAF": "scalar", "recode_halfwidth_NAF": "bytes28"},
    "gls254": {"recode5_u128": "u128", "recode4_u128": "u128", "recode5_u64": "u64", "recode3_u128": "u128"},
}


# curves with a `verify_helper_vartime`: (reference expression over P = Q, R, ss = s, kk = k; split_vartime output)
_I128 = "c0.to_le_bytes().to_vec(), c1.to_le_bytes().to_vec()"
VERIFY_HELPER = {
    "p256": ("Point::mulgen(&ss).equals(R + P * kk) != 0", _I128),
    "secp256k1": ("Point::mulgen(&ss).equals(R + P * kk) != 0", None),
    "ed25519": ("(Point::mulgen(&ss) - R - P * kk).xdouble(3).isneutral() != 0", _I128),
    "ed448": ("(Point::mulgen(&ss) - R - P * kk).xdouble(2).isneutral() != 0", "c0.to_vec(), c1.to_vec()"),
    "ristretto255": ("Point::mulgen(&ss).equals(R + P * kk) != 0", None),
    "decaf448": ("Point::mulgen(&ss).equals(R + P * kk) != 0", None),
}


def module_source(curve):
    d = CURVES[curve]
    F = d["F"]
    k = len(d["coords"])
    L = []
    A = L.append
    A("#[allow(warnings)]")
    A("pub mod verif_replay {")
    A("    use super::*;")
    A("    use std::vec::Vec;")
    A("    use std::vec;")
    A("    use core::convert::TryFrom;")
    A("    type F = %s;" % F)
    if d.get("decode") == "decode":
        A("    fn fe(b: &[u8]) -> F { F::decode(b).unwrap() }")
    else:
        A("    fn fe(b: &[u8]) -> F { F::decode_reduce(b) }")
    if d.get("wrap"):
        inner = d["wrap"]
        ctor = "Point(%s { %s })" % (inner, ", ".join("%s: fe(&a[i + %d])" % (c, j) for j, c in enumerate(d["coords"])))
        outs = ", ".join("P.0.%s.encode().to_vec()" % c for c in d["coords"])
    else:
        ctor = "Point { %s }" % ", ".join("%s: fe(&a[i + %d])" % (c, j) for j, c in enumerate(d["coords"]))
        outs = ", ".join("P.%s.encode().to_vec()" % c for c in d["coords"])
    A("    fn pt(a: &[Vec<u8>], i: usize) -> Point { %s }" % ctor)
    A("    pub fn call(func: &str, n: u64, a: &[Vec<u8>]) -> Vec<Vec<u8>> {")
    if d.get("ctor"):
        # C03 constructors: `fp:<func>` builds the first operand through the public
        # `Point::from_projective` (panics when it is rejected) instead of the raw struct
        A("        let viafp = func.starts_with(\"fp:\");")
        A("        let func = if viafp { &func[3..] } else { func };")
        A("        let mut P = if viafp { Point::from_projective(fe(&a[0]), fe(&a[1]), fe(&a[2]))"
          ".expect(\"from_projective\") } else if a.len() >= %d { pt(a, 0) } else { Point::BASE };" % k)
    else:
        A("        let mut P = if a.len() >= %d { pt(a, 0) } else { Point::BASE };" % k)
    A("        match func {")
    # C03: public constructors; a rejected input is reported as the single byte 0
    A("            \"decode\" => { match Point::decode(&a[0]) { Some(Q) => { P = Q; } None => { return vec![vec![0u8]]; } } }")
    if d.get("ctor"):
        A("            \"from_projective\" => { match Point::from_projective(fe(&a[0]), fe(&a[1]), fe(&a[2])) "
          "{ Some(Q) => { P = Q; } None => { return vec![vec![0u8]]; } } }")
        A("            \"from_affine\" => { match Point::from_affine(fe(&a[0]), fe(&a[1])) "
          "{ Some(Q) => { P = Q; } None => { return vec![vec![0u8]]; } } }")
    A("            \"set_add\" => { let Q = pt(a, %d); P.set_add(&Q); }" % k)
    A("            \"set_sub\" => { let Q = pt(a, %d); P.set_sub(&Q); }" % k)
    for op, sym in (("add", "+"), ("sub", "-")):
        A("            \"op_%s_vv\" => { let Q = pt(a, %d); P = P %s Q; }" % (op, k, sym))
        A("            \"op_%s_vr\" => { let Q = pt(a, %d); P = P %s &Q; }" % (op, k, sym))
        A("            \"op_%s_rv\" => { let Q = pt(a, %d); P = &P %s Q; }" % (op, k, sym))
        A("            \"op_%s_rr\" => { let Q = pt(a, %d); P = &P %s &Q; }" % (op, k, sym))
        A("            \"op_%s_assign_v\" => { let Q = pt(a, %d); P %s= Q; }" % (op, k, sym))
        A("            \"op_%s_assign_r\" => { let Q = pt(a, %d); P %s= &Q; }" % (op, k, sym))
    A("            \"op_neg_v\" => { P = -P; }")
    A("            \"op_neg_r\" => { P = -&P; }")
    A("            \"op_mul_vn\" => { P = P * n; }")
    A("            \"op_mul_rn\" => { P = &P * n; }")
    A("            \"op_mul_nv\" => { P = n * P; }")
    A("            \"op_mul_nr\" => { P = n * &P; }")
    A("            \"op_mul_assign\" => { P *= n; }")
    A("            \"set_double\" => { P.set_double(); }")
    A("            \"double\" => { P = P.double(); }")
    A("            \"set_xdouble\" => { P.set_xdouble(n as u32); }")
    A("            \"xdouble\" => { P = P.xdouble(n as u32); }")
    A("            \"set_neg\" => { P.set_neg(); }")
    A("            \"set_mul_small\" => { P.set_mul_small(n); }")
    if d["aff"]:
        ty, fs, fns, has_rz = d["aff"]
        actor = "%s { %s }" % (ty, ", ".join("%s: fe(&a[%d])" % (f, k + j) for j, f in enumerate(fs)))
        for fn in fns:
            if has_rz:
                A("            \"%s\" => { let Q = %s; P.%s(&Q, n as u32); }" % (fn, actor, fn))
            else:
                A("            \"%s\" => { let Q = %s; P.%s(&Q); }" % (fn, actor, fn))
    # scalar multiplication (C04/C10): scalar bytes follow the point coordinates
    A("            \"mul\" => { let sc = Scalar::decode_reduce(&a[a.len() - 1]); P.set_mul(&sc); }")
    A("            \"op_mul_scalar\" => { let sc = Scalar::decode_reduce(&a[a.len() - 1]); P = P * sc; }")
    A("            \"mulgen\" => { let sc = Scalar::decode_reduce(&a[a.len() - 1]); P.set_mulgen(&sc); }")
    A("            \"basemul\" => { P = Point::BASE; P.set_xdouble(n as u32); let kk = u64::from_le_bytes(<[u8; 8]>::try_from(&a[a.len() - 1][..8]).unwrap()); P.set_mul_small(kk); }")
    A("            \"base\" => { P = Point::BASE; }")
    for rname, kind in RECODERS.get(curve, {}).items():
        if kind == "scalar":
            call = "let sc = Scalar::decode_reduce(&a[a.len() - 1]); let sd = Point::%s(&sc);" % rname
        elif kind == "u128":
            call = "let v = u128::from_le_bytes(<[u8; 16]>::try_from(&a[a.len() - 1][..16]).unwrap()); let sd = Point::%s(v);" % rname
        elif kind == "u64":
            call = "let v = u64::from_le_bytes(<[u8; 8]>::try_from(&a[a.len() - 1][..8]).unwrap()); let sd = Point::%s(v);" % rname
        elif kind == "u129":
            call = ("let h = u32::from_le_bytes(<[u8; 4]>::try_from(&a[a.len() - 2][..4]).unwrap()); "
                    "let v = u128::from_le_bytes(<[u8; 16]>::try_from(&a[a.len() - 1][..16]).unwrap()); "
                    "let sd = Point::%s(h, v);" % rname)
        elif kind == "bytes28":
            call = "let bb = <[u8; 28]>::try_from(&a[a.len() - 1][..28]).unwrap(); let sd = Point::%s(&bb);" % rname
        else:
            continue
        A("            \"recode:%s\" => { %s return vec![sd.iter().map(|x| *x as u8).collect()]; }" % (rname, call))
    if not d.get("wrap"):
        A("            \"vt\" => { let su = Scalar::decode_reduce(&a[a.len() - 2]); let sv = Scalar::decode_reduce(&a[a.len() - 1]); P.set_mul_add_mulgen_vartime(&su, &sv); }")
    if curve in VERIFY_HELPER:
        # C10 verification helpers: [helper's Boolean, reference Boolean computed with the plain operations]
        ref, split = VERIFY_HELPER[curve]
        A("            \"vh\" => { let R = pt(a, %d); let ss = Scalar::decode_reduce(&a[a.len() - 2]); "
          "let kk = Scalar::decode_reduce(&a[a.len() - 1]); let h = P.verify_helper_vartime(&R, &ss, &kk); "
          "let e = %s; return vec![vec![h as u8], vec![e as u8]]; }" % (k, ref))
        if split:
            A("            \"split\" => { let kk = Scalar::decode_reduce(&a[a.len() - 1]); "
              "let (c0, c1) = kk.split_vartime(); return vec![%s]; }" % split)
        A("            \"low_order\" => { return vec![vec![(P.has_low_order() == 0xFFFFFFFF) as u8]]; }"
          if "xdouble" in ref else "            \"low_order\" => { return vec![vec![(P.isneutral() != 0) as u8]]; }")
    if curve == "gls254":
        A("            \"vt64\" => { let u0 = u64::from_le_bytes(<[u8; 8]>::try_from(&a[a.len() - 3][..8]).unwrap()); let u1 = u64::from_le_bytes(<[u8; 8]>::try_from(&a[a.len() - 2][..8]).unwrap()); let sv = Scalar::decode_reduce(&a[a.len() - 1]); P.set_mul64mu_add_mulgen_vartime(u0, u1, &sv); }")
        A("            \"mu\" => { P.set_mul(&Scalar::MU); }")
    if curve in ("jq255e", "jq255s"):
        A("            \"vt128\" => { let su = u128::from_le_bytes(<[u8; 16]>::try_from(&a[a.len() - 2][..16]).unwrap()); let sv = Scalar::decode_reduce(&a[a.len() - 1]); P.set_mul128_add_mulgen_vartime(su, &sv); }")
    for tname, (lay, fs) in TABLES.get(curve, {}).items():
        if lay == "struct":
            ent = ", ".join("%s[n as usize].%s.encode().to_vec()" % (tname, f) for f in fs)
        else:
            ent = ", ".join("%s[%d * (n as usize) + %d].encode().to_vec()" % (tname, len(fs), i)
                            for i in range(len(fs)))
        A("            \"table:%s\" => { return vec![%s]; }" % (tname, ent))
    A("            _ => { return vec![]; }")
    A("        }")
    A("        vec![%s]" % outs)
    A("    }")
    A("}")
    return "\n".join(L)


BIN = r'''
use std::io::{self, BufRead, Write};
fn unhex(s: &str) -> Vec<u8> {
    (0..s.len() / 2).map(|i| u8::from_str_radix(&s[2 * i..2 * i + 2], 16).unwrap()).collect()
}
fn hex(b: &Vec<u8>) -> String { b.iter().map(|x| format!("{:02x}", x)).collect() }
fn main() {
    std::panic::set_hook(Box::new(|_| {}));
    let stdin = io::stdin();
    let out = io::stdout();
    for line in stdin.lock().lines() {
        let line = line.unwrap();
        let t: Vec<&str> = line.split_whitespace().collect();
        if t.len() < 3 { continue; }
        let curve = t[0].to_string();
        let func = t[1].to_string();
        let n: u64 = t[2].parse().unwrap();
        let a: Vec<Vec<u8>> = t[3..].iter().map(|s| unhex(s)).collect();
        let r = std::panic::catch_unwind(move || {
            match curve.as_str() {
%s
                _ => vec![],
            }
        });
        let mut o = out.lock();
        match r {
            Ok(v) => { writeln!(o, "OK {}", v.iter().map(hex).collect::<Vec<_>>().join(" ")).unwrap(); }
            Err(_) => { writeln!(o, "PANIC").unwrap(); }
        }
    }
}
'''


X_ARMS = r'''
                "x25519" => {
                    use core::convert::TryFrom;
                    match func.as_str() {
                        "x" => vec![crrl::x25519::x25519(<&[u8; 32]>::try_from(&a[0][..]).unwrap(),
                                                         <&[u8; 32]>::try_from(&a[1][..]).unwrap()).to_vec()],
                        "base" => vec![crrl::x25519::x25519_base(<&[u8; 32]>::try_from(&a[0][..]).unwrap()).to_vec()],
                        _ => vec![],
                    }
                },
                "x448" => {
                    use core::convert::TryFrom;
                    match func.as_str() {
                        "x" => vec![crrl::x448::x448(<&[u8; 56]>::try_from(&a[0][..]).unwrap(),
                                                     <&[u8; 56]>::try_from(&a[1][..]).unwrap()).to_vec()],
                        "base" => vec![crrl::x448::x448_base(<&[u8; 56]>::try_from(&a[0][..]).unwrap()).to_vec()],
                        _ => vec![],
                    }
                },'''


class Replay:
    def __init__(self, curves=None):
        self.curves = list(curves or CURVES)
        self.exe = None
        self.error = None
        self.secs = 0.0
        self.scratch = None

    def build(self):
        t0 = time.time()
        try:
            sc = Scratch()
            self.scratch = sc
            arms = []
            for cv in self.curves:
                d = CURVES[cv]
                sc.append(d["file"], module_source(cv))
                arms.append('                "%s" => crrl::%s::verif_replay::call(&func, n, &a),' % (cv, cv))
            arms.append(X_ARMS)
            sc.write("src/bin/verif_replay.rs", BIN % "\n".join(arms))
            rc, out, secs = sc.run(["cargo", "build", "--offline", "--bin", "verif_replay",
                                    "--target-dir", sc.target], timeout=600)
            if rc != 0:
                self.error = "replay build failed: " + out[-1500:]
            else:
                self.exe = os.path.join(sc.target, "debug", "verif_replay")
        except Exception as e:  # noqa
            self.error = "replay build error: %s" % e
        self.secs = time.time() - t0
        return self.exe is not None

    def run(self, requests, enc_len):
        """requests: list of (curve, func, n, [ints]); enc_len: curve->bytes.
        Returns list of ('ok',[ints]) / ('panic',) / ('error', msg)"""
        if self.exe is None:
            return [("error", self.error or "not built")] * len(requests)
        lines = []
        for cv, fn, n, vals in requests:
            L = enc_len[cv]
            lines.append("%s %s %d %s" % (cv, fn, n, " ".join(
                (bytes(v).hex() if isinstance(v, (bytes, bytearray)) else int(v).to_bytes(L, "little").hex())
                for v in vals)))
        p = subprocess.run([self.exe], input="\n".join(lines) + "\n", stdout=subprocess.PIPE,
                           stderr=subprocess.PIPE, text=True, timeout=300)
        outs = p.stdout.strip().split("\n")
        res = []
        for i in range(len(requests)):
            if i >= len(outs):
                res.append(("error", "no output (exit %s)" % p.returncode))
                continue
            t = outs[i].split()
            if not t:
                res.append(("error", "empty"))
            elif t[0] == "PANIC":
                res.append(("panic",))
            elif len(t) == 1:
                res.append(("error", "unknown function"))
            else:
                res.append(("ok", [int.from_bytes(bytes.fromhex(h), "little") for h in t[1:]]))
        return res
