"""Hash-consed term DAG over an abstract commutative ring (with rational
scalars) plus Boolean atoms `iszero(t)` and `ite`.  Conversions to z3 (the
deciding solver) and to sympy sparse polynomials (untrusted certificate
generator)."""
from fractions import Fraction


class T:
    __slots__ = ("op", "args", "aux", "id", "_h")
    _table = {}
    _next = [0]

    def __new__(cls, op, args=(), aux=None):
        key = (op, tuple(a.id for a in args), aux)
        t = cls._table.get(key)
        if t is not None:
            return t
        t = object.__new__(cls)
        t.op, t.args, t.aux = op, tuple(args), aux
        t.id = cls._next[0]
        cls._next[0] += 1
        cls._table[key] = t
        return t

    def __repr__(self):
        if self.op == "sym":
            return self.aux
        if self.op == "const":
            return str(self.aux)
        return "%s(%s)" % (self.op, ", ".join(map(repr, self.args)))

    # ring sugar
    def __add__(self, o):
        return add(self, lift(o))

    __radd__ = __add__

    def __sub__(self, o):
        return sub(self, lift(o))

    def __rsub__(self, o):
        return sub(lift(o), self)

    def __mul__(self, o):
        return mul(self, lift(o))

    __rmul__ = __mul__

    def __neg__(self):
        return neg(self)

    def __pow__(self, n):
        r = const(1)
        for _ in range(n):
            r = mul(r, self)
        return r


def lift(x):
    if isinstance(x, T):
        return x
    return const(x)


def sym(name):
    return T("sym", (), name)


def const(v):
    v = Fraction(v)
    return T("const", (), v)


ZERO = const(0)
ONE = const(1)


def is_const(t):
    return t.op == "const"


def add(a, b):
    if is_const(a) and is_const(b):
        return const(a.aux + b.aux)
    if a is ZERO:
        return b
    if b is ZERO:
        return a
    return T("add", (a, b))


def sub(a, b):
    if is_const(a) and is_const(b):
        return const(a.aux - b.aux)
    if b is ZERO:
        return a
    if a is ZERO:
        return neg(b)
    if a is b:
        return ZERO
    return T("sub", (a, b))


def neg(a):
    if is_const(a):
        return const(-a.aux)
    if a.op == "neg":
        return a.args[0]
    return T("neg", (a,))


def mul(a, b):
    if is_const(a) and is_const(b):
        return const(a.aux * b.aux)
    if a is ZERO or b is ZERO:
        return ZERO
    if a is ONE:
        return b
    if b is ONE:
        return a
    if is_const(b):
        a, b = b, a
    return T("mul", (a, b))


def scale(k, a):
    return mul(const(k), a)


# ---- Booleans -------------------------------------------------------------
TRUE = T("true")
FALSE = T("false")


def iszero(t):
    if is_const(t):
        return TRUE if t.aux == 0 else FALSE
    return T("iszero", (t,))


def bnot(b):
    if b is TRUE:
        return FALSE
    if b is FALSE:
        return TRUE
    if b.op == "not":
        return b.args[0]
    return T("not", (b,))


def band(a, b):
    if a is FALSE or b is FALSE:
        return FALSE
    if a is TRUE:
        return b
    if b is TRUE:
        return a
    return T("and", (a, b))


def bor(a, b):
    return bnot(band(bnot(a), bnot(b)))


def ite(c, a, b):
    """c ? a : b"""
    if c is TRUE:
        return a
    if c is FALSE:
        return b
    if a is b:
        return a
    return T("ite", (c, a, b))


# ---- traversal ------------------------------------------------------------

def topo(roots):
    seen = set()
    out = []
    stack = [(r, False) for r in roots]
    while stack:
        t, done = stack.pop()
        if done:
            out.append(t)
            continue
        if t.id in seen:
            continue
        seen.add(t.id)
        stack.append((t, True))
        for a in t.args:
            if a.id not in seen:
                stack.append((a, False))
    return out


def atoms(roots):
    """iszero atoms occurring (under ite conditions) in the roots"""
    return [t for t in topo(roots) if t.op == "iszero"]


def symbols(roots):
    return sorted({t.aux for t in topo(roots) if t.op == "sym"})


def count_ops(roots, op="mul"):
    return sum(1 for t in topo(roots) if t.op == op)


def resolve(roots, decide):
    """replace every ite by the branch selected by decide(atom)->bool
    (atoms are iszero terms whose argument is resolved first).  Returns the
    list of ite-free roots."""
    memo = {}
    for t in topo(roots):
        a = [memo[x.id] for x in t.args]
        if t.op in ("sym", "const", "true", "false", "batom"):
            r = t
        elif t.op == "add":
            r = add(*a)
        elif t.op == "sub":
            r = sub(*a)
        elif t.op == "mul":
            r = mul(*a)
        elif t.op == "neg":
            r = neg(a[0])
        elif t.op == "iszero":
            z = iszero(a[0])
            if z.op == "iszero":
                v = decide(z)
                z = TRUE if v else FALSE
            r = z
        elif t.op == "not":
            r = bnot(a[0])
        elif t.op == "and":
            r = band(*a)
        elif t.op == "ite":
            r = ite(*a)
        else:
            raise ValueError(t.op)
        memo[t.id] = r
    return [memo[r.id] for r in roots]


def substitute(roots, mapping):
    """mapping: symbol name -> term"""
    memo = {}
    for t in topo(roots):
        a = [memo[x.id] for x in t.args]
        if t.op == "sym":
            r = mapping.get(t.aux, t)
        elif t.op in ("const", "true", "false", "batom"):
            r = t
        elif t.op == "add":
            r = add(*a)
        elif t.op == "sub":
            r = sub(*a)
        elif t.op == "mul":
            r = mul(*a)
        elif t.op == "neg":
            r = neg(a[0])
        elif t.op == "iszero":
            r = iszero(a[0])
        elif t.op == "not":
            r = bnot(a[0])
        elif t.op == "and":
            r = band(*a)
        elif t.op == "ite":
            r = ite(*a)
        else:
            raise ValueError(t.op)
        memo[t.id] = r
    return [memo[r.id] for r in roots]


def assign(roots, amap):
    """replace Boolean atoms `batom(key)` by the constants in amap (key -> bool)"""
    memo = {}
    for t in topo(roots):
        a = [memo[x.id] for x in t.args]
        if t.op == "batom":
            r = (TRUE if amap[t.aux] else FALSE) if t.aux in amap else t
        elif t.op in ("sym", "const", "true", "false"):
            r = t
        elif t.op == "add":
            r = add(*a)
        elif t.op == "sub":
            r = sub(*a)
        elif t.op == "mul":
            r = mul(*a)
        elif t.op == "neg":
            r = neg(a[0])
        elif t.op == "iszero":
            r = iszero(a[0])
        elif t.op == "not":
            r = bnot(a[0])
        elif t.op == "and":
            r = band(*a)
        elif t.op == "ite":
            r = ite(*a)
        else:
            raise ValueError(t.op)
        memo[t.id] = r
    return [memo[r.id] for r in roots]


def batoms(roots):
    return sorted({t.aux for t in topo(roots) if t.op == "batom"})


# ---- evaluation in a concrete field (for discovering witnesses) -----------

def evaluate(roots, env, p):
    """evaluate ite-free or ite terms modulo the prime p; env: symbol->int"""
    memo = {}
    for t in topo(roots):
        a = [memo[x.id] for x in t.args]
        if t.op == "sym":
            r = env[t.aux] % p
        elif t.op == "const":
            r = t.aux.numerator * pow(t.aux.denominator, -1, p) % p
        elif t.op == "add":
            r = (a[0] + a[1]) % p
        elif t.op == "sub":
            r = (a[0] - a[1]) % p
        elif t.op == "mul":
            r = a[0] * a[1] % p
        elif t.op == "neg":
            r = -a[0] % p
        elif t.op == "iszero":
            r = a[0] == 0
        elif t.op == "not":
            r = not a[0]
        elif t.op == "and":
            r = a[0] and a[1]
        elif t.op == "true":
            r = True
        elif t.op == "false":
            r = False
        elif t.op == "ite":
            r = a[1] if a[0] else a[2]
        else:
            raise ValueError(t.op)
        memo[t.id] = r
    return [memo[r.id] for r in roots]


# ---- z3 ---------------------------------------------------------------------

def batom(key):
    """Boolean atom standing for an external (z3) condition registered under `key`"""
    return T("batom", (), key)


def to_z3(roots, z3, syms=None, atoms=None):
    """convert ring terms to z3 Real expressions (DAG preserved); `ite` and
    Boolean structure are kept, `batom` keys are looked up in `atoms`.
    Returns (exprs, symbol table)."""
    syms = {} if syms is None else syms
    memo = {}
    for t in topo(roots):
        a = [memo[x.id] for x in t.args]
        if t.op == "sym":
            if t.aux not in syms:
                syms[t.aux] = z3.Real(t.aux)
            r = syms[t.aux]
        elif t.op == "const":
            r = z3.RealVal(str(t.aux))
        elif t.op == "add":
            r = a[0] + a[1]
        elif t.op == "sub":
            r = a[0] - a[1]
        elif t.op == "mul":
            r = a[0] * a[1]
        elif t.op == "neg":
            r = -a[0]
        elif t.op == "ite":
            r = z3.If(a[0], a[1], a[2])
        elif t.op == "batom":
            if atoms is None or t.aux not in atoms:
                raise ValueError("to_z3: unknown Boolean atom %r" % (t.aux,))
            r = atoms[t.aux]
        elif t.op == "iszero":
            r = a[0] == 0
        elif t.op == "not":
            r = z3.Not(a[0])
        elif t.op == "and":
            r = z3.And(a[0], a[1])
        elif t.op == "true":
            r = z3.BoolVal(True)
        elif t.op == "false":
            r = z3.BoolVal(False)
        else:
            raise ValueError("to_z3: unresolved " + t.op)
        memo[t.id] = r
    return [memo[r.id] for r in roots], syms


# ---- sympy sparse polynomials ----------------------------------------------

def to_poly(roots, ring, gens):
    """convert ite-free ring terms to elements of a sympy PolyRing whose
    generators are named by `gens` (dict symbol name -> ring generator)."""
    memo = {}
    dom = ring.domain
    for t in topo(roots):
        a = [memo[x.id] for x in t.args]
        if t.op == "sym":
            r = gens[t.aux]
        elif t.op == "const":
            r = ring(dom.convert_from(_q(t.aux), _QQ())) if t.aux.denominator != 1 else ring(int(t.aux))
        elif t.op == "add":
            r = a[0] + a[1]
        elif t.op == "sub":
            r = a[0] - a[1]
        elif t.op == "mul":
            r = a[0] * a[1]
        elif t.op == "neg":
            r = -a[0]
        else:
            raise ValueError("to_poly: unresolved " + t.op)
        memo[t.id] = r
    return [memo[r.id] for r in roots]


def _QQ():
    from sympy import QQ
    return QQ


def _q(fr):
    from sympy import QQ
    return QQ(fr.numerator, fr.denominator)


def from_poly(p, names):
    """sympy PolyElement -> term (expanded sum of monomials)"""
    total = ZERO
    syms_ = [sym(n) for n in names]
    for mon, c in p.terms():
        fr = Fraction(int(c.numerator), int(c.denominator)) if hasattr(c, "numerator") else Fraction(int(c))
        m = const(fr)
        for s, e in zip(syms_, mon):
            for _ in range(e):
                m = mul(m, s)
        total = add(total, m)
    return total
