"""C01 Field arithmetic is exact for every element representation (engine L)."""
import time
from engines.llsym.build import build, Driver
from vlib.common import Obligation, finish, log, NCPU
from vlib.par import pmap
from . import fields as F
from .fieldops import check_op, MachineryError

QUICK = ["gf25519", "gf255e", "gfsecp256k1", "gf448", "gfp256", "sc25519", "sc448"]
# obligations that do not close within the tier budget on the unchanged tree
# (measured; see DESIGN.md section 8) -- not posed, listed as outside the claim
_MONTY = ["gfp256", "sc25519", "scp256", "scsecp256k1", "scjq255e", "scjq255s", "scgls254", "sc448"]
DEFER = set([(t, "square") for t in _MONTY] + [(t, "xsquare2") for t in _MONTY if t != "sc448"]
            + [("gfp256", "mul"), ("scp256", "mul"), ("sc448", "mul_small")])


def drivers_for(fields):
    ds = []
    for f in fields:
        for op in f.ops:
            ds.append(F.op_driver(f, op))
        # square∘square reference for xsquare
        d = F.op_driver(f, "square")
        d.name = "drv_%s_sqsq" % f.tag
        d.body = d.body.replace("x.square()", "x.square().square()")
        ds.append(d)
    return ds


def run_config(tier, fields, cfg, features=None, rustflags="", defer=DEFER, only=None, timeout=None):
    """C01 obligation set for one build configuration (also used by C18)"""
    built = build(drivers_for(fields), tag="C01-" + cfg, features=features, rustflags=rustflags)
    items = [(f, op) for f in fields for op in f.ops if (f.tag, op) not in defer or only]
    timeout = timeout or (100 if tier == "quick" else 900)

    def work(it):
        f, op = it
        return check_op(built, f, op, tier, timeout=timeout, cfg=cfg)
    res = pmap(work, items, nproc=NCPU, timeout=max(1800, timeout * 4))
    obs = []
    merr = None
    for (f, op), (st, val) in zip(items, res):
        if st == "ok":
            obs.extend(val)
        else:
            o = Obligation("%s:%s.%s:value" % (cfg, f.tag, op), "L")
            o.unknown("%s: %s" % (st, str(val)[:300]))
            obs.append(o)
            if "MachineryError" in str(val):
                merr = str(val)[:500]
    built.close()
    return obs, merr


def run(tier, only=None):
    t0 = time.time()
    fields = [f for f in F.FIELDS if tier == "thorough" or f.tag in QUICK]
    if only:
        fields = [f for f in F.FIELDS if f.tag in only]
    built = build(drivers_for(fields), tag="C01-default")
    items = [(f, op) for f in fields for op in f.ops if (f.tag, op) not in DEFER or only]
    deferred = ["%s.%s" % (f.tag, op) for f in fields for op in f.ops if (f.tag, op) in DEFER and not only]
    timeout = 100 if tier == "quick" else 900

    def work(it):
        f, op = it
        return check_op(built, f, op, tier, timeout=timeout)
    # deferred operations (no symbolic certificate within budget) get a native closed-case corpus instead
    ditems = [(f, op) for f in fields for op in f.ops if (f.tag, op) in DEFER and not only and op in ("square", "mul")]
    from .fieldops import corpus_op

    def work(it):
        f, op = it[:2]
        if len(it) == 3:
            return corpus_op(built, f, op)
        return check_op(built, f, op, tier, timeout=timeout)
    items = items + [(f, op, "corpus") for f, op in ditems]
    res = pmap(work, items, nproc=NCPU, timeout=max(1800, timeout * 4))
    obs = []
    merr = None
    for it_, (st, val) in zip(items, res):
        f, op = it_[:2]
        if st == "ok":
            obs.extend(val)
        else:
            o = Obligation("default:%s.%s:value" % (f.tag, op), "L")
            o.unknown("%s: %s" % (st, str(val)[:300]))
            obs.append(o)
            if "MachineryError" in str(val):
                merr = str(val)[:500]
    built.close()
    return finish("C01", tier, obs, t0,
                  functions_encoded=sorted(set(fn for o in obs for fn in o.functions)),
                  bounds={"operands": "all raw limb patterns (redundant types) / all limbs below the modulus (Montgomery types)",
                          "xsquare": "n=2 (same loop body for larger n)",
                          "mul_small": "multiplier symbolic 32 bits (16 for secp256k1 mul_u16)",
                          "configuration": "default features, x86_64, opt-level 3"},
                  stubs={"64x64->128 products of two symbolic words": "uninterpreted product atoms with range, Boolean-operand and row/column axioms (sound over-approximation); exact again when replaying"},
                  assumptions=["LLVM IR semantics as implemented in engines/llsym (validated against the native build on every run)",
                               "moduli and representation conventions in props/fields.py (from the standards)",
                               "transmute between the field struct and its limb array preserves layout (validated natively)"],
                  outside=["binary fields GF(2^127)/GF(2^254): see evidence notes", "w32/m51/clmul backends: C18",
                           "xsquare n>2", "primality of moduli",
                           "deferred (no symbolic certificate within budget; square / mul among them are replayed natively on a "
                           "closed-case corpus of limb patterns, reported as ground facts): " + ", ".join(deferred)],
                  machinery_error=merr)
