"""C02 Secret-independent control flow and memory addressing (engine L on optimized IR).

Every constant-time entry point is executed symbolically with all secret
inputs symbolic.  Control flow and addresses are concrete in the executor:
whenever a branch condition, an address, a copy length or a division operand
is a non-constant term, the solver is asked whether two secrets can make it
differ; `sat` (both values reachable) is a violation candidate, `unsat` means
semantically constant and execution continues with that value."""
import time
from engines.llsym.build import build, Driver
from engines.llsym import terms as T
from engines.llsym.smt import BVEmitter, run_solver, parse_model, bvc
from engines.llsym.llexec import Executor, ExecError, SymbolicControl, PanicReached
from vlib.common import Obligation, finish, log, NCPU
from vlib.par import pmap
from . import fields as F
from .lhelp import rng, hexl, MachineryError, model_inputs, env_from_inputs


class CTViolation(Exception):
    def __init__(self, kind, where, m0, m1):
        Exception.__init__(self, "%s depends on secret data at %s" % (kind, where))
        self.kind, self.where, self.m0, self.m1 = kind, where, m0, m1


def ct_run(built, drv, timeout=30, max_steps=30_000_000):
    """returns (stats dict).  raises CTViolation"""
    ex = Executor(built.module, max_steps=max_steps)
    queries = [0, 0.0]
    found = []          # CTViolation objects (first per site)
    seen_sites = {}

    rnd = rng("ct", drv)

    def record(v):
        """remember the first violation per site and keep executing (side 0) so that
        further, different secret-dependent branches are also seen"""
        import re as _re
        site = _re.sub(r"17h[0-9a-f]{16}E", "", v.where)
        if site in seen_sites:
            return seen_sites[site]
        seen_sites[site] = 0
        found.append(v)
        if len(found) > 12:
            raise v
        return 0

    def decide_bit(c, where, kind):
        # can the 1-bit term c take both values?
        # (a) constructive: evaluate the condition on a few concrete secrets
        seen = {}
        vs = T.variables([c])
        t_s = time.time()
        for it in range(24):
            if it >= 6 and time.time() - t_s > 30:
                break
            env = {}
            for v_ in vs:
                w_ = v_.w
                if it == 0:
                    env[v_.aux[0]] = 0
                elif it == 1:
                    env[v_.aux[0]] = (1 << w_) - 1
                elif it == 2:
                    env[v_.aux[0]] = 1 if v_.aux[0].endswith("0") else 0
                elif it % 2:
                    env[v_.aux[0]] = rnd.getrandbits(w_) & ((1 << w_) - 1 >> 1 if w_ == 8 and v_.aux[0].endswith("31") else (1 << w_) - 1)
                else:
                    env[v_.aux[0]] = rnd.choice([0, (1 << w_) - 1, rnd.getrandbits(w_), 1 << (w_ - 1), rnd.getrandbits(w_)])
            val = T.evaluate([c], env)[0] & 1
            seen.setdefault(val, env)
            if len(seen) == 2:
                return record(CTViolation(kind, where, seen[0], seen[1]))
        res = {}
        for val in (1, 0):
            em = BVEmitter()
            script = em.script(["(= %s %s)" % (em.ref(c, 1), bvc(val, 1))])
            v, mod, dt = run_solver(script, "z3", timeout)
            queries[0] += 1
            queries[1] += dt
            res[val] = (v, parse_model(mod) if v == "sat" else None)
        if res[1][0] == "sat" and res[0][0] == "sat":
            return record(CTViolation(kind, where, res[0][1], res[1][1]))
        if res[1][0] == "unsat" and res[0][0] == "sat":
            return 0
        if res[0][0] == "unsat" and res[1][0] == "sat":
            return 1
        raise ExecError("cannot decide whether %s at %s is constant (%s/%s)" % (kind, where, res[0][0], res[1][0]))

    def branch_policy(ex_, c, where):
        return decide_bit(c, where, "branch condition")

    def sym_policy(ex_, kind, term, where):
        # any non-constant address / length / divisor: two different values reachable?
        em = BVEmitter()
        # two copies are unnecessary: non-constant term => ask for value != one witness value
        script = em.script([])
        x = em.ref(term, term.w)
        v, mod, dt = run_solver(em.script([]), "z3", timeout)
        queries[0] += 1
        queries[1] += dt
        m0 = parse_model(mod) if v == "sat" else {}
        env = {n: m0.get(n, 0) for n in em.vars}
        val0 = T.evaluate([term], {**{v_.aux[0]: 0 for v_ in T.variables([term])}, **env})[0]
        em2 = BVEmitter()
        x2 = em2.ref(term, term.w)
        v2, mod2, dt2 = run_solver(em2.script(["(distinct %s %s)" % (x2, bvc(val0, term.w))]), "z3", timeout)
        queries[0] += 1
        queries[1] += dt2
        if v2 == "sat":
            raise CTViolation(kind, where, m0, parse_model(mod2))
        if v2 != "unsat":
            raise ExecError("cannot decide whether %s at %s is constant (%s)" % (kind, where, v2))
        # semantically constant: the executor still cannot use a term as an address
        raise ExecError("%s at %s is a non-folded but constant term" % (kind, where))

    ex.branch_policy = branch_policy
    ex.sym_index_policy = sym_policy
    d = built.drivers[drv]
    args = []
    for name, kind, eb, cnt in d.params:
        if kind == "in":
            vs = [T.var("%s%d" % (name, i), 8 * eb) for i in range(cnt)]
            args.append(ex.alloc_words(vs, eb, name))
        elif kind == "out":
            args.append(ex.alloc_uninit(eb * cnt, name))
        else:
            args.append(T.var(name, 8 * eb))
    t0 = time.time()
    ex.run(drv, args)
    return {"violations": found, "ir_instructions": ex.steps, "terms": T.nterms(), "solver_queries": queries[0],
            "solver_seconds": round(queries[1], 2), "exec_seconds": round(time.time() - t0, 1),
            "functions": len(ex.funcs_entered)}


REPLAY_C = r"""
#include <stdio.h>
#include <stdlib.h>
#include <string.h>
#include <stdint.h>
/* generic trampoline: every driver takes pointers to byte buffers / by-value ints; we pass buffers only */
typedef void (*fn_t)(void*, void*, void*, void*, void*, void*);
extern void DRIVER(void*, void*, void*, void*, void*, void*);
static void unhex(const char *h, unsigned char *out, size_t n) {
    for (size_t i = 0; i < n; i++) { unsigned v; sscanf(h + 2 * i, "%2x", &v); out[i] = (unsigned char)v; }
}
int main(int argc, char **argv) {
    void *bufs[6] = {0,0,0,0,0,0};
    for (int i = 1; i < argc && i <= 6; i++) {
        size_t n = strlen(argv[i]) / 2;
        unsigned char *b = aligned_alloc(64, (n + 127) & ~(size_t)63);
        unhex(argv[i], b, n);
        bufs[i - 1] = b;
    }
    ((fn_t)DRIVER)(bufs[0], bufs[1], bufs[2], bufs[3], bufs[4], bufs[5]);
    return 0;
}
"""


def native_ct_replay(built, drv, m0, m1):
    """run the natively compiled driver on the two witnesses under valgrind
    (lackey) and compare executed-instruction and conditional-branch counts.
    Returns (confirmed, detail)."""
    import os, re, subprocess, glob
    d = built.drivers[drv]
    if any(kind == "val" for _, kind, _, _ in d.params) or len(d.params) > 6:
        return None, {"replay": "driver shape not supported by the trampoline"}
    root = built.scratch.root
    so = glob.glob(os.path.join(built.scratch.target, "release", "deps", "libcrrl*.so"))[0]
    csrc = os.path.join(root, "replay_%s.c" % drv)
    exe = os.path.join(root, "replay_%s" % drv)
    with open(csrc, "w") as fh:
        fh.write(REPLAY_C.replace("DRIVER", drv))
    r = subprocess.run(["clang", "-O1", "-o", exe, csrc, so, "-Wl,-rpath," + os.path.dirname(so)],
                       stdout=subprocess.PIPE, stderr=subprocess.STDOUT, text=True)
    if r.returncode != 0:
        return None, {"replay": "cc failed: " + r.stdout[-300:]}
    counts = []
    for m in (m0, m1, m0):
        args = []
        for name, kind, eb, cnt in d.params:
            if kind == "in":
                bs = bytearray()
                for i in range(cnt):
                    bs += int(m.get("%s%d" % (name, i), m.get("x_%s%d" % (name, i), 0))).to_bytes(eb, "little")
                args.append(bs.hex())
            else:
                args.append("00" * (eb * cnt))
        p = subprocess.run(["valgrind", "--tool=lackey", "--basic-counts=yes", exe] + args,
                           stdout=subprocess.PIPE, stderr=subprocess.STDOUT, text=True, timeout=600)
        mm = re.search(r"guest instrs:\s+([\d,]+)", p.stdout)
        mb = re.search(r"Jccs:\s*\n.*?total:\s+([\d,]+)", p.stdout, re.S)
        mt = re.search(r"taken:\s+([\d,]+)", p.stdout)
        if not mm:
            return None, {"replay": "valgrind output not understood: " + p.stdout[-300:]}
        counts.append((int(mm.group(1).replace(",", "")),
                       int(mb.group(1).replace(",", "")) if mb else -1,
                       int(mt.group(1).replace(",", "")) if mt else -1))
    if counts[0] != counts[2]:
        return None, {"replay": "valgrind counts are not reproducible for identical inputs"}
    return counts[0] != counts[1], {"valgrind_lackey (instrs, cond branches, taken)": {"witness0": counts[0], "witness1": counts[1]}}


def tm(ty, n, v):
    return "unsafe { transmute::<[u64; %d], %s>(*%s) }" % (n, ty, v)


def back(ty, n, e):
    return "unsafe { transmute::<%s, [u64; %d]>(%s) }" % (ty, n, e)


def field_ct_drivers(f):
    ty, n = f.rust, f.n
    ds = []
    un = {"neg": "-x", "half": "x.half()", "mul2": "x.mul2()", "square": "x.square()",
          "invert": "<%s>::ONE / x" % ty}
    bi = {"add": "x + y", "sub": "x - y", "mul": "x * y", "div": "x / y"}
    for op, e in un.items():
        ds.append((Driver("drv_ct_%s_%s" % (f.tag, op), [("a", "in", 8, n), ("out", "out", 8, n)],
                          "        let x: %s = %s;\n        *out = %s;" % (ty, tm(ty, n, "a"), back(ty, n, e))),
                   "%s::%s" % (ty, op)))
    for op, e in bi.items():
        ds.append((Driver("drv_ct_%s_%s" % (f.tag, op), [("a", "in", 8, n), ("b", "in", 8, n), ("out", "out", 8, n)],
                          "        let x: %s = %s; let y: %s = %s;\n        *out = %s;"
                          % (ty, tm(ty, n, "a"), ty, tm(ty, n, "b"), back(ty, n, e))), "%s::%s" % (ty, op)))
    if f.q % 4 == 3 or f.q % 8 == 5:
      ds.append((Driver("drv_ct_%s_sqrt" % f.tag, [("a", "in", 8, n), ("out", "out", 8, n), ("st", "out", 4, 1)],
                      "        let x: %s = %s;\n        let (r, c) = x.sqrt();\n        *out = %s; st[0] = c;"
                      % (ty, tm(ty, n, "a"), back(ty, n, "r"))), "%s::sqrt" % ty))
    ds.append((Driver("drv_ct_%s_batchinv" % f.tag, [("a", "in", 8, n), ("b", "in", 8, n), ("c", "in", 8, n), ("out", "out", 8, n)],
                      "        let mut xs: [%s; 3] = [%s, %s, %s];\n        <%s>::batch_invert(&mut xs[..]);\n        *out = %s;"
                      % (ty, tm(ty, n, "a"), tm(ty, n, "b"), tm(ty, n, "c"), ty, back(ty, n, "xs[0] + xs[1] + xs[2]"))),
               "%s::batch_invert (3 secret elements)" % ty))
    ds.append((Driver("drv_ct_%s_legendre" % f.tag, [("a", "in", 8, n), ("st", "out", 4, 1)],
                      "        let x: %s = %s;\n        st[0] = x.legendre() as u32;" % (ty, tm(ty, n, "a"))),
               "%s::legendre" % ty))
    ds.append((Driver("drv_ct_%s_iszero" % f.tag, [("a", "in", 8, n), ("st", "out", 4, 1)],
                      "        let x: %s = %s;\n        st[0] = x.iszero();" % (ty, tm(ty, n, "a"))),
               "%s::iszero" % ty))
    ds.append((Driver("drv_ct_%s_encode" % f.tag, [("a", "in", 8, n), ("out", "out", 1, f.enc_len)],
                      "        let x: %s = %s;\n        *out = x.encode();" % (ty, tm(ty, n, "a"))),
               "%s::encode" % ty))
    ds.append((Driver("drv_ct_%s_decode_ct" % f.tag, [("buf", "in", 1, f.enc_len), ("out", "out", 8, n), ("st", "out", 4, 1)],
                      "        let (r, c) = <%s>::decode_ct(&buf[..]);\n        *out = %s; st[0] = c;"
                      % (ty, back(ty, n, "r"))), "%s::decode_ct" % ty))
    ds.append((Driver("drv_ct_%s_decode_reduce" % f.tag, [("buf", "in", 1, 64), ("out", "out", 8, n)],
                      "        let r = <%s>::decode_reduce(&buf[..]);\n        *out = %s;"
                      % (ty, back(ty, n, "r"))), "%s::decode_reduce (64 bytes)" % ty))
    return ds


# (tag, module, scalar bytes, point words)
CURVES = [
    ("ed25519", "crate::ed25519", 32, 16),
    ("p256", "crate::p256", 32, 12),
    ("jq255e", "crate::jq255e", 32, 16),
    ("secp256k1", "crate::secp256k1", 32, 12),
    ("jq255s", "crate::jq255s", 32, 16),
    ("gls254", "crate::gls254", 32, 16),
    ("ed448", "crate::ed448", 56, 21),
    ("ristretto255", "crate::ristretto255", 32, 16),
    ("decaf448", "crate::decaf448", 56, 21),
]


def curve_ct_drivers(tag, mod, sb, pw):
    P, S = mod + "::Point", mod + "::Scalar"
    ds = []
    ds.append((Driver("drv_ct_%s_mul" % tag, [("p", "in", 8, pw), ("k", "in", 1, sb), ("out", "out", 8, pw)],
                      "        let x: %s = %s;\n        let s = <%s>::decode_reduce(&k[..]);\n        *out = %s;"
                      % (P, tm(P, pw, "p"), S, back(P, pw, "x * s"))), "%s::set_mul (secret scalar and point)" % P))
    ds.append((Driver("drv_ct_%s_mulgen" % tag, [("k", "in", 1, sb), ("out", "out", 8, pw)],
                      "        let s = <%s>::decode_reduce(&k[..]);\n        *out = %s;"
                      % (S, back(P, pw, "<%s>::mulgen(&s)" % P))), "%s::mulgen (secret scalar)" % P))
    ds.append((Driver("drv_ct_%s_add" % tag, [("p", "in", 8, pw), ("q", "in", 8, pw), ("out", "out", 8, pw)],
                      "        let x: %s = %s; let y: %s = %s;\n        *out = %s;"
                      % (P, tm(P, pw, "p"), P, tm(P, pw, "q"), back(P, pw, "x + y"))), "%s::add" % P))
    ds.append((Driver("drv_ct_%s_double" % tag, [("p", "in", 8, pw), ("out", "out", 8, pw)],
                      "        let x: %s = %s;\n        *out = %s;" % (P, tm(P, pw, "p"), back(P, pw, "x.double()"))),
               "%s::double" % P))
    ds.append((Driver("drv_ct_%s_setdecode" % tag, [("buf", "in", 1, sb + (1 if tag in ("ed448", "p256", "secp256k1") else 0)), ("out", "out", 8, pw), ("st", "out", 4, 1)],
                      "        let mut x = <%s>::NEUTRAL;\n        let r = x.set_decode(&buf[..]);\n        *out = %s; st[0] = r;"
                      % (P, back(P, pw, "x"))), "%s::set_decode (constant-time decoding of secret bytes)" % P))
    ds.append((Driver("drv_ct_%s_encode" % tag, [("p", "in", 8, pw), ("out", "out", 1, 1)],
                      "        let x: %s = %s;\n        let e = x.%s();\n        out[0] = e[0];" % (P, tm(P, pw, "p"), "encode_compressed" if tag in ("p256", "secp256k1") else "encode")),
               "%s::encode (secret point; includes a field inversion)" % P))
    return ds


def lookup_ct_drivers(tag, mod, pw):
    P = "Point"
    host = "src/%s.rs" % tag
    W = 16 * pw
    d = Driver("drv_ct_%s_lookup" % tag, [("win", "in", 8, W), ("k", "in", 1, 1), ("out", "out", 8, pw)],
               "        let w: [Point; 16] = unsafe { transmute::<[u64; %d], [Point; 16]>(*win) };\n"
               "        let r = Point::lookup(&w, k[0] as i8);\n"
               "        *out = unsafe { transmute::<Point, [u64; %d]>(r) };" % (W, pw), host)
    return [(d, "%s::Point::lookup (secret index, secret table)" % mod)]


LOOKUP_CURVES = {"ed25519": 16, "p256": 12, "ed448": 21, "secp256k1": 12, "jq255s": 16}


def misc_ct_drivers():
    ds = []
    ds.append((Driver("drv_ct_x25519", [("u", "in", 1, 32), ("k", "in", 1, 32), ("out", "out", 1, 32)],
                      "        *out = crate::x25519::x25519(u, k);"), "x25519::x25519 (secret scalar and point)"))
    ds.append((Driver("drv_ct_x25519_base", [("k", "in", 1, 32), ("out", "out", 1, 32)],
                      "        *out = crate::x25519::x25519_base(k);"), "x25519::x25519_base"))
    ds.append((Driver("drv_ct_x448", [("u", "in", 1, 56), ("k", "in", 1, 56), ("out", "out", 1, 56)],
                      "        *out = crate::x448::x448(u, k);"), "x448::x448"))
    ds.append((Driver("drv_ct_ed25519_sign", [("seed", "in", 1, 32), ("msg", "in", 1, 40), ("out", "out", 1, 64)],
                      "        let sk = crate::ed25519::PrivateKey::from_seed(seed);\n        *out = sk.sign_raw(&msg[..]);"),
               "ed25519::PrivateKey::from_seed + sign_raw (secret seed, secret 40-byte message)"))
    ds.append((Driver("drv_ct_ed25519_keygen", [("seed", "in", 1, 32), ("out", "out", 1, 32)],
                      "        let sk = crate::ed25519::PrivateKey::from_seed(seed);\n        *out = sk.public_key.encode();"),
               "ed25519::PrivateKey::from_seed (key generation)"))
    ds.append((Driver("drv_ct_sha256", [("msg", "in", 1, 70), ("out", "out", 1, 32)],
                      "        let mut sh = crate::sha2::Sha256::new();\n        sh.update(&msg[..]);\n        *out = sh.finalize();"),
               "sha2::Sha256 over a secret 70-byte message"))
    mk = ("        let mut sec = Scalar::decode_reduce(&sk[..]);\n"
          "        let point = Point::mulgen(&sec);\n"
          "        let k = PrivateKey { sec: sec, public_key: PublicKey { point: point, encoded: point.encode() } };\n")
    ds.append((Driver("drv_ct_jq255e_sign", [("sk", "in", 1, 32), ("msg", "in", 1, 20), ("out", "out", 1, 48)],
                      mk + "        *out = k.sign_seeded(&[], \"\", &msg[..]);", "src/jq255e.rs"),
               "jq255e::PrivateKey::sign_seeded (secret key built from a secret scalar, secret message)"))
    ds.append((Driver("drv_ct_jq255e_ecdh", [("sk", "in", 1, 32), ("pk", "in", 1, 32), ("out", "out", 1, 32), ("st", "out", 4, 1)],
                      mk + "        let (key, ok) = k.ECDH(&pk[..]);\n        *out = key; st[0] = ok;", "src/jq255e.rs"),
               "jq255e::PrivateKey::ECDH (secret key, peer key bytes treated as secret too)"))
    return ds


QUICK_FIELDS = ["gf25519", "gfp256", "sc25519"]
QUICK_CURVES = ["ed25519", "p256"]
QUICK_MISC = ["drv_ct_x25519", "drv_ct_ed25519_sign", "drv_ct_ed25519_keygen", "drv_ct_sha256", "drv_ct_jq255e_sign", "drv_ct_jq255e_ecdh"]
# entries that reach documented variable-time code or exceed the executor's budget (measured)
SKIP = set()


CFG = ["default"]


def run_config(tier, cfg="default", features=None, rustflags="", only=None):
    CFG[0] = cfg
    t0 = time.time()
    fields = [f for f in F.FIELDS if tier == "thorough" or f.tag in QUICK_FIELDS]
    curves = [c for c in CURVES if tier == "thorough" or c[0] in QUICK_CURVES]
    misc = misc_ct_drivers()
    if tier == "quick":
        misc = [m for m in misc if m[0].name in QUICK_MISC]
    if only:
        fields = [f for f in F.FIELDS if f.tag in only]
        curves = [c for c in CURVES if c[0] in only]
        misc = [m for m in misc_ct_drivers() if m[0].name in only or "misc" in only]
    pairs = []
    for f in fields:
        pairs += field_ct_drivers(f)
    for c in curves:
        pairs += curve_ct_drivers(*c)
        if c[0] in LOOKUP_CURVES:
            pairs += lookup_ct_drivers(c[0], c[1], LOOKUP_CURVES[c[0]])
    pairs += misc
    pairs = [p for p in pairs if p[0].name not in SKIP]
    built = build([p[0] for p in pairs], tag="C02-" + cfg, features=features, rustflags=rustflags)
    timeout = 600 if tier == "quick" else 3000

    def work(pair):
        d, what = pair
        T.reset()
        ob = Obligation(CFG[0] + ":" + d.name[7:], "L", [what],
                        "all values of the secret inputs; public lengths as in the driver",
                        "every executed branch condition, load/store/memcpy address and length, and division operand is independent of the secret inputs")
        t1 = time.time()
        try:
            st = ct_run(built, d.name)
            if st["violations"]:
                return [violation_obligation(built, d, what, e, t1) for e in st["violations"]]
            ob.ok("single-path symbolic execution; z3-bv on %d non-folded conditions" % st["solver_queries"],
                  time.time() - t1, st["solver_queries"], syntactic=(st["ir_instructions"] == 0))
            ob.desc += " [%d IR instructions executed, %d functions, %d terms]" % (
                st["ir_instructions"], st["functions"], st["terms"])
        except CTViolation as e:
            return [violation_obligation(built, d, what, e, t1)]
        except PanicReached as e:
            ob.unknown("panic path reached on the single path: %s" % e)
        except ExecError as e:
            ob.unknown("executor: %s" % str(e)[:300])
        return [ob]

    def violation_obligation(built, d, what, e, t1):
            ob = Obligation(CFG[0] + ":" + d.name[7:], "L", [what],
                            "all values of the secret inputs; public lengths as in the driver",
                            "every executed branch condition, address, length and division operand is independent of the secret inputs")
            import re as _re
            fnm = _re.sub(r"17h[0-9a-f]{1,16}E?$", "", e.where.split(":")[0].strip())
            det = {"key": "%s|%s|%s" % (CFG[0], d.name[7:], e.kind), "function": fnm, "kind": e.kind, "where": e.where,
                   "witness0": {k: hex(v) for k, v in list(e.m0.items())[:16]},
                   "witness1": {k: hex(v) for k, v in list(e.m1.items())[:16]},
                   "found_by": "z3-bv: both values of the condition are reachable"}
            try:
                conf, rd = native_ct_replay(built, d.name, e.m0, e.m1)
            except Exception as ex_:
                conf, rd = None, {"replay": "failed: %s" % ex_}
            det.update(rd)
            if conf:
                ob.fail(det, "z3-bv + valgrind replay", time.time() - t1)
            elif conf is None:
                ob.unknown("secret-dependent %s at %s; native trace replay unavailable (%s)"
                           % (e.kind, e.where[:120], rd.get("replay", "")))
            else:
                ob.unknown("IR-level secret-dependent %s at %s, but the machine-code traces of the two witnesses are identical"
                           % (e.kind, e.where[:120]))
            return ob
    res = pmap(work, pairs, nproc=NCPU, timeout=timeout)
    obs = []
    for (d, what), (st, val) in zip(pairs, res):
        if st == "ok":
            obs.extend(val)
        else:
            o = Obligation(CFG[0] + ":" + d.name[7:], "L", [what])
            o.unknown("%s: %s" % (st, str(val)[-300:]))
            obs.append(o)
    built.close()
    return obs


CONFIGS = [("w32", ["w32_backend"], ""), ("avx2", None, "-C target-feature=+avx2")]


def run(tier, only=None):
    t0 = time.time()
    obs = []
    if not (only and any(o.startswith("cfg=") for o in only)):
        obs = run_config(tier, only=only)
    if tier == "thorough" and not only:
        for cfg, feats, rf in CONFIGS:
            obs += run_config(tier, cfg=cfg, features=feats, rustflags=rf)
    elif only and any(o.startswith("cfg=") for o in only):
        want = [o[4:] for o in only if o.startswith("cfg=")]
        rest = [o for o in only if not o.startswith("cfg=")] or None
        obs = []
        for cfg, feats, rf in CONFIGS:
            if cfg in want:
                obs += run_config(tier, cfg=cfg, features=feats, rustflags=rf, only=rest)
    return finish("C02", tier, obs, t0,
                  rule=("one evaluation = one constant-time entry point executed symbolically along its single "
                        "path with all secrets symbolic; non-trivial = at least one IR instruction was executed on "
                        "symbolic data and every control/address term folded to a constant or was decided by z3; "
                        "distinct by entry point"),
                  functions_encoded=sorted(set(fn for o in obs for fn in o.functions)),
                  bounds={"level": "LLVM IR after the full -O3 pipeline of `cargo build --release` (before instruction selection)",
                          "public parameters": "message/buffer lengths fixed per driver (40-byte message, 64-byte reducing decode, 70-byte hash input)",
                          "configuration": "default features, x86_64 baseline target features"},
                  assumptions=["a `select`/arithmetic-only IR is lowered without secret-dependent branches by the x86-64 back end",
                               "multiplication and add-with-carry instructions are constant-time on the target (README's own caveat for 32-bit targets)"],
                  outside=["instruction selection and micro-architecture", "non-default backends (C18 configurations)",
                           "documented variable-time functions (*_vartime, decode() -> Option, verification)"])
