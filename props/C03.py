"""C03 Point addition, doubling and negation implement the complete group law
(engine P: MIR executed over an abstract ring, identities decided by z3).

One obligation per (group, function, case).  See engines/polyid/NOTES.md."""
import math
import os
import random
import threading
import time
import traceback
from fractions import Fraction

from vlib.common import Obligation, finish, log, NCPU, SEED
from vlib.par import pmap
from engines.polyid import terms as R
from engines.polyid.build import dump_mir
from engines.polyid.interp import Interp, Agg, Cell, Ref, IntV, MirError, short_type
from engines.polyid.prove import Ideal, prove_zero, factor_nonvanishing, Z3_VERSION
from engines.polyid.curves import models, Affine, Edwards, Weierstrass, JacobiQuartic, GLS254
from engines.polyid.curves import legendre, sqrt_mod
from engines.polyid import replay as RP

MIR = None
MODELS = None
Z3_TIMEOUT_MS = 60000

BOUNDS = ("none on operands: polynomial identity over Q[affine coordinates, scaling variables, curve constants] "
          "modulo the curve equations of the operands (valid in every field of characteristic > 3)")

GROUPS = {
    "ed25519": dict(model="ed25519", module="ed25519", wrap=False,
                    affine=("duif", "PointDuif", "set_add_duif", "set_sub_duif"), xd="iter"),
    "ristretto255": dict(model="ed25519", module="ristretto255", wrap=True, affine=None, xd="iter"),
    "ed448": dict(model="ed448", module="ed448", wrap=False,
                  affine=("affine", "PointAffine", "set_add_affine", "set_sub_affine"), xd="iter"),
    "decaf448": dict(model="ed448", module="decaf448", wrap=True, affine=None, xd="iter"),
    "p256": dict(model="p256", module="p256", wrap=False,
                 affine=("affine_rz", "PointAffine", "set_add_affine", "set_sub_affine"),
                 xd="cut", state=["X", "Y", "Z"]),
    "secp256k1": dict(model="secp256k1", module="secp256k1", wrap=False,
                      affine=("affine_rz", "PointAffine", "set_add_affine", "set_sub_affine"), xd="iter"),
    "jq255e": dict(model="jq255e", module="jq255e", wrap=False,
                   affine=("affine_ext", "PointAffineExtended", "set_add_affine_extended",
                           "set_sub_affine_extended"), xd="cut", state=["X", "W", "J"]),
    "jq255s": dict(model="jq255s", module="jq255s", wrap=False,
                   affine=("affine_ext", "PointAffineExtended", "set_add_affine_extended",
                           "set_sub_affine_extended"), xd="cut", state=["X", "W", "J"]),
    "gls254": dict(model="gls254", module="gls254", wrap=False,
                   affine=("gls_affine", "PointAffine", "set_add_affine", "set_sub_affine"),
                   xd="cut", state=["X", "T", "Z", "Y"]),
}
QUICK_GROUPS = list(GROUPS)
XDOUBLE_N = [1, 2, 3]
MUL_SMALL_N = list(range(0, 17)) + [31, 32, 33, 255, 2 ** 32 + 1, 2 ** 40 + 1, 0x0123456789ABCDEF, 0xFEDCBA9876543210, 2 ** 63, 2 ** 64 - 1]


class Machinery(Exception):
    pass


# --------------------------------------------------------------------------
# helpers: structs <-> coordinate lists

class G:
    """a group under test: model + the module whose functions are executed"""

    def __init__(self, name):
        d = GROUPS[name]
        self.name = name
        self.d = d
        self.model = MODELS[d["model"]]
        self.module = d["module"]
        self.wrap = d["wrap"]
        self.inner_mod = self.model.module
        self.decl = self.model.struct_fields(MIR, "Point")
        if sorted(self.decl) != sorted(self.model.coords):
            raise Machinery("%s::Point has fields %r, the model expects %r"
                            % (self.inner_mod, self.decl, self.model.coords))

    def interp(self, **kw):
        return Interp(MIR, char2=self.model.char2, **kw)

    def point(self, fields):
        by = dict(zip(self.model.coords, fields))
        inner = Agg("struct", [by[n] for n in self.decl], self.inner_mod + "::Point", list(self.decl))
        if self.wrap:
            return Agg("struct", [inner], self.module + "::Point")
        return inner

    def fields(self, val):
        inner = val.fields[0] if self.wrap else val
        by = dict(zip(self.decl, inner.fields))
        return [by[n] for n in self.model.coords]

    def aff_struct(self, ty, by):
        names = self.model.struct_fields(MIR, ty)
        if sorted(names) != sorted(by):
            raise Machinery("%s::%s has fields %r, expected %r" % (self.inner_mod, ty, names, sorted(by)))
        return Agg("struct", [by[n] for n in names], self.inner_mod + "::" + ty, list(names))

    def fn(self, interp, method, ty="Point"):
        return interp.find_fn(self.module, ty, method)


def order_key(model):
    fam = model.family

    def key(n):
        if n in model.units or "_" in n:      # named curve constants
            return (0 if fam == "edwards" else 9, n)
        c0 = n[0]
        if fam == "weierstrass":
            return ({"y": 1, "x": 2}.get(c0, 5), n)
        if fam == "jq":
            return ({"e": 1, "u": 2}.get(c0, 5), n)
        if fam == "gls":
            if n in ("u", "sb"):
                return (8, n)
            if n in ("qY",):
                return (1, n)
            if n in ("qT",):
                return (2, n)
            return ({"s": 1}.get(c0, 5), n)
        return ({"x": 1, "y": 2}.get(c0, 5), n)
    return key


def make_ideal(model, hyps, terms_):
    if model.char2:
        hyps = list(hyps) + list(model.const_hyps)
        syms = R.symbols(list(hyps) + list(terms_))
        return Ideal(hyps, sorted(syms, key=order_key(model)), char2=True)
    syms = R.symbols(list(hyps) + list(terms_))
    units = []
    if model.units:
        nh = sum(1 for h in hyps if set(R.symbols([h])) & set(model.units))
        if nh >= 2:
            units = list(model.units)
    order = sorted(syms, key=order_key(model))
    return Ideal(hyps, order, units=units)


# --------------------------------------------------------------------------
# one obligation = a set of z3-decided identities

class Acc:
    def __init__(self, name, functions, desc, hint, bounds=BOUNDS):
        self.name, self.functions, self.desc, self.hint, self.bounds = name, functions, desc, hint, bounds
        self.secs = 0.0
        self.queries = 0
        self.nchecks = 0
        self.fails = []
        self.unknowns = []
        self.notes = []
        self.denoms = 1
        self.mults = set()
        self.trusted = []

    def zero(self, label, term, model, hyps):
        self.nchecks += 1
        ideal = make_ideal(model, hyps, [term])
        res = prove_zero(term, ideal, Z3_TIMEOUT_MS)
        self._acc(label, res)
        return res.ok

    def nonvanishing(self, label, term, model, hyps, nz):
        """term is a non-zero rational multiple of a product of declared
        non-vanishing quantities (modulo the hypotheses)"""
        self.nchecks += 1
        nz = [n for n in nz if isinstance(n, R.T) and not R.is_const(n)]
        if R.is_const(term):
            if term.aux != 0:
                return True
            self.fails.append("%s: identically zero" % label)
            return False
        if model.char2:
            res, desc = factor_nonvanishing(term, make_ideal(model, hyps, [term] + nz), nz, Z3_TIMEOUT_MS)
        else:
            res, desc = factor_nonvanishing(term, make_ideal(model, [], [term] + nz), nz, Z3_TIMEOUT_MS)
        if not res.ok and hyps and not model.char2:
            ideal = make_ideal(model, hyps, [term] + nz)
            ideal.units = []
            ideal._ring = None
            res2, desc = factor_nonvanishing(term, ideal, nz, Z3_TIMEOUT_MS)
            res2.seconds += res.seconds
            res = res2
        self._acc(label + "!=0", res)
        if res.ok:
            self.notes.append("%s = %s" % (label, desc[:200]))
        return res.ok

    def _acc(self, label, res):
        self.secs += res.seconds
        self.queries += res.queries
        if res.ok:
            self.denoms = self.denoms * res.denoms // math.gcd(self.denoms, res.denoms)
            if res.mult and res.mult != "1":
                self.mults.add(res.mult)
        elif res.status in ("nocert", "sat"):
            self.fails.append("%s: %s %s" % (label, res.status, res.info))
        else:
            self.unknowns.append("%s: %s %s" % (label, res.status, res.info))

    def fail(self, msg):
        self.fails.append(msg)

    def ob(self):
        o = Obligation(self.name, "P", self.functions, self.bounds, self.desc)
        o.hint = self.hint
        o.trusted = self.trusted
        o.denoms = self.denoms
        o.mults = sorted(self.mults)
        solver = "%s (unsat on %d negated identities; sympy cofactor certificates)" % (Z3_VERSION, self.queries)
        if self.fails:
            o.unknown("candidate: " + "; ".join(self.fails)[:600], solver, self.secs, self.queries)
            o.candidate = True
        elif self.unknowns:
            o.unknown("; ".join(self.unknowns)[:600], solver, self.secs, self.queries)
            o.candidate = False
        else:
            if self.nchecks == 0:
                raise Machinery("obligation %s posed no identity" % self.name)
            o.ok(solver, self.secs, self.queries, syntactic=(self.queries == 0))
            o.candidate = False
        return o


def need(cond, msg):
    if not cond:
        raise Machinery(msg)


def fn_names(interp):
    return sorted(n for n in interp.executed if "::<impl" in n and not n.rsplit("::", 1)[-1].isupper()
                  and "promoted" not in n)


# --------------------------------------------------------------------------
# cases

def neutral_affines(model, tag):
    if isinstance(model, Edwards):
        return [model.fixed(tag, 0, 1, "neutral")]
    if isinstance(model, JacobiQuartic):
        return [model.fixed(tag, -1, 0, "neutral"), model.fixed(tag, 1, 0, "neutral+")]
    return [model.neutral(tag)]       # Weierstrass, GLS254


def has_x0(model):
    """short Weierstrass y^2 = x^3 + ax + b has (two) finite points with x = 0 iff b is a square"""
    return isinstance(model, Weierstrass) and legendre(model.bv, model.p) == 1


def special_affines(model, tag):
    """the FINITE special points of a curve (a zero coordinate / low order), as symbolic operands
    `P on the curve, that coordinate = 0, Z != 0`.
      Weierstrass: y = 0 would be a point of order 2 (none: odd order); x = 0 exists iff b is a square
                   (P-256: yes, (0, +-sqrt b); secp256k1: 7 is not a square, no such point) -- ground facts;
      Edwards:     x = 0 are the neutral and the order-2 point (0,-1) (own cases); y = 0 are the two points of
                   order 4, (x, 0) with a*x^2 = 1;
      Jacobi quartic: u = 0 are the two representatives of the neutral (own cases), e = 0 is excluded (b' non-square);
      GLS254: x = 0 is the neutral N (own case)."""
    if has_x0(model):
        y, z = R.sym("y" + tag), R.sym("z" + tag)
        return [Affine((R.ZERO, y), [model.curve(R.ZERO, y)], [z, y], z, label="x=0")]
    if isinstance(model, Edwards):
        x, z = R.sym("x" + tag), R.sym("z" + tag)
        return [Affine((x, R.ZERO), [model.curve(x, R.ZERO)], [z, x], z, label="order4")]
    return []


def case_kind(case):
    """which relation between P and Q a binary case asserts"""
    if case.startswith("P=Q"):
        return "P=Q"
    if case.startswith("P=-Q"):
        return "P=-Q"
    return "generic"


def binop_cases(model):
    G1, G2 = model.generic("1"), model.generic("2")
    cases = [("generic", G1, G2),
             ("P=Q", G1, model.like("2", G1)),
             ("P=-Q", G1, model.like("2", G1, True))]
    N1 = neutral_affines(model, "1")
    N2 = neutral_affines(model, "2")
    cases.append(("P=neutral", N1[0], G2))
    cases.append(("Q=neutral", G1, N2[0]))
    cases.append(("both neutral", N1[0], N2[0]))
    S1, S2 = special_affines(model, "1"), special_affines(model, "2")
    if isinstance(model, Weierstrass):
        for s1, s2 in zip(S1, S2):
            cases.append(("P:x=0", s1, G2))
            cases.append(("Q:x=0", G1, s2))
            cases.append(("P=Q:x=0", s1, model.like("2", s1)))
            cases.append(("P=-Q:x=0", s1, model.like("2", s1, True)))
            cases.append(("P:x=0,Q=neutral", s1, N2[0]))
            cases.append(("P=neutral,Q:x=0", N1[0], s2))
    if isinstance(model, Edwards):
        cases.append(("Q=order2", G1, model.fixed("2", 0, -1, "order2")))
        cases.append(("P=order2", model.fixed("1", 0, -1, "order2"), G2))
        for s1, s2 in zip(S1, S2):
            cases.append(("Q=order4", G1, s2))
            cases.append(("P=order4", s1, G2))
            cases.append(("P=Q=order4", s1, model.like("2", s1)))
    if isinstance(model, JacobiQuartic):
        cases.append(("Q=neutral+", G1, N2[1]))
        cases.append(("P=neutral+", N1[1], G2))
    return cases


def unit_z(A):
    """operand given in affine form (no scaling variable)"""
    B = Affine(A.xy, A.hyps, [n for n in A.nz if n is not A.z], R.ONE, A.neutral, A.label)
    return B


def rhs_value(g, opkind, A2):
    model = g.model
    if opkind == "point":
        return g.point(model.embed(A2))
    x, y = A2.xy
    if opkind == "duif":
        return g.aff_struct("PointDuif", {"ypx": y + x, "ymx": y - x, "t2d": R.sym("ed25519_D2") * x * y})
    if opkind in ("affine", "affine_rz"):
        return g.aff_struct("PointAffine", {"x": x, "y": y})
    if opkind == "affine_ext":
        return g.aff_struct("PointAffineExtended", {"e": x, "u": y, "t": y * y})
    if opkind == "gls_affine":
        return g.aff_struct("PointAffine", {"scaled_x": x, "scaled_s": y})
    raise Machinery(opkind)


def check_expected(acc, g, out, A1, A2, sub, hyps, rz_neutral=False, F2=None):
    """identities saying that `out` is a valid representation of A1 (+/-) A2"""
    model = g.model
    if isinstance(model, Weierstrass):
        return check_expected_w(acc, g, out, A1, A2, sub, hyps, F2)
    if isinstance(model, GLS254):
        return check_expected_gls(acc, g, out, A1, A2, sub, hyps)
    Q = model.neg(A2) if sub else A2.xy
    rat = model.law(A1.xy, Q)
    for lab, t in model.represents(out, rat):
        acc.zero(lab, t, model, hyps)
    acc.zero("on-curve", model.oncurve(out), model, hyps)
    for lab, t, nz in model.nondeg(out, rat, [A1, A2]):
        acc.nonvanishing(lab, t, model, hyps, nz)
    acc.trusted.extend(model.trusted)


def gls_nz(model, ops, extra=()):
    return [model.sb] + [A.z for A in ops if A.z is not R.ONE] + list(extra)


def check_expected_gls(acc, g, out, A1, A2, sub, hyps):
    model = g.model
    case = case_kind(acc.hint["case"])
    Q = model.neg(A2) if sub else A2.xy
    if A1.neutral and A2.neutral:
        rel = model.rel_neutral(out)
        nz = gls_nz(model, [A1, A2])
    elif A1.neutral:
        B = Affine(Q, z=A2.z)
        rel = model.proportional(out, model.embed(B))
        nz = gls_nz(model, [A1, A2])
    elif A2.neutral:
        rel = model.proportional(out, model.embed(A1))
        nz = gls_nz(model, [A1, A2])
    elif case == "generic":
        rel = model.rel_add(out, A1.xy, Q)
        nz = gls_nz(model, [A1, A2], [A1.xy[0] * A2.xy[0] + 1])
    elif (case == "P=Q") != bool(sub):
        rel = model.rel_double(out, A1.xy)
        nz = gls_nz(model, [A1, A2], [A1.xy[0] + 1])
    else:
        rel = model.rel_neutral(out)
        nz = gls_nz(model, [A1, A2], [A1.xy[0] + 1])
    for lab, t in rel:
        acc.zero(lab, t, model, hyps)
    acc.zero("on-curve", model.oncurve(out), model, hyps)
    acc.nonvanishing("Z", out[2], model, hyps, nz)
    acc.trusted.extend(model.trusted)


def check_expected_w(acc, g, out, A1, A2, sub, hyps, F2):
    model = g.model
    case = case_kind(acc.hint["case"])
    F1 = model.embed(A1)
    if A1.neutral and A2.neutral:
        for lab, t in model.is_neutral(out):
            acc.zero(lab, t, model, hyps)
        acc.nonvanishing("Y", out[1], model, hyps, [A1.z, A2.z])
    elif A1.neutral:
        Q = model.neg(A2) if sub else A2.xy
        FQ = [Q[0] * A2.z, Q[1] * A2.z, A2.z]
        for lab, t in model.proportional(out, FQ):
            acc.zero(lab, t, model, hyps)
        acc.nonvanishing("Y", out[1], model, hyps, A1.nz + A2.nz + [Q[1]])
    elif A2.neutral:
        for lab, t in model.proportional(out, F1):
            acc.zero(lab, t, model, hyps)
        acc.nonvanishing("Y", out[1], model, hyps, A1.nz + A2.nz)
    else:
        Q = model.neg(A2) if sub else A2.xy
        if case == "generic":
            rat = model.chord(A1.xy, Q)
            for lab, t in model.represents(out, rat):
                acc.zero(lab, t, model, hyps)
            acc.zero("on-curve", model.oncurve(out), model, hyps)
            acc.trusted.append("x1 != x2 in this case; (X3,Y3,Z3) != (0,0,0) follows from the `complete-law` "
                               "obligation and the completeness theorem")
        elif (case == "P=Q") != bool(sub):
            rat = model.tangent(A1.xy)
            for lab, t in model.represents(out, rat):
                acc.zero(lab, t, model, hyps)
            acc.nonvanishing("Z", out[2], model, hyps, A1.nz + A2.nz)
        else:
            for lab, t in model.is_neutral(out):
                acc.zero(lab, t, model, hyps)
            acc.trusted.append("Y3 != 0 when P = -Q: Y3 is a degree-6 polynomial in x1 that is not a product of "
                               "simple factors; (X3,Y3,Z3) != (0,0,0) is the completeness theorem applied to the "
                               "`complete-law` obligation")
    acc.trusted.extend(model.trusted)


def task_binop(gname, fname, sub, opkind):
    g = G(gname)
    model = g.model
    obs = []
    consts = {}
    cases = binop_cases(model)
    if opkind == "affine_rz":
        cases = [cs for cs in cases if not cs[2].neutral]
    for case, A1, A2 in cases:
        if opkind != "point":
            A2 = unit_z(A2)
        it = g.interp()
        item = g.fn(it, fname)
        c1 = Cell(g.point(model.embed(A1)))
        rhs = rhs_value(g, opkind, A2)
        args = [Ref(c1), Ref(Cell(rhs))]
        if opkind == "affine_rz":
            args.append(IntV(0, 32))
        it.run(item, args)
        need(it.prim_count["mul"] >= 1, "%s.%s executed no field multiplication" % (gname, fname))
        # the formulas are expected to be selection-free; if they are not, an atom is decided from the
        # non-vanishing symbols of the case (a zero coordinate of a special operand folds syntactically)
        out, undec = decide_atoms(g.fields(c1.val), nz_syms(model, A1) | nz_syms(model, A2))
        hyps = A1.hyps + A2.hyps
        acc = Acc("%s.%s:%s" % (gname, fname, case), fn_names(it),
                  "%s(P, Q) represents P %s Q; case %s" % (fname, "-" if sub else "+", case),
                  dict(group=gname, func=fname, case=case, sub=sub, opkind=opkind, n=0))
        if undec:
            acc.unknowns.append("undecided selection atoms: %r" % undec[:2])
        check_expected(acc, g, out, A1, A2, sub, hyps)
        obs.append(acc.ob())
        consts.update(it.named_consts)
    # Weierstrass: the literature complete law, as a pure identity
    if isinstance(model, Weierstrass):
        A1, A2 = model.generic("1"), model.generic("2")
        if opkind != "point":
            A2 = unit_z(A2)
        it = g.interp()
        item = g.fn(it, fname)
        c1 = Cell(g.point(model.embed(A1)))
        args = [Ref(c1), Ref(Cell(rhs_value(g, opkind, A2)))]
        if opkind == "affine_rz":
            args.append(IntV(0, 32))
        it.run(item, args)
        out, undec = decide_atoms(g.fields(c1.val), nz_syms(model, A1) | nz_syms(model, A2))
        Q = model.neg(A2) if sub else A2.xy
        BL = model.bosma_lenstra(model.embed(A1), [Q[0] * A2.z, Q[1] * A2.z, A2.z])
        acc = Acc("%s.%s:complete-law" % (gname, fname), fn_names(it),
                  "output coordinates equal the Bosma-Lenstra/RCB complete addition law (eprint 2015/1060 sec. 3) "
                  "as polynomials, for all inputs (no curve equation needed)",
                  dict(group=gname, func=fname, case="generic", sub=sub, opkind=opkind, n=0),
                  bounds="none: polynomial identity over Z[x1,y1,z1,x2,y2,z2,b]")
        if undec:
            acc.unknowns.append("undecided selection atoms: %r" % undec[:2])
        for lab, o_, b_ in zip("XYZ", out, BL):
            acc.zero(lab, o_ - b_, model, [])
        acc.trusted.extend(model.trusted)
        obs.append(acc.ob())
        if opkind == "affine_rz":
            # rz = 0xFFFFFFFF: the affine operand is the neutral, (x, y) arbitrary
            x2, y2 = R.sym("x2"), R.sym("y2")
            for case, A1 in (("Q=neutral(rz)", model.generic("1")), ("both neutral(rz)", model.neutral("1"))):
                it = g.interp()
                item = g.fn(it, fname)
                F1 = model.embed(A1)
                c1 = Cell(g.point(F1))
                it.run(item, [Ref(c1), Ref(Cell(g.aff_struct("PointAffine", {"x": x2, "y": y2}))),
                              IntV(0xFFFFFFFF, 32)])
                need(it.prim_count["select"] >= 1, "%s.%s: rz not used" % (gname, fname))
                out = g.fields(c1.val)
                acc = Acc("%s.%s:%s" % (gname, fname, case), fn_names(it),
                          "with rz = 0xFFFFFFFF the point is unchanged whatever (x, y) is",
                          dict(group=gname, func=fname, case=case, sub=sub, opkind=opkind, n=0xFFFFFFFF))
                for lab, o_, f_ in zip("XYZ", out, F1):
                    acc.zero(lab, o_ - f_, model, [])
                obs.append(acc.ob())
    return obs, consts


# --------------------------------------------------------------------------
# unary: double, neg

def unary_cases(model):
    cs = [("generic", model.generic("1"))]
    for N in neutral_affines(model, "1"):
        cs.append((N.label, N))
    if isinstance(model, Edwards):
        cs.append(("order2", model.fixed("1", 0, -1, "order2")))
    for A in special_affines(model, "1"):
        cs.append((A.label, A))
    return cs


def nz_syms(model, A):
    """symbols that do not vanish in the case of operand A.  On a Weierstrass curve the `generic` case is
    the complement of the special cases: x != 0 (x = 0 is posed as its own case when such points exist,
    and is impossible otherwise -- b non-square, ground fact); y != 0 always (odd order)."""
    nz = {str(n) for n in A.nz if n.op == "sym"}
    if isinstance(model, Weierstrass) and A.label == "generic":
        nz.add(str(A.xy[0]))
    return nz


def decide_atoms(out, nzsyms):
    """resolve `iszero` atoms: syntactic zero -> true (already folded);
    a product of declared non-zero symbols / constants -> false"""
    undec = []

    def decide(atom):
        t = atom.args[0]
        stack = [t]
        ok = True
        while stack:
            x = stack.pop()
            if x.op == "mul":
                stack.extend(x.args)
            elif x.op == "sym" and x.aux in nzsyms:
                pass
            elif x.op == "const" and x.aux != 0:
                pass
            elif x.op == "neg":
                stack.append(x.args[0])
            else:
                ok = False
        if not ok:
            undec.append(atom)
        return False
    res = R.resolve(out, decide)
    return res, undec


def check_double_expected(acc, g, out, A, hyps, k=1):
    """out represents [2^k] A"""
    model = g.model
    if isinstance(model, GLS254):
        if A.neutral:
            rel = model.rel_neutral(out)
            nz = gls_nz(model, [A])
        else:
            need(k == 1, "gls254 direct multi-doubling oracle not used")
            rel = model.rel_double(out, A.xy)
            nz = gls_nz(model, [A], [A.xy[0] + 1])
        for lab, t in rel:
            acc.zero(lab, t, model, hyps)
        acc.zero("on-curve", model.oncurve(out), model, hyps)
        acc.nonvanishing("Z", out[2], model, hyps, nz)
        acc.trusted.extend(model.trusted)
        return
    if isinstance(model, Weierstrass):
        if A.neutral:
            for lab, t in model.is_neutral(out):
                acc.zero(lab, t, model, hyps)
            acc.nonvanishing("Y", out[1], model, hyps, A.nz)
        else:
            need(k == 1, "weierstrass direct multi-doubling oracle not used")
            rat = model.tangent(A.xy)
            for lab, t in model.represents(out, rat):
                acc.zero(lab, t, model, hyps)
            acc.zero("on-curve", model.oncurve(out), model, hyps)
            acc.nonvanishing("Z", out[2], model, hyps, A.nz)
        acc.trusted.extend(model.trusted)
        return
    P = A.xy
    rat = None
    ops = [A]
    for _ in range(k):
        rat = model.law(P, P)
        (n0, d0), (n1, d1) = rat
        need(all(R.is_const(v) for v in (n0, d0, n1, d1)) or k == 1, "iterated oracle on symbolic point")
        if k > 1:
            P = (R.const(n0.aux / d0.aux), R.const(n1.aux / d1.aux))
    for lab, t in model.represents(out, rat):
        acc.zero(lab, t, model, hyps)
    acc.zero("on-curve", model.oncurve(out), model, hyps)
    for lab, t, nz in model.nondeg(out, rat, ops):
        acc.nonvanishing(lab, t, model, hyps, nz)
    acc.trusted.extend(model.trusted)


def task_double(gname):
    g = G(gname)
    model = g.model
    obs, consts = [], {}
    for case, A in unary_cases(model):
        it = g.interp()
        item = g.fn(it, "set_double")
        c1 = Cell(g.point(model.embed(A)))
        it.run(item, [Ref(c1)])
        need(it.prim_count["mul"] >= 1, "%s.set_double executed no field multiplication" % gname)
        out, undec = decide_atoms(g.fields(c1.val), nz_syms(model, A))
        acc = Acc("%s.set_double:%s" % (gname, case), fn_names(it), "set_double(P) represents 2P; case " + case,
                  dict(group=gname, func="set_double", case=case, n=0))
        if undec:
            acc.unknowns.append("undecided selection atoms: %r" % undec[:2])
        check_double_expected(acc, g, out, A, A.hyps)
        obs.append(acc.ob())
        consts.update(it.named_consts)
    return obs, consts


def task_neg(gname):
    g = G(gname)
    model = g.model
    obs = []
    for case, A in unary_cases(model)[:2]:
        it = g.interp()
        item = g.fn(it, "set_neg")
        F = model.embed(A)
        c1 = Cell(g.point(F))
        it.run(item, [Ref(c1)])
        need(it.prim_count["neg"] + it.prim_count["add"] >= 1, "%s.set_neg executed no field operation" % gname)
        out = g.fields(c1.val)
        acc = Acc("%s.set_neg:%s" % (gname, case), fn_names(it), "set_neg(P) represents -P; case " + case,
                  dict(group=gname, func="set_neg", case=case, n=0))
        if A.neutral and isinstance(model, Weierstrass):
            for lab, t in model.is_neutral(out):
                acc.zero(lab, t, model, [])
            acc.nonvanishing("Y", out[1], model, [], A.nz)
        else:
            B = Affine(model.neg(A), A.hyps, A.nz, A.z)
            E = model.embed(B)
            if isinstance(model, JacobiQuartic):
                # group elements are classes (e,u) ~ (-e,-u): any representative of -P
                for lab, t in model.same_element(out, E):
                    acc.zero(lab, t, model, A.hyps)
                acc.zero("T*Z=U^2", out[3] * out[2] - out[1] * out[1], model, A.hyps)
                acc.zero("on-curve", model.oncurve(out), model, A.hyps)
                acc.nonvanishing("Z", out[2], model, A.hyps, A.nz)
            else:
                # exact: the representation of -P with the same scaling
                for lab, o_, e_ in zip(model.coords, out, E):
                    acc.zero(lab, o_ - e_, model, [])
        obs.append(acc.ob())
    return obs, {}


# --------------------------------------------------------------------------
# xdouble

def run_xdouble(g, fields, n, hook=None):
    it = g.interp(loop_hook=hook)
    item = g.fn(it, "set_xdouble")
    c1 = Cell(g.point(fields))
    it.run(item, [Ref(c1), IntV(n, 32)])
    return it, c1.val


def run_double(g, fields):
    it = g.interp()
    item = g.fn(it, "set_double")
    c1 = Cell(g.point(fields))
    it.run(item, [Ref(c1)])
    return it, c1.val


def task_xdouble(gname, n):
    g = G(gname)
    model = g.model
    obs, consts = [], {}
    # (a) neutral inputs: direct
    for N in neutral_affines(model, "1"):
        it, val = run_xdouble(g, model.embed(N), n)
        out, undec = decide_atoms(g.fields(val), {str(x) for x in N.nz if x.op == "sym"})
        acc = Acc("%s.set_xdouble(%d):%s" % (gname, n, N.label), fn_names(it),
                  "set_xdouble(N, %d) is a valid representation of the neutral" % n,
                  dict(group=gname, func="set_xdouble", case=N.label, n=n))
        need(it.prim_count["mul"] >= 1, "%s.set_xdouble executed no field multiplication" % gname)
        if undec:
            acc.unknowns.append("undecided selection atoms")
        check_double_expected(acc, g, out, N, [], k=n)
        obs.append(acc.ob())
    # (b) generic input, and the finite special points as inputs
    specials = special_affines(model, "1")
    if n == 1:
        for A in [model.generic("1")] + specials:
            name = "%s.set_xdouble(%d):%s" % (gname, n, A.label)
            hint = dict(group=gname, func="set_xdouble", case=A.label, n=n)
            it, val = run_xdouble(g, model.embed(A), 1)
            need(it.prim_count["mul"] >= 1, "%s.set_xdouble executed no field multiplication" % gname)
            out, undec = decide_atoms(g.fields(val), nz_syms(model, A))
            acc = Acc(name, fn_names(it), "set_xdouble(P, 1) represents 2P; case " + A.label, hint)
            if undec:
                acc.unknowns.append("undecided selection atoms")
            check_double_expected(acc, g, out, A, A.hyps)
            obs.append(acc.ob())
            consts.update(it.named_consts)
        return obs, consts
    name = "%s.set_xdouble(%d):generic" % (gname, n)
    hint = dict(group=gname, func="set_xdouble", case="generic", n=n)
    if g.d["xd"] == "iter":
        raw = [R.sym(cn) for cn in model.coords]
        it, val = run_xdouble(g, raw, n)
        need(it.prim_count["mul"] >= n, "%s.set_xdouble(%d) executed too few multiplications" % (gname, n))
        out = g.fields(val)
        ref = raw
        fns = set(fn_names(it))
        for _ in range(n):
            it2, v2 = run_double(g, ref)
            ref = g.fields(v2)
            fns |= set(fn_names(it2))
        acc = Acc(name, sorted(fns),
                  "set_xdouble(P, %d) computes exactly the coordinates of set_double applied %d times "
                  "(for arbitrary coordinate values, hence also for every special point: zero coordinates, low "
                  "order, neutral); with the set_double obligations this gives [2^%d]P" % (n, n, n),
                  hint, bounds="none: polynomial identity over Z[X,Y,Z,T]; n = %d" % n)
        for lab, o_, r_ in zip(model.coords, out, ref):
            if o_ is r_:
                acc.nchecks += 1
                continue
            acc.zero(lab, o_ - r_, model, [])
        obs.append(acc.ob())
        return obs, consts
    obs.append(xdouble_cut(g, n, name, hint))
    # special inputs / special internal states of the cut scheme (only where finite special points exist)
    for A in specials:
        obs.append(xdouble_cut(g, n, "%s.set_xdouble(%d):%s" % (gname, n, A.label),
                               dict(group=gname, func="set_xdouble", case=A.label, n=n), A=A, parts=("entry",)))
    if has_x0(model):
        # an intermediate or final point [2^j]P with x = 0: internal state with X = 0 (and Y, Z != 0)
        obs.append(xdouble_cut(g, n, "%s.set_xdouble(%d):2^jP:x=0" % (gname, n),
                               dict(group=gname, func="set_xdouble", case="2^jP:x=0", n=n),
                               zero=(g.d["state"][0],), parts=("state",)))
    return obs, consts


def xdouble_cut(g, n, name, hint, A=None, zero=(), parts=("entry", "state")):
    """set_xdouble = entry ; body^m ; exit, with an internal representation.
    With J a polynomial in the internal state (found from the curve equation
    of exit(s); any J works as long as the lemmas below hold):
      (E)  exit(entry(P)) ~ set_double(P)  [or ~ P]   -> e0 in {1, 0}
      (I0) J(entry(P)) = 0 on the curve;  (I1) J(body(s)) in (J(s))
      (V)  exit(s) is on the curve when J(s) = 0
      (C)  exit(body(s)) ~ set_double(exit(s)) when J(s) = 0, and
           Z(set_double(exit(s))) = K * Z(exit(body(s)))   (non-degeneracy)
      (K)  e0 + m = n   (m = loop iterations executed for this n).
    parts: "entry" = (E), (I0), (K) for the operand A (default: the generic operand); "state" = (I1), (V), (C)
    for the free state, or for the special state whose coordinates named in `zero` are 0 (J is always derived
    from the generic state and then specialised).  Selection atoms (`iszero`) are decided from the declared
    non-vanishing symbols of the case; an atom that stays undecided makes the obligation inconclusive."""
    from engines.polyid.prove import _poly_to_term, _lift2
    model = g.model
    special_entry = A is not None
    if A is None:
        A = model.generic("1")
    names = g.d["state"]
    fns = set()
    top = g.inner_mod + "::"
    nzA = nz_syms(model, A)
    # internal state of a valid non-neutral point: on the Weierstrass (Jacobian) detour Y, Z never vanish (odd
    # order) and X = 0 is the special state posed separately (or impossible); the other detours have no atoms
    nzS = set()
    if isinstance(model, Weierstrass):
        nzS = {"q" + nm for nm in names if nm not in zero}
    undec_used = []

    def mine(fr):
        return fr.body.name.startswith(top) and fr.body.name.endswith("::set_xdouble")

    def locs(fr):
        return [fr.debug_local(nm, nonref=True) for nm in names]

    def force_exit(it_ref):
        rng = it_ref.get()
        s_, e_ = rng.fields
        Ref(it_ref.cell, it_ref.path + (0,)).set(IntV(e_.v, e_.bits, e_.signed))

    free_g = [R.sym("q" + nm) for nm in names]
    free = [R.ZERO if nm in zero else s_ for nm, s_ in zip(names, free_g)]
    zsub = {"q" + nm: R.ZERO for nm in zero}
    st = {}

    def hookA(interp, fr, k, it_ref):
        if mine(fr) and k == 0:
            st["entry"] = [fr.cell(l).val for l in locs(fr)]
            force_exit(it_ref)
    it, val = run_xdouble(g, model.embed(A), 2, hookA)
    fns |= set(fn_names(it))
    need("entry" in st, "loop hook did not fire in %s" % name)
    outA, undecA = decide_atoms(g.fields(val), nzA)
    def hookA1(interp, fr, k, it_ref):
        if mine(fr) and k == 1:
            force_exit(it_ref)
    itA1, valA1 = run_xdouble(g, model.embed(A), 3, hookA1)
    outA1, undecA1 = decide_atoms(g.fields(valA1), nzA)
    cnt = {"k": 0}

    def hookB(interp, fr, k, it_ref):
        if mine(fr):
            cnt["k"] = k
    itB, _ = run_xdouble(g, model.embed(A), n, hookB)
    m = cnt["k"]
    need(itB.prim_count["mul"] >= n, "set_xdouble(%d) executed too few multiplications" % n)

    def mkhookC(state):
        def hookC(interp, fr, k, it_ref):
            if not mine(fr):
                return
            if k == 0:
                for l, s_ in zip(locs(fr), state):
                    fr.cell(l).val = s_
            elif k == 1:
                st["body"] = [fr.cell(l).val for l in locs(fr)]
                force_exit(it_ref)
        return hookC
    itC, valC = run_xdouble(g, model.embed(A), 3, mkhookC(free))
    need("body" in st and itC.prim_count["mul"] >= 1, "loop body not executed in %s" % name)
    outC, undecC = decide_atoms(g.fields(valC), nzS)

    def mkhookD(state):
        def hookD(interp, fr, k, it_ref):
            if mine(fr) and k == 0:
                for l, s_ in zip(locs(fr), state):
                    fr.cell(l).val = s_
                force_exit(it_ref)
        return hookD
    itD, valD = run_xdouble(g, model.embed(A), 2, mkhookD(free))
    outD, undecD = decide_atoms(g.fields(valD), nzS)
    itE, valE = run_double(g, outD)
    outD2, undecE = decide_atoms(g.fields(valE), nzS)
    fns |= set(fn_names(itE))
    itF, valF = run_double(g, model.embed(A))
    outF, undecF = decide_atoms(g.fields(valF), nzA)
    # generic state (for the derivation of J only)
    if zero:
        _, valG = run_xdouble(g, model.embed(A), 2, mkhookD(free_g))
        outG, undecG = decide_atoms(g.fields(valG), {"q" + nm for nm in names})
    else:
        outG, undecG = outD, undecD

    what = []
    if "entry" in parts:
        what.append("exit(entry(P)) ~ [2^e0]P, the state invariant J holds after entry, e0 + m = %d" % n)
    if "state" in parts:
        what.append("the state invariant J is inductive, exit(s) is a valid point and exit(body(s)) ~ "
                    "set_double(exit(s)) for every state with J(s) = 0" + (" and %s = 0" % ", ".join(zero) if zero else ""))
    acc = Acc(name, sorted(fns),
              "set_xdouble(P, %d) = exit(body^m(entry(P))): %s%s" % (
                  n, "; ".join(what),
                  ("; operand: %s" % A.label) if special_entry else ""),
              hint,
              bounds="identities over Q[internal state variables] modulo the state invariant; loop count executed "
                     "concretely for n = %d" % n)
    # state invariants: the curve equation (and validity relations) of exit(s),
    # with their monomial content removed.  Any polynomials work as long as the
    # lemmas below hold; this is only how they are found.
    cands = [("curve", model.oncurve(outG))]
    if hasattr(model, "validity"):
        cands += model.validity(outG)
    hypJ = []
    for lab, raw_t in cands:
        idl = make_ideal(model, [], [raw_t])
        pr = idl.poly(raw_t)
        if model.char2:
            pr = _lift2(idl._to2(pr, idl._ring2[0]), idl.ring()[0])
        if pr == 0:
            continue
        mons = [mon for mon, _ in pr.terms()]
        mn = tuple(min(mo[i] for mo in mons) for i in range(len(mons[0])))
        Rg0 = idl.ring()[0]
        stripped = Rg0.zero
        g0 = 0
        for mon, cf in pr.terms():
            g0 = math.gcd(g0, abs(int(cf))) if cf.denominator == 1 else 1
        for mon, cf in pr.terms():
            stripped += Rg0.term_new(tuple(e_ - m_ for e_, m_ in zip(mon, mn)), cf / g0 if g0 > 1 else cf)
        if len(stripped.terms()) < 2:
            continue
        hypJ.append(_poly_to_term(stripped, idl.order))
        acc.notes.append("J_%s = %s" % (lab, str(stripped.as_expr())[:200]))
    need(hypJ, "no state invariant found for %s" % name)
    hypJg = hypJ
    if zero:
        hypJ = [t for t in R.substitute(hypJ, zsub) if not R.is_const(t)]
        need(hypJ, "state invariant degenerates on the special state of %s" % name)
    raw = model.oncurve(outD)
    if "entry" in parts:
        # (E)
        e0 = None
        baseA = outA
        if special_entry and isinstance(model, Weierstrass):
            # special operand: oracle = the tangent rule itself (not the code's set_double)
            for cand, ids in ((1, model.represents(outA, model.tangent(A.xy))),
                              (0, model.proportional(outA, model.embed(A)))):
                if all(prove_zero(t, make_ideal(model, A.hyps, [t]), Z3_TIMEOUT_MS).ok for _, t in ids):
                    e0 = cand
                    for lab, t in ids:
                        acc.zero("E:" + lab, t, model, A.hyps)
                    break
            undec_used += undecA
        else:
            for cand, refo in ((1, outF), (0, model.embed(A))):
                if all(prove_zero(t, make_ideal(model, A.hyps, [t]), Z3_TIMEOUT_MS).ok
                       for _, t in model.same_element(outA, refo)):
                    e0 = cand
                    for lab, t in model.same_element(outA, refo):
                        acc.zero("E:" + lab, t, model, A.hyps)
                    undec_used += undecA + (undecF if cand == 1 else [])
                    break
            if e0 is None:
                # the exit path may include a fixed translation (GLS254 adds N on exit):
                # take one loop iteration as the base case, exit(body(entry(P))) ~ 2P
                if all(prove_zero(t, make_ideal(model, A.hyps, [t]), Z3_TIMEOUT_MS).ok
                       for _, t in model.same_element(outA1, outF)):
                    e0 = 0
                    baseA = outA1
                    for lab, t in model.same_element(outA1, outF):
                        acc.zero("E1:" + lab, t, model, A.hyps)
                    acc.notes.append("base case taken after one loop iteration")
                    undec_used += undecA1 + undecF
                    if m < 1:
                        acc.fail("no loop iteration for n = %d" % n)
        outA = baseA
        if e0 is None:
            acc.fail("exit(entry(P)) is neither P nor 2P, and exit(body(entry(P))) is not 2P")
            undec_used += undecA + undecF
        else:
            acc.zero("I0:on-curve", model.oncurve(outA), model, A.hyps)
            nzA_ = list(A.nz)
            if isinstance(model, GLS254):
                nzA_ = gls_nz(model, [A], [A.xy[0] + 1])
            elif not isinstance(model, Weierstrass):
                nzA_ += [d for _, d in model.law(A.xy, A.xy)]
            acc.nonvanishing("E:Z", outA[2], model, A.hyps, nzA_)
            if e0 + m != n:
                acc.fail("doubling count: entry %d + %d loop iterations != n = %d" % (e0, m, n))
        sub_e = dict(zip(["q" + nm for nm in names], st["entry"]))
        for i, J in enumerate(hypJg):
            acc.zero("I0:J%d(entry)" % i, R.substitute([J], sub_e)[0], model, A.hyps)
    if "state" in parts:
        # (I1), (V)
        sub_b = dict(zip(["q" + nm for nm in names], st["body"]))
        for i, J in enumerate(hypJg):
            acc.zero("I1:J%d(body(s))" % i, R.substitute([J], sub_b)[0], model, hypJ)
        acc.zero("V:exit(s) on curve", raw, model, hypJ)
        if hasattr(model, "validity"):
            for lab, t in model.validity(outD):
                acc.zero("V:" + lab, t, model, hypJ)
        if isinstance(model, Weierstrass):
            # exit(s) is a finite point with a non-zero Y (valid operand for the addition formulas)
            nzq = [free_g[i] for i, nm in enumerate(names) if nm not in zero]
            acc.nonvanishing("V:Y(exit s)", outD[1], model, hypJ, nzq)
            acc.nonvanishing("V:Z(exit s)", outD[2], model, hypJ, nzq)
        # (C)
        for lab, t in model.same_element(outC, outD2):
            acc.zero("C:" + lab, t, model, hypJ)
        if model.family == "jq":
            vi = model.represents(outC, model.law((R.ONE, R.ZERO), (R.ONE, R.ZERO)))[-1]
            acc.zero("C:" + vi[0], vi[1], model, hypJ)
        ok = False
        try:
            ideal = make_ideal(model, hypJ, [outD2[2], outC[2]])
            zc = ideal.poly(outC[2])
            zd = ideal.poly(outD2[2])
            Rg, gens, K, H = ideal.ring()
            if model.char2:
                R2, H2 = ideal._ring2
                q2, r2 = ideal._to2(zd, R2).div([ideal._to2(zc, R2)] + H2)
                q, r = [_lift2(q2[0], Rg)], _lift2(r2, Rg)
            else:
                q, r = zd.div([zc] + H)
            if r == 0:
                Kt = _poly_to_term(q[0], ideal.order)
                ok = acc.zero("C:Z(dbl(exit s)) = K*Z(exit(body s))", outD2[2] - Kt * outC[2], model, hypJ)
                acc.notes.append("K = %s" % str(q[0].as_expr())[:200])
        except Exception as e:  # noqa
            acc.unknowns.append("non-degeneracy certificate search failed: %s" % e)
        if not ok and not acc.fails and not acc.unknowns:
            acc.unknowns.append("no non-degeneracy certificate for the loop body")
        undec_used += undecC + undecD + undecE + undecG
    if undec_used:
        acc.unknowns.append("undecided selection atoms: %s" % "; ".join(sorted({str(a)[:120] for a in undec_used}))[:400])
    if isinstance(model, Weierstrass):
        acc.trusted.append("selection atoms on the internal (Jacobian) Y, Z coordinates resolved to `non-zero` for "
                           "a valid non-neutral state (the group has odd order); X = 0 is a separate case")
    acc.trusted.extend(model.trusted)
    acc.trusted.append("composition of the segment lemmas by induction on the loop counter (meta-argument)")
    return acc.ob()


# --------------------------------------------------------------------------
# operators and set_mul_small

class GroupV:
    """k*P in the free abelian group on one generator"""
    __slots__ = ("k",)

    def __init__(self, k):
        self.k = k

    def __repr__(self):
        return "[%d]P" % self.k


def group_hooks(g, counter):
    inner = g.inner_mod

    def gv(x):
        v = x.get() if isinstance(x, Ref) else x
        if not isinstance(v, GroupV):
            raise MirError("expected an abstract group element, got %r" % (v,))
        return v

    def call_hook(interp, fr, cal, args):
        if cal.self_short != "Point" or cal.self_mod != inner or cal.trait is not None:
            return NotImplemented
        m = cal.method
        if m == "set_add":
            args[0].set(GroupV(gv(args[0]).k + gv(args[1]).k))
        elif m == "set_sub":
            args[0].set(GroupV(gv(args[0]).k - gv(args[1]).k))
        elif m == "set_double":
            args[0].set(GroupV(2 * gv(args[0]).k))
        elif m == "set_xdouble":
            if not isinstance(args[1], IntV):
                raise MirError("symbolic doubling count")
            args[0].set(GroupV(gv(args[0]).k << args[1].v))
        elif m == "set_neg":
            args[0].set(GroupV(-gv(args[0]).k))
        else:
            return NotImplemented
        counter[m] = counter.get(m, 0) + 1
        from engines.polyid.interp import UNIT
        return UNIT

    def const_hook(interp, text):
        if text.endswith("::NEUTRAL") and "Point" in text:
            if text.startswith(g.module + "::") and g.wrap:
                return Agg("struct", [GroupV(0)], g.module + "::Point")
            return GroupV(0)
        return NotImplemented
    return call_hook, const_hook


def task_mul_small(gname):
    g = G(gname)
    results = []
    fns = set()
    ops = 0
    for n in MUL_SMALL_N:
        counter = {}
        ch, kh = group_hooks(g, counter)
        it = g.interp(call_hook=ch, const_hook=kh)
        item = g.fn(it, "set_mul_small")
        P = Agg("struct", [GroupV(1)], g.module + "::Point") if g.wrap else GroupV(1)
        c1 = Cell(P)
        it.run(item, [Ref(c1), IntV(n, 64)])
        v = c1.val.fields[0] if g.wrap else c1.val
        results.append((n, v.k))
        fns |= set(fn_names(it))
        ops += sum(counter.values())
    need(ops >= len(MUL_SMALL_N), "%s.set_mul_small executed no group operation" % gname)
    acc = Acc("%s.set_mul_small:schedule" % gname, sorted(fns),
              "set_mul_small(P, n), executed with set_add/set_xdouble/set_neg abstracted to the group law "
              "(their own obligations), yields the coefficient n",
              dict(group=gname, func="set_mul_small", case="generic", n=0),
              bounds="n in {0..%d and %d larger values up to 2^64-1}; abstract group Z*P"
                     % (max(i for i in range(200) if i in MUL_SMALL_N and all(j in MUL_SMALL_N for j in range(i))),
                        len([x for x in MUL_SMALL_N if x > 200])))
    import z3
    t0 = time.time()
    s = z3.Solver()
    s.add(z3.Or([z3.IntVal(k) != z3.IntVal(n) for n, k in results]))
    r = str(s.check())
    acc.secs += time.time() - t0
    acc.nchecks += 1
    bad = [(n, k) for n, k in results if n != k]
    if r != "unsat" or bad:
        acc.fail("coefficient mismatch: %r" % bad[:4])
        acc.hint["n"] = bad[0][0] if bad else 0
    return [acc.ob()], {}


def operator_impls(module):
    out = []
    for meth in ("add", "sub", "neg", "add_assign", "sub_assign", "mul", "mul_assign"):
        for nm in MIR.by_last.get(meth, []):
            if not nm.startswith(module + "::<impl"):
                continue
            for which, (kind, s, e) in enumerate(MIR.items[nm]):
                if kind == "fn":
                    out.append((meth, nm, which))
    return out


def task_operators(gname):
    g = G(gname)
    model = g.model
    A1, A2 = model.generic("1"), model.generic("2")
    F1, F2 = model.embed(A1), model.embed(A2)
    ref = {}
    fns = set()
    for meth, args in (("set_add", 2), ("set_sub", 2), ("set_neg", 1)):
        it = g.interp()
        c1 = Cell(g.point(F1))
        a = [Ref(c1)] + ([Ref(Cell(g.point(F2)))] if args == 2 else [])
        it.run(g.fn(it, meth), a)
        ref[meth] = g.fields(c1.val)
        fns |= set(fn_names(it))
    acc = Acc("%s.operators" % gname, [], "the operator impls (+, -, unary -, +=, -= in all by-value/by-reference "
              "forms) compute exactly set_add / set_sub / set_neg; `* u64` forms compute set_mul_small",
              dict(group=gname, func="operators", case="generic", n=0),
              bounds="none: syntactic/polynomial equality of the executed terms")
    pt = g.module + "::Point"
    nrun = 0
    for meth, nm, which in operator_impls(g.module):
        body = MIR.body(nm, which)
        ptys = [t for _, t in body.params]
        kinds = []
        for t in ptys:
            pre, last, mod = short_type(t)
            if last == "Point" and mod == g.module:
                kinds.append("ref" if pre else "val")
            elif t.strip() == "u64":
                kinds.append("u64")
            else:
                kinds.append(None)
        if None in kinds:
            continue
        if "u64" in kinds:
            for n in (0, 1, 2, 5, 16):
                counter = {}
                ch, kh = group_hooks(g, counter)
                it = g.interp(call_hook=ch, const_hook=kh)
                P = Agg("struct", [GroupV(1)], pt) if g.wrap else GroupV(1)
                cell = Cell(P)
                a = [(Ref(cell) if k == "ref" else (P if k == "val" else IntV(n, 64))) for k in kinds]
                rv = it.run((nm, which), a)
                res = cell.val if meth == "mul_assign" else rv
                v = res.fields[0] if g.wrap else res
                nrun += 1
                acc.nchecks += 1
                fns |= set(fn_names(it))
                if not isinstance(v, GroupV) or v.k != n:
                    acc.fail("%s(%s) with n=%d gives %r" % (meth, ",".join(kinds), n, v))
            continue
        it = g.interp()
        cells = [Cell(g.point(F1)), Cell(g.point(F2))]
        a = [(Ref(cl) if k == "ref" else cl.val) for k, cl in zip(kinds, cells)]
        rv = it.run((nm, which), a)
        res = cells[0].val if meth.endswith("_assign") else rv
        out = g.fields(res)
        want = ref[{"add": "set_add", "add_assign": "set_add", "sub": "set_sub", "sub_assign": "set_sub",
                    "neg": "set_neg"}[meth]]
        fns |= set(fn_names(it))
        nrun += 1
        for lab, o_, w_ in zip(model.coords, out, want):
            if o_ is w_:
                acc.nchecks += 1
            else:
                acc.zero("%s(%s).%s" % (meth, ",".join(kinds), lab), o_ - w_, model, [])
    need(nrun >= 5, "%s: only %d operator impls found" % (gname, nrun))
    acc.functions = sorted(fns)
    return [acc.ob()], {}


# --------------------------------------------------------------------------
# constructors from coordinates (Weierstrass curves: set_affine / set_projective and
# their Option wrappers from_affine / from_projective)

CTOR_FUNCS = ("set_projective", "set_affine")


def impl_item(module, method):
    """MIR item of an inherent function `module::<impl ..>::method` (any signature)"""
    out = [nm for nm in MIR.by_last.get(method, []) if nm.startswith(module + "::<impl")
           and any(kind == "fn" for kind, _, _ in MIR.items[nm])]
    return (out[0], 0) if len(out) == 1 else None


def has_ctors(gname):
    d = GROUPS[gname]
    return (not d["wrap"]) and all(impl_item(d["module"], f) for f in CTOR_FUNCS)


def decide_flag_atoms(terms_, model, hyps, nzsyms, offcurve=None):
    """decide the `iszero` atoms of a constructor: a monomial in non-vanishing symbols is non-zero; a member
    of the ideal of the case hypotheses is zero (z3-checked certificate); in the off-curve case an atom whose
    argument is +-(the curve polynomial of the input) is false by the hypothesis of the case.
    Returns (resolved terms, undecided atoms, seconds, queries)."""
    undec = []
    stat = [0.0, 0]

    def decide(atom):
        t = atom.args[0]
        _, und = decide_atoms([R.ite(atom, R.ONE, R.ZERO)], nzsyms)
        if not und:
            return False
        res = prove_zero(t, make_ideal(model, hyps, [t]), Z3_TIMEOUT_MS)
        stat[0] += res.seconds
        stat[1] += res.queries
        if res.ok:
            return True
        if offcurve is not None:
            for sg in (1, -1):
                d = t - offcurve if sg == 1 else t + offcurve
                res = prove_zero(d, make_ideal(model, [], [d]), Z3_TIMEOUT_MS)
                stat[0] += res.seconds
                stat[1] += res.queries
                if res.ok:
                    return False
        undec.append(atom)
        return False
    res = R.resolve(terms_, decide)
    return res, undec, stat[0], stat[1]


def ctor_cases(model, func):
    """(case label, input coordinate terms, hypotheses, non-vanishing symbols, expectation, off-curve polynomial)
    expectation: ("point", fields) accepted, stored == fields exactly; ("neutral",) accepted, a valid neutral is
    stored; ("reject",) flag 0 and a valid neutral is stored"""
    X, Y, Z = R.sym("X"), R.sym("Y"), R.sym("Z")
    cs = []
    ops = [model.generic("1")] + special_affines(model, "1")
    if func == "set_affine":
        for A in ops:
            x, y = A.xy
            cs.append(("valid" if A.label == "generic" else "valid:" + A.label, [x, y], A.hyps, set(),
                       ("point", [x, y, R.ONE]), None))
        cs.append(("off-curve", [X, Y], [], set(), ("reject",), model.curve(X, Y)))
        return cs
    for A in ops:
        F = model.embed(A)
        cs.append(("valid" if A.label == "generic" else "valid:" + A.label, F, A.hyps, nz_syms(model, A) - {"x1"},
                   ("point", F), None))
    # "this function accepts any (X:Y:0) triplet as a representation of the point-at-infinity"
    cs.append(("Z=0", [X, Y, R.ZERO], [], {"X"}, ("neutral",), None))
    cs.append(("X=Z=0", [R.ZERO, Y, R.ZERO], [], {"Y"}, ("neutral",), None))
    cs.append(("Y=Z=0", [X, R.ZERO, R.ZERO], [], {"X"}, ("neutral",), None))
    cs.append(("X=Y=Z=0", [R.ZERO, R.ZERO, R.ZERO], [], set(), ("neutral",), None))
    cs.append(("off-curve", [X, Y, Z], [], {"Z"}, ("reject",), model.oncurve([X, Y, Z])))
    return cs


def task_ctor(gname):
    g = G(gname)
    model = g.model
    obs = []
    garbage = [R.sym("g" + cn) for cn in model.coords]       # previous contents of the receiver
    for func in CTOR_FUNCS:
        item = impl_item(g.module, func)
        for case, inp, hyps, nzs, expect, offc in ctor_cases(model, func):
            it = g.interp()
            c1 = Cell(g.point(garbage))
            rv = it.run(item, [Ref(c1)] + list(inp))
            need(it.prim_count["iszero"] >= 1 and it.prim_count["select"] >= 3,
                 "%s.%s: no equation test / conditional store executed" % (gname, func))
            need(hasattr(rv, "cond"), "%s.%s does not return a flag" % (gname, func))
            res, undec, secs, nq = decide_flag_atoms(g.fields(c1.val) + [rv.cond], model, hyps, nzs, offc)
            out, flag = res[:-1], res[-1]
            acc = Acc("%s.%s:%s" % (gname, func, case), fn_names(it),
                      {"point": "%s accepts a valid finite point (flag all-ones) and stores exactly the given "
                                "coordinates; case %s",
                       "neutral": "%s accepts (X:Y:0) as the point at infinity and stores a VALID neutral "
                                  "(X = Z = 0, Y != 0); case %s",
                       "reject": "%s rejects coordinates that do not satisfy the curve equation (flag 0) and "
                                 "leaves a valid neutral; case %s"}[expect[0]] % (func, case),
                      dict(group=gname, func=func, case=case, n=0))
            acc.secs += secs
            acc.queries += nq
            for a_ in undec:
                acc.fail("selection atom not decided by the case: %s" % str(a_)[:160])
            if flag not in (R.TRUE, R.FALSE):
                acc.fail("flag not decided: %s" % str(flag)[:160])
            elif (flag is R.TRUE) != (expect[0] != "reject"):
                acc.fail("returned flag is %s" % ("all-ones" if flag is R.TRUE else "0"))
            acc.nchecks += 1
            if R.atoms(out):
                acc.fail("stored coordinates still depend on a selection")
            elif expect[0] == "point":
                for lab, o_, e_ in zip(model.coords, out, expect[1]):
                    if o_ is e_:
                        acc.nchecks += 1
                    else:
                        acc.zero(lab, o_ - e_, model, [])
            else:
                for lab, t in model.is_neutral(out):
                    acc.zero(lab, t, model, hyps)
                acc.nonvanishing("Y", out[1], model, hyps, [R.sym(n_) for n_ in sorted(nzs)])
                if set(R.symbols(out)) & {str(x) for x in garbage}:
                    acc.fail("previous contents of the receiver survive")
            obs.append(acc.ob())
    # Option wrappers: Some(stored point) iff the flag is non-zero
    acc = Acc("%s.constructors:wrappers" % gname, [], "from_projective / from_affine return Some(P) with P the "
              "point stored by set_projective / set_affine when the flag is non-zero, None when it is 0",
              dict(group=gname, func="from_projective", case="wrappers", n=0),
              bounds="none: the wrappers are executed with the set_* function replaced by a marker")
    fns = set()
    for wrapper, inner, nargs in (("from_projective", "set_projective", 3), ("from_affine", "set_affine", 2)):
        item = impl_item(g.module, wrapper)
        if item is None:
            acc.fail("no MIR for %s" % wrapper)
            continue
        marker = [R.sym("m" + cn) for cn in model.coords]
        for flagv in (0, 0xFFFFFFFF, 1):
            calls = []

            def hook(interp, fr, cal, args, flagv=flagv, inner=inner, calls=calls):
                if cal.method == inner and cal.self_short == "Point" and cal.self_mod == g.inner_mod:
                    calls.append(args[1:])
                    args[0].set(g.point(marker))
                    return IntV(flagv, 32)
                return NotImplemented
            it = g.interp(call_hook=hook)
            ins = [R.sym("a%d" % i) for i in range(nargs)]
            rv = it.run(item, list(ins))
            fns |= set(fn_names(it))
            acc.nchecks += 1
            okc = len(calls) == 1 and all(x is y for x, y in zip(calls[0], ins))
            if flagv == 0:
                good = getattr(rv, "disc", None) == 0 and not rv.fields
            else:
                good = getattr(rv, "disc", None) == 1 and len(rv.fields) == 1 and \
                    all(x is y for x, y in zip(g.fields(rv.fields[0]), marker))
            if not (okc and good):
                acc.fail("%s with %s returning %#x gives %r" % (wrapper, inner, flagv, rv))
    acc.functions = sorted(fns)
    obs.append(acc.ob())
    return obs, {}


# --------------------------------------------------------------------------
# worker entry

def work(task):
    kind = task[0]
    if kind == "binop":
        return task_binop(*task[1:])
    if kind == "double":
        return task_double(task[1])
    if kind == "neg":
        return task_neg(task[1])
    if kind == "xdouble":
        return task_xdouble(task[1], task[2])
    if kind == "mul_small":
        return task_mul_small(task[1])
    if kind == "operators":
        return task_operators(task[1])
    if kind == "ctor":
        return task_ctor(task[1])
    raise Machinery("unknown task %r" % (task,))


def tasks_for(gname):
    d = GROUPS[gname]
    ts = [("binop", gname, "set_add", False, "point"), ("binop", gname, "set_sub", True, "point")]
    if d["affine"]:
        opk, ty, fa, fs = d["affine"]
        ts.append(("binop", gname, fa, False, opk))
        ts.append(("binop", gname, fs, True, opk))
    ts += [("double", gname), ("neg", gname)]
    ts += [("xdouble", gname, n) for n in XDOUBLE_N]
    ts += [("mul_small", gname), ("operators", gname)]
    if has_ctors(gname):
        ts.append(("ctor", gname))
    return ts


# --------------------------------------------------------------------------
# native replay of candidates, spec validation

ENC = {c: 32 for c in RP.CURVES}
ENC["ed448"] = 56
ENC["decaf448"] = 56
ENC["gls254"] = 32


# group orders (prime part L, cofactor h); used only to build special points for the native corpus
# (halving on the odd-order curves, torsion points [L]R on the Edwards curves); checked as ground facts
ORDERS = {
    "p256": (0xFFFFFFFF00000000FFFFFFFFFFFFFFFFBCE6FAADA7179E84F3B9CAC2FC632551, 1),
    "secp256k1": (0xFFFFFFFFFFFFFFFFFFFFFFFFFFFFFFFEBAAEDCE6AF48A03BBFD25E8CD0364141, 1),
    "ed25519": (2 ** 252 + 27742317777372353535851937790883648493, 8),
    "ed448": (2 ** 446 - 13818066809895115352007386748515426880336692474882178609894547503885, 4),
}
_SPECIALS = {}


def c_mul(m, k, P):
    E = m.c_neutral()
    for bit in bin(k)[2:]:
        E = m.c_add(E, E)
        if bit == "1":
            E = m.c_add(E, P)
    return E


def concrete_specials(m):
    """concrete finite special points of a model: dict label -> list of affine points.
      Weierstrass: "x=0" (if any), "half" = {j: points H with [2^j]H in "x=0"};
      Edwards: "torsion" = all points of E[h] except the neutral (order 2, 4, and 8 on ed25519),
               "order4" = the two points with y = 0."""
    if m.name in _SPECIALS:
        return _SPECIALS[m.name]
    sp = {}
    p = m.p
    if isinstance(m, Weierstrass):
        sp["x=0"] = []
        sp["half"] = {}
        y0 = sqrt_mod(m.bv, p)
        if y0:
            sp["x=0"] = [(0, y0), (0, p - y0)]
            L, _ = ORDERS[m.name]
            for j in range(1, 8):
                hj = pow((L + 1) // 2, j, L)
                sp["half"][j] = [c_mul(m, hj, T) for T in sp["x=0"]]
    elif isinstance(m, Edwards):
        L, h = ORDERS[m.name]
        rng = random.Random(448)
        T = None
        for _ in range(200):
            T = c_mul(m, L, m.c_rand(rng))
            if c_mul(m, h // 2, T) != m.c_neutral():      # order exactly h
                break
        tors = [c_mul(m, k, T) for k in range(1, h)]
        sp["torsion"] = tors
        sp["order4"] = [Q for Q in tors if Q[1] == 0]
    _SPECIALS[m.name] = sp
    return sp


def special_extras(m, kind, rng, small=False):
    """special operands that belong to the `generic` symbolic case (any point of the curve): on the Edwards
    curves every torsion point, mixed-order points R + T, and T with prime-order points [h]R + T"""
    if not isinstance(m, Edwards):
        return []
    sp = concrete_specials(m)
    tors = sp["torsion"]
    _, h = ORDERS[m.name]
    R1, R2 = m.c_rand(rng), m.c_rand(rng)
    Rp = c_mul(m, h, R1)
    out = []
    if kind == "unary":
        for T in tors:
            out += [(T, T), (m.c_add(R1, T), T), (m.c_add(Rp, T), T)]
        return out[:6] if small else out
    for T in tors:
        out += [(T, R1), (R2, T), (m.c_add(Rp, T), R2), (Rp, m.c_add(R2, T)), (m.c_add(Rp, T), m.c_neg(Rp))]
    for T in tors:
        for U in tors:
            out.append((T, U))
    if small:
        out = out[::7]
    return out


def concrete_instances(g, hint, rng, count=6):
    """(P, Q) concrete affine operands for the case of a candidate"""
    m = g.model
    case = hint["case"]
    sp = concrete_specials(m) if "x=0" in case or "order4" in case else {}
    out = []
    for i in range(count):
        P, Q = m.c_rand(rng), m.c_rand(rng)
        if case.startswith("P=Q"):
            Q = P
        elif case.startswith("P=-Q"):
            Q = m.c_neg(P)
        elif case.startswith("P=neutral") or case.startswith("both"):
            P = m.c_neutral()
        if "Q=neutral" in case or case.startswith("both"):
            Q = m.c_neutral()
        if case in ("neutral", "neutral+"):
            P = m.c_neutral() if case == "neutral" else (1, 0)
        if case == "order2" or case == "P=order2":
            P = (0, m.p - 1)
        if case == "Q=order2":
            Q = (0, m.p - 1)
        if case in ("Q=neutral+",):
            Q = (1, 0)
        if case in ("P=neutral+",):
            P = (1, 0)
        # finite special points
        if "x=0" in case and not sp["x=0"]:
            return []
        if case in ("x=0", "valid:x=0") or case.startswith(("P:x=0", "P=Q:x=0", "P=-Q:x=0")):
            P = sp["x=0"][i % 2]
            if case.startswith("P=Q:"):
                Q = P
            elif case.startswith("P=-Q:"):
                Q = m.c_neg(P)
        if case in ("Q:x=0", "P=neutral,Q:x=0"):
            Q = sp["x=0"][(i // 2) % 2]
        if case == "2^jP:x=0":
            # every j <= n and both points, whatever `count` is: [2^j]P has x = 0
            if i == 0:
                for j in range(1, max(1, hint.get("n", 1)) + 1):
                    out += [(H, Q) for H in sp["half"][j]]
            continue
        if case in ("order4", "P=order4", "P=Q=order4"):
            P = sp["order4"][i % 2]
            if case == "P=Q=order4":
                Q = P
        if case == "Q=order4":
            Q = sp["order4"][i % 2]
        out.append((P, Q))
    if case == "generic":
        func = hint["func"]
        unary = func in ("set_double", "set_neg", "set_xdouble", "set_mul_small")
        out += special_extras(m, "unary" if unary else "binary", rng, small=(func == "operators"))
    return out


REJECT = "reject"


def ctor_requests(g, hint, rng, count):
    """native requests for the constructors, through the public API (from_projective / from_affine)"""
    m = g.model
    p = m.p
    func, case = hint["func"], hint["case"]
    api = {"set_projective": "from_projective", "set_affine": "from_affine", "from_projective": "from_projective"}[func]
    reqs = []

    def offcurve(P):
        return (P[0], (P[1] + 1 + rng.randrange(p - 2)) % p)
    if case == "wrappers":
        P = m.c_rand(rng)
        z = m.c_scalar(rng)
        return [((g.name, "from_projective", 0, m.c_embed(P, z)), P),
                ((g.name, "from_projective", 0, m.c_embed(offcurve(P), z)), REJECT),
                ((g.name, "from_affine", 0, list(P)), P), ((g.name, "from_affine", 0, list(offcurve(P))), REJECT)]
    for i in range(max(count, 4)):
        P = m.c_rand(rng)
        z = m.c_scalar(rng)
        if case.startswith("valid"):
            if case.endswith("x=0"):
                sp = concrete_specials(m)["x=0"]
                if not sp:
                    return []
                P = sp[i % 2]
            if api == "from_affine":
                reqs.append(((g.name, api, 0, list(P)), P))
            else:
                if i == 0:
                    z = 1
                F = m.c_embed(P, z)
                reqs.append(((g.name, api, 0, F), P))
                Q = m.c_rand(rng)
                reqs.append(((g.name, "fp:set_add", 0, F + m.c_embed(Q, m.c_scalar(rng))), m.c_add(P, Q)))
                reqs.append(((g.name, "fp:set_double", 0, F), m.c_add(P, P)))
        elif case == "off-curve":
            B = offcurve(P)
            if i == 1:
                B = (0, 0)
            if i == 2:
                B = (1, 0)
            if api == "from_affine":
                reqs.append(((g.name, api, 0, list(B)), REJECT))
            else:
                reqs.append(((g.name, api, 0, m.c_embed(B, z)), REJECT))
        else:
            # (X:Y:0): the point at infinity
            xs = {"Z=0": [rng.randrange(1, p), rng.randrange(p), 0], "X=Z=0": [0, rng.randrange(1, p), 0],
                  "Y=Z=0": [rng.randrange(1, p), 0, 0], "X=Y=Z=0": [0, 0, 0]}[case]
            if case == "Z=0" and i == 1:
                xs = [1, 1, 0]
            reqs.append(((g.name, api, 0, xs), None))
            # N as an operand of further operations: N + Q = Q, N - Q = -Q, 2N = N, 2N + Q = Q ...
            Q = m.c_rand(rng)
            FQ = m.c_embed(Q, m.c_scalar(rng))
            reqs.append(((g.name, "fp:set_add", 0, xs + FQ), Q))
            reqs.append(((g.name, "fp:set_sub", 0, xs + FQ), m.c_neg(Q)))
            reqs.append(((g.name, "fp:op_add_rr", 0, xs + FQ), Q))
            reqs.append(((g.name, "fp:set_add_affine", 0, xs + list(Q)), Q))
            reqs.append(((g.name, "fp:set_double", 0, xs), None))
            reqs.append(((g.name, "fp:set_xdouble", 3, xs), None))
            reqs.append(((g.name, "fp:set_neg", 0, xs), None))
            reqs.append(((g.name, "fp:set_mul_small", 5, xs), None))
    return reqs


def native_requests(g, hint, rng, count=6):
    """list of (request, expected affine) for a hint"""
    m = g.model
    func = hint["func"]
    reqs = []
    p = m.p
    if func in CTOR_FUNCS or hint["case"] == "wrappers":
        return ctor_requests(g, hint, rng, count)
    for P, Q in concrete_instances(g, hint, rng, count):
        z1, z2 = m.c_scalar(rng), m.c_scalar(rng)
        F1 = m.c_embed(P, z1)
        n = hint.get("n", 0)
        if func in ("set_add", "set_sub"):
            reqs.append(((g.name, func, 0, F1 + m.c_embed(Q, z2)), m.c_add(P, m.c_neg(Q) if func == "set_sub" else Q)))
        elif func in ("set_add_duif", "set_sub_duif"):
            x, y = Q
            d2 = 2 * m.dv % p
            reqs.append(((g.name, func, 0, F1 + [(y + x) % p, (y - x) % p, d2 * x * y % p]),
                         m.c_add(P, m.c_neg(Q) if "sub" in func else Q)))
        elif func in ("set_add_affine", "set_sub_affine", "set_add_affine_extended", "set_sub_affine_extended"):
            if Q is None:
                Q2 = m.c_rand(rng)
                reqs.append(((g.name, func, 0xFFFFFFFF, F1 + list(Q2)), P))
                continue
            if m.char2:
                from engines.polyid.curves import F254
                isb = F254.inv(m.cSB)
                extra = [F254.mul(Q[0], isb), F254.mul(Q[1], isb)]
            else:
                extra = list(Q) + ([Q[1] * Q[1] % p] if "extended" in func else [])
            if hint.get("n") == 0xFFFFFFFF:
                reqs.append(((g.name, func, 0xFFFFFFFF, F1 + extra), P))
            else:
                reqs.append(((g.name, func, 0, F1 + extra), m.c_add(P, m.c_neg(Q) if "sub" in func else Q)))
        elif func == "set_double":
            reqs.append(((g.name, func, 0, F1), m.c_add(P, P)))
        elif func == "set_neg":
            reqs.append(((g.name, func, 0, F1), m.c_neg(P)))
        elif func == "set_xdouble":
            E = P
            for _ in range(n):
                E = m.c_add(E, E)
            reqs.append(((g.name, func, n, F1), E))
        elif func == "set_mul_small":
            for nn in ([n] if n else [0, 1, 2, 3, 5, 7, 16]):
                E = m.c_neutral()
                for bit in bin(nn)[2:]:
                    E = m.c_add(E, E)
                    if bit == "1":
                        E = m.c_add(E, P)
                reqs.append(((g.name, func, nn, F1), E))
        elif func == "operators":
            S_, D_ = m.c_add(P, Q), m.c_add(P, m.c_neg(Q))
            FQ = m.c_embed(Q, z2)
            for v in ("vv", "vr", "rv", "rr", "assign_v", "assign_r"):
                reqs.append(((g.name, "op_add_" + v, 0, F1 + FQ), S_))
                reqs.append(((g.name, "op_sub_" + v, 0, F1 + FQ), D_))
            for v in ("v", "r"):
                reqs.append(((g.name, "op_neg_" + v, 0, F1), m.c_neg(P)))
            E5 = m.c_add(m.c_add(m.c_add(P, P), m.c_add(P, P)), P)
            for v in ("vn", "rn", "nv", "nr", "assign"):
                reqs.append(((g.name, "op_mul_" + v, 5, F1), E5))
                reqs.append(((g.name, "op_mul_" + v, 0, F1), m.c_neutral()))
                reqs.append(((g.name, "op_mul_" + v, 1, F1), P))
    return reqs


def judge(m, vals, exp):
    """compare a native output (list of integers) with the expectation (affine point / None = neutral /
    REJECT).  Returns (got, valid, same)"""
    if len(vals) == 1:                    # the constructor returned None
        return REJECT, exp == REJECT, exp == REJECT
    if exp == REJECT:
        got, valid = m.c_decode(vals)
        return got, valid, False
    got, valid = m.c_decode(vals)
    same = m.c_same(got, exp) if (got is not None or exp is not None) else True
    return got, valid, same


def native_check(rp, g, hint, rng, count=6):
    """returns (n_checked, first mismatch dict or None, error text or None)"""
    reqs = native_requests(g, hint, rng, count)
    if not reqs:
        return 0, None, "no native request for %r" % (hint,)
    res = rp.run([r for r, _ in reqs], ENC)
    m = g.model
    checked = 0
    for (req, exp), r in zip(reqs, res):
        fkey = req[1] if req[1].startswith(("from_", "fp:")) else hint["func"]
        if r[0] == "error":
            return checked, None, r[1]
        if r[0] == "panic":
            return checked, dict(key="%s.%s" % (g.name, fkey), request=_fmt(req), native="panic",
                                 expected_affine=_aff(exp), expected_reject=(exp == REJECT)), None
        got, valid, same = judge(m, r[1], exp)
        checked += 1
        if not valid or not same:
            mism = dict(key="%s.%s" % (g.name, fkey), case=hint.get("case"),
                        request=_fmt(req), native_output=[hex(v) for v in r[1]],
                        native_affine=_aff(got), expected_affine=_aff(exp),
                        expected_reject=(exp == REJECT),
                        valid_representation=bool(valid))
            # what the same defect does to the other requests of this case (informative)
            more = []
            for (req2, exp2), r2 in list(zip(reqs, res))[checked:]:
                if len(more) >= 5:
                    break
                if r2[0] == "panic":
                    more.append(dict(request=_fmt(req2), native="panic"))
                elif r2[0] == "ok":
                    g2, v2, s2 = judge(m, r2[1], exp2)
                    if not v2 or not s2:
                        more.append(dict(request=_fmt(req2), native_affine=_aff(g2), expected_affine=_aff(exp2),
                                         valid_representation=bool(v2)))
            if more:
                mism["further_mismatches"] = more
            return checked, mism, None
    return checked, None, None


def _fmt(req):
    return dict(curve=req[0], func=req[1], n=req[2], coords=[hex(v) for v in req[3]])


def _aff(P):
    if P is None or P == REJECT:
        return None
    return [hex(v) for v in P]


# --------------------------------------------------------------------------

def eval_gf2(t, consts):
    """evaluate a characteristic-2 constant term in GF(2^254) (packed int)"""
    from engines.polyid.curves import F254
    memo = {}
    for x in R.topo([t]):
        a = [memo[y.id] for y in x.args]
        if x.op == "sym":
            if x.aux == "u":
                r = F254.pack(0, 1)
            elif x.aux == "sb":
                r = (1 << 27) | 1
            else:
                r = consts[x.aux]
        elif x.op == "const":
            r = int(x.aux) & 1
        elif x.op in ("add", "sub"):
            r = a[0] ^ a[1]
        elif x.op == "mul":
            r = F254.mul(a[0], a[1])
        elif x.op == "neg":
            r = a[0]
        else:
            raise ValueError(x.op)
        memo[x.id] = r
    return memo[t.id]


def library_base(m):
    """coordinates of the library's Point::BASE as concrete field values"""
    it = Interp(MIR, char2=m.char2)
    base = it.const_value("%s::Point::BASE" % m.module)
    decl = m.struct_fields(MIR, "Point")
    by = dict(zip(decl, base.fields))
    vals = []
    for cn in m.coords:
        t = by[cn]
        if m.char2:
            vals.append(eval_gf2(t, it.named_consts))
        elif R.is_const(t):
            vals.append(int(t.aux) % m.p)
        else:
            vals.append(it.named_consts[t.aux] % m.p)
    return vals


def ground_facts(consts, obs):
    facts = []

    def fact(name, okv):
        facts.append({"fact": name, "ok": bool(okv)})
    from engines.polyid.curves import legendre
    used = {GROUPS[o.hint["group"]]["model"] for o in obs if getattr(o, "hint", None)}
    for m in MODELS.values():
        if m.name not in used:
            continue
        for sym_, text, pred in getattr(m, "const_relations", []):
            if sym_ in consts:
                fact("%s: %s" % (m.name, text), pred(consts[sym_], m.p))
            # a constant that no executed function reads needs no relation
        if isinstance(m, Edwards):
            fact("%s: d is a non-square mod p" % m.name, legendre(m.dv, m.p) == -1)
            fact("%s: a is a square mod p" % m.name, legendre(m.a, m.p) == 1)
        if isinstance(m, JacobiQuartic):
            fact("%s: b' = a^2-4b is a non-square mod p" % m.name, legendre(m.bp, m.p) == -1)
        # the library's base point satisfies the model's curve equation
        try:
            P, valid = m.c_decode(library_base(m))
            fact("%s: Point::BASE is a valid point of the model curve" % m.name, valid and P is not None)
        except Exception as e:  # noqa
            fact("%s: Point::BASE evaluation (%s)" % (m.name, e), False)
        if isinstance(m, GLS254):
            from engines.polyid.curves import F254, f127_mul
            fact("gls254: sqrt(b)^2 = b = 1 + z^54 in GF(2^127)", f127_mul(m.cSB, m.cSB) == m.cB)
            uu = F254.mul(m.cU, m.cU)
            fact("gls254: u^2 + u + 1 = 0", uu ^ m.cU ^ 1 == 0)
            for lab, t, hy in m.spec_lemmas():
                res = prove_zero(t, make_ideal(m, hy, [t]), Z3_TIMEOUT_MS)
                fact("gls254 spec lemma (z3 %s): %s on the curve" % (res.status, lab), res.ok)
    # certificate denominators / multipliers invertible
    for o in obs:
        d = getattr(o, "denoms", 1)
        if d != 1:
            g = GROUPS.get(o.hint["group"])
            p = MODELS[g["model"]].p
            if MODELS[g["model"]].char2:
                continue
            if math.gcd(d, p) != 1:
                fact("%s: certificate denominator %d invertible mod p" % (o.name, d), False)
    dens = sorted({getattr(o, "denoms", 1) for o in obs})
    fact("certificate denominators %r are coprime to every field prime" % dens[:12],
         all(math.gcd(d, m.p) == 1 for d in dens for m in MODELS.values() if not m.char2))
    return facts


def special_point_facts(obs):
    """which finite special points exist on each curve (decides which cases are posed) and the group orders
    used to build the native corpus"""
    facts = []

    def fact(name, okv):
        facts.append({"fact": name, "ok": bool(okv)})
    used = {GROUPS[o.hint["group"]]["model"] for o in obs if getattr(o, "hint", None)}
    for m in MODELS.values():
        if m.name not in used:
            continue
        sp = concrete_specials(m)
        if isinstance(m, Weierstrass):
            L, _ = ORDERS[m.name]
            if has_x0(m):
                pts = sp["x=0"]
                fact("%s: b is a square mod p: exactly two finite points have x = 0, (0, +-sqrt b); posed as the "
                     "`x=0` cases" % m.name, len(pts) == 2 and all(m.c_oncurve(T) for T in pts) and pts[0] != pts[1])
                fact("%s: [L](0, sqrt b) is the neutral and [2^j]H_j = (0, +-sqrt b) for the halved points of the "
                     "native corpus" % m.name,
                     all(c_mul(m, L, T) is None for T in pts) and
                     all(c_mul(m, 2 ** j, H) == T for j, hs in sp["half"].items() for H, T in zip(hs, pts)))
            else:
                fact("%s: b is not a square mod p: no finite point has x = 0" % m.name, legendre(m.bv, m.p) == -1)
            fact("%s: L is odd (no point with y = 0, trusted: L is the group order)" % m.name, L % 2 == 1)
        if isinstance(m, Edwards):
            L, h = ORDERS[m.name]
            tors = sp["torsion"]
            fact("%s: E[%d] is cyclic: %d distinct non-neutral torsion points on the curve, among them (0,-1) and "
                 "two points with y = 0 (order 4)" % (m.name, h, h - 1),
                 len(set(tors)) == h - 1 and all(m.c_oncurve(T) and T != (0, 1) for T in tors) and
                 (0, m.p - 1) in tors and len(sp["order4"]) == 2 and
                 all(c_mul(m, h, T) == (0, 1) for T in tors))
    return facts


def api_reachability(rp, obs):
    """the finite special points are reachable through the public API: decode of their standard encodings
    (SEC1 uncompressed / RFC 8032), from_affine and from_projective where they exist.  Informative (decoding is
    C06's subject): recorded in the evidence, does not change a verdict."""
    used = {o.hint["group"] for o in obs if getattr(o, "hint", None)}
    out = {}
    for gname in sorted(used):
        d = GROUPS[gname]
        if d["wrap"]:
            continue
        m = MODELS[d["model"]]
        sp = concrete_specials(m)
        reqs = []
        if isinstance(m, Weierstrass):
            for T in sp["x=0"]:
                reqs.append(((gname, "decode", 0, [b"\x04" + T[0].to_bytes(32, "big") + T[1].to_bytes(32, "big")]), T))
                reqs.append(((gname, "decode", 0, [bytes([2 + (T[1] & 1)]) + T[0].to_bytes(32, "big")]), T))
                reqs.append(((gname, "from_affine", 0, list(T)), T))
                reqs.append(((gname, "from_projective", 0, m.c_embed(T, 3)), T))
        elif isinstance(m, Edwards):
            nb = 32 if m.name == "ed25519" else 57
            for T in sp["torsion"]:
                v = T[1] | ((T[0] & 1) << (8 * nb - 1))
                reqs.append(((gname, "decode", 0, [v.to_bytes(nb, "little")]), T))
        if not reqs:
            continue
        try:
            res = rp.run([r for r, _ in reqs], ENC)
            okn = 0
            for (req, exp), r in zip(reqs, res):
                if r[0] == "ok":
                    got, valid, same = judge(m, r[1], exp)
                    okn += bool(valid and same)
            out[gname] = "%d of %d constructions of special points through decode/from_affine/from_projective " \
                         "return the point" % (okn, len(reqs))
        except Exception as e:  # noqa
            out[gname] = "error: %s" % e
    return out


def run(tier, only=None):
    global MIR, MODELS, Z3_TIMEOUT_MS, XDOUBLE_N, MUL_SMALL_N
    t0 = time.time()
    Z3_TIMEOUT_MS = 30000 if tier == "quick" else 300000
    if tier != "quick":
        XDOUBLE_N[:] = [1, 2, 3, 4, 5]
        MUL_SMALL_N[:] = sorted(set(list(range(0, 130)) + MUL_SMALL_N + [2 ** k - 1 for k in range(8, 65, 8)]
                                    + [2 ** k + 1 for k in range(8, 64, 8)]))
    MODELS = models()
    only = list(only or [])
    groups = [gname for gname in GROUPS if gname in only] or list(GROUPS)
    fsel = [o for o in only if o not in GROUPS]
    rp = RP.Replay([gname for gname in RP.CURVES])
    th = threading.Thread(target=rp.build, daemon=True)
    th.start()
    merr = None
    obs = []
    consts = {}
    try:
        MIR, mir_secs, sc = dump_mir()
    except Exception as e:  # noqa
        th.join()
        return finish("C03", tier, [], t0, machinery_error="MIR dump failed: %s" % str(e)[:800])
    log("C03: MIR dump %.1fs, %d items" % (mir_secs, len(MIR.items)))
    try:
        gm = MODELS["gls254"]
        gm.base = gm.c_decode(library_base(gm))[0]
    except Exception as e:  # noqa
        log("C03: GLS254 base point not available: %s" % e)
    tasks = []
    for gname in groups:
        for t in tasks_for(gname):
            if fsel and not any(f in str(t) or f.replace("set_", "") in str(t) for f in fsel):
                continue
            tasks.append(t)
    if not tasks:
        th.join()
        return finish("C03", tier, [], t0, machinery_error="no task selected by --only %r" % (only,))
    res = pmap(work, tasks, nproc=NCPU, timeout=200 if tier == "quick" else 1500)
    for t, (stt, val) in zip(tasks, res):
        if stt == "ok":
            o, cs = val
            obs.extend(o)
            consts.update(cs)
        else:
            o = Obligation("%s.%s:%s" % (t[1], t[2] if len(t) > 2 and isinstance(t[2], str) else t[0],
                                         "task"), "P")
            o.hint = None
            o.candidate = False
            o.unknown("%s: %s" % (stt, str(val)[:400]))
            obs.append(o)
            if stt == "err":
                merr = "task %r: %s" % (t, str(val)[:600])
    log("C03: %d obligations in %.1fs" % (len(obs), time.time() - t0))
    # ---- native side: candidates and spec validation
    th.join()
    rng = random.Random(SEED or 20261002)
    native = {"checked": 0, "failed": 0, "error": rp.error}
    gobjs = {}
    pending = []

    def gobj(name):
        if name not in gobjs:
            gobjs[name] = G(name)
        return gobjs[name]
    if rp.exe:
        # spec validation: the Python group laws against the library on random operands
        seen = set()
        for o in obs:
            h = getattr(o, "hint", None)
            if not h or h["func"] == "operators" and o.verdict != "discharged":
                pass
            if not h:
                continue
            key = (h["group"], h["func"], h["case"], h.get("n", 0))
            if key in seen:
                continue
            seen.add(key)
            cnt = 2 if o.verdict == "discharged" else 8
            try:
                n, mism, err = native_check(rp, gobj(h["group"]), h, rng, cnt)
            except Exception as e:  # noqa
                n, mism, err = 0, None, "native check error: %s" % e
            native["checked"] += n
            same_key = [x for x in obs if getattr(x, "hint", None) and
                        (x.hint["group"], x.hint["func"], x.hint["case"], x.hint.get("n", 0)) == key]
            if mism is not None:
                native["failed"] += 1
                if all(x.verdict == "discharged" for x in same_key):
                    pending.append((o.name, h["group"], mism))
                for x in same_key:
                    if x.verdict != "discharged":
                        x.fail(mism, x.solver, x.seconds, x.queries)
            elif err and o.verdict != "discharged":
                o.reason += " | native replay unavailable: %s" % err[:200]
            elif o.verdict != "discharged" and getattr(o, "candidate", False):
                o.reason += " | native replay of %d concrete instances agrees with the oracle" % n
        # a native disagreement on a discharged obligation is explained when the
        # obligation is relative to functions of the same curve whose own
        # obligations are violated (operators / schedules / wrappers); otherwise
        # the machinery contradicts itself
        for oname, gname, mism in pending:
            mdl = GROUPS[gname]["model"]
            if not any(x.verdict == "violated" and getattr(x, "hint", None) and
                       GROUPS[x.hint["group"]]["model"] == mdl for x in obs):
                merr = "native disagreement on a discharged obligation %s: %r" % (oname, mism)
    else:
        for o in obs:
            if o.verdict != "discharged":
                o.reason += " | native replay not built: %s" % (rp.error or "")[:200]
    facts = ground_facts(consts, obs)
    facts += special_point_facts(obs)
    reach = api_reachability(rp, obs) if rp.exe else {"error": "replay harness not built"}
    bad = [f for f in facts if not f["ok"]]
    if bad and not merr:
        # a failed ground fact invalidates the stub it supports: report, do not alarm
        for o in obs:
            if o.verdict != "discharged" or not getattr(o, "hint", None):
                continue
            mine = [f for f in bad if f["fact"].startswith(GROUPS[o.hint["group"]]["model"] + ":")
                    or f["fact"].startswith("certificate")]
            if mine:
                o.unknown("ground fact failed: %s" % mine[0]["fact"], o.solver, o.seconds, o.queries)
    trusted = sorted({t for o in obs for t in getattr(o, "trusted", [])})
    return finish(
        "C03", tier, obs, t0,
        functions_encoded=sorted({f for o in obs for f in o.functions}),
        bounds={"operands": BOUNDS,
                "set_xdouble": "n in %r executed; loop-body lemma holds for any n" % (XDOUBLE_N,),
                "set_mul_small": "n in %r" % (MUL_SMALL_N,),
                "configuration": "default features, 64-bit backend, MIR of the dev profile"},
        stubs={"field operations (add/sub/mul/square/neg/half/mulK/mul_small) -> exact ring operations": "C01",
               "select/set_cond/iszero/equals -> ite / zero test": "C20",
               "field constants -> integer value of their limbs (w64be/w64le)": "ground facts"},
        assumptions=["MIR semantics as implemented in engines/polyid/interp.py (cross-checked against the native "
                     "build on random operands on every run)",
                     "affine group laws in engines/polyid/curves.py (validated natively; jq255 through the "
                     "double-odd Weierstrass curve)"] + trusted,
        outside=["equals/isneutral/encode/decode (C06)", "set_mul_small for n outside the listed set",
                 "set_xdouble n > 3 (composition argument only)",
                 "Edwards points of order 8 and mixed-order points have no symbolic case of their own: they are "
                 "instances of the `generic` case (any point of the curve; the unified formulas contain no "
                 "selection) and are part of the native corpus of that case",
                 "set_xdouble on the Jacobian detour (P-256) when a selection atom depends on a non-monomial "
                 "quantity: reported inconclusive, no case split on the atom"],
        ground_facts={"checked": len(facts) + native["checked"], "failed": len(bad) + native["failed"],
                      "facts": facts, "native_spec_validation": native},
        extra={"mir_seconds": round(mir_secs, 1), "replay_build_seconds": round(rp.secs, 1),
               "special_points_api_reachability": reach},
        machinery_error=merr)


def replay(path):
    """re-run the native request stored in a replay file against the current
    /repo working tree and compare with the stored expectation"""
    import json
    global MODELS
    with open(path) as fh:
        d = json.load(fh)
    model = d["obligation"].get("model") or {}
    req = model.get("request")
    if not req:
        print("replay: no native request in %s" % path)
        return 2
    MODELS = models()
    rp = RP.Replay([req["curve"]])
    if not rp.build():
        print("replay: harness build failed: %s" % (rp.error or "")[-400:])
        return 2
    r = rp.run([(req["curve"], req["func"], req["n"], [int(v, 16) for v in req["coords"]])], ENC)[0]
    m = MODELS[GROUPS[req["curve"]]["model"]]
    if r[0] == "panic":
        print("REPRODUCED: native panic")
        return 1
    if r[0] != "ok":
        print("replay: native run failed: %r" % (r,))
        return 2
    exp = model.get("expected_affine")
    exp = None if exp is None else tuple(int(v, 16) for v in exp)
    if model.get("expected_reject"):
        exp = REJECT
    got, valid, same = judge(m, r[1], exp)
    print("native output:", [hex(v) for v in r[1]] if len(r[1]) > 1 else "None (input rejected)")
    print("native affine:", "-" if got == REJECT else (_aff(got) or "neutral / none"), "valid representation:", valid)
    print("expected     :", "rejection" if exp == REJECT else (_aff(exp) or "the neutral"))
    if valid and same:
        print("NOT REPRODUCED: the current tree returns the expected group element")
        return 0
    print("REPRODUCED: property=C03 key=%s" % model.get("key"))
    return 1
