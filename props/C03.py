"""C03 Point addition, doubling and negation implement the complete group law
(engine P: MIR executed over an abstract ring, identities decided by z3).

One obligation per (group, function, case).  See engines/polyid/NOTES.md."""
import math
import os
import random
import threading
import time
import traceback
from fractions import Fraction

from vlib.common import Obligation, finish, log, NCPU, SEED
from vlib.par import pmap
from engines.polyid import terms as R
from engines.polyid.build import dump_mir
from engines.polyid.interp import Interp, Agg, Cell, Ref, IntV, MirError, short_type
from engines.polyid.prove import Ideal, prove_zero, factor_nonvanishing, Z3_VERSION
from engines.polyid.curves import models, Affine, Edwards, Weierstrass, JacobiQuartic, GLS254
from engines.polyid import replay as RP

MIR = None
MODELS = None
Z3_TIMEOUT_MS = 60000

BOUNDS = ("none on operands: polynomial identity over Q[affine coordinates, scaling variables, curve constants] "
          "modulo the curve equations of the operands (valid in every field of characteristic > 3)")

GROUPS = {
    "ed25519": dict(model="ed25519", module="ed25519", wrap=False,
                    affine=("duif", "PointDuif", "set_add_duif", "set_sub_duif"), xd="iter"),
    "ristretto255": dict(model="ed25519", module="ristretto255", wrap=True, affine=None, xd="iter"),
    "ed448": dict(model="ed448", module="ed448", wrap=False,
                  affine=("affine", "PointAffine", "set_add_affine", "set_sub_affine"), xd="iter"),
    "decaf448": dict(model="ed448", module="decaf448", wrap=True, affine=None, xd="iter"),
    "p256": dict(model="p256", module="p256", wrap=False,
                 affine=("affine_rz", "PointAffine", "set_add_affine", "set_sub_affine"),
                 xd="cut", state=["X", "Y", "Z"]),
    "secp256k1": dict(model="secp256k1", module="secp256k1", wrap=False,
                      affine=("affine_rz", "PointAffine", "set_add_affine", "set_sub_affine"), xd="iter"),
    "jq255e": dict(model="jq255e", module="jq255e", wrap=False,
                   affine=("affine_ext", "PointAffineExtended", "set_add_affine_extended",
                           "set_sub_affine_extended"), xd="cut", state=["X", "W", "J"]),
    "jq255s": dict(model="jq255s", module="jq255s", wrap=False,
                   affine=("affine_ext", "PointAffineExtended", "set_add_affine_extended",
                           "set_sub_affine_extended"), xd="cut", state=["X", "W", "J"]),
    "gls254": dict(model="gls254", module="gls254", wrap=False,
                   affine=("gls_affine", "PointAffine", "set_add_affine", "set_sub_affine"),
                   xd="cut", state=["X", "T", "Z", "Y"]),
}
QUICK_GROUPS = list(GROUPS)
XDOUBLE_N = [1, 2, 3]
MUL_SMALL_N = list(range(0, 17)) + [31, 32, 33, 255, 2 ** 32 + 1, 2 ** 63, 2 ** 64 - 1]


class Machinery(Exception):
    pass


# --------------------------------------------------------------------------
# helpers: structs <-> coordinate lists

class G:
    """a group under test: model + the module whose functions are executed"""

    def __init__(self, name):
        d = GROUPS[name]
        self.name = name
        self.d = d
        self.model = MODELS[d["model"]]
        self.module = d["module"]
        self.wrap = d["wrap"]
        self.inner_mod = self.model.module
        self.decl = self.model.struct_fields(MIR, "Point")
        if sorted(self.decl) != sorted(self.model.coords):
            raise Machinery("%s::Point has fields %r, the model expects %r"
                            % (self.inner_mod, self.decl, self.model.coords))

    def interp(self, **kw):
        return Interp(MIR, char2=self.model.char2, **kw)

    def point(self, fields):
        by = dict(zip(self.model.coords, fields))
        inner = Agg("struct", [by[n] for n in self.decl], self.inner_mod + "::Point", list(self.decl))
        if self.wrap:
            return Agg("struct", [inner], self.module + "::Point")
        return inner

    def fields(self, val):
        inner = val.fields[0] if self.wrap else val
        by = dict(zip(self.decl, inner.fields))
        return [by[n] for n in self.model.coords]

    def aff_struct(self, ty, by):
        names = self.model.struct_fields(MIR, ty)
        if sorted(names) != sorted(by):
            raise Machinery("%s::%s has fields %r, expected %r" % (self.inner_mod, ty, names, sorted(by)))
        return Agg("struct", [by[n] for n in names], self.inner_mod + "::" + ty, list(names))

    def fn(self, interp, method, ty="Point"):
        return interp.find_fn(self.module, ty, method)


def order_key(model):
    fam = model.family

    def key(n):
        if n in model.units or "_" in n:      # named curve constants
            return (0 if fam == "edwards" else 9, n)
        c0 = n[0]
        if fam == "weierstrass":
            return ({"y": 1, "x": 2}.get(c0, 5), n)
        if fam == "jq":
            return ({"e": 1, "u": 2}.get(c0, 5), n)
        if fam == "gls":
            if n in ("u", "sb"):
                return (8, n)
            if n in ("qY",):
                return (1, n)
            if n in ("qT",):
                return (2, n)
            return ({"s": 1}.get(c0, 5), n)
        return ({"x": 1, "y": 2}.get(c0, 5), n)
    return key


def make_ideal(model, hyps, terms_):
    if model.char2:
        hyps = list(hyps) + list(model.const_hyps)
        syms = R.symbols(list(hyps) + list(terms_))
        return Ideal(hyps, sorted(syms, key=order_key(model)), char2=True)
    syms = R.symbols(list(hyps) + list(terms_))
    units = []
    if model.units:
        nh = sum(1 for h in hyps if set(R.symbols([h])) & set(model.units))
        if nh >= 2:
            units = list(model.units)
    order = sorted(syms, key=order_key(model))
    return Ideal(hyps, order, units=units)


# --------------------------------------------------------------------------
# one obligation = a set of z3-decided identities

class Acc:
    def __init__(self, name, functions, desc, hint, bounds=BOUNDS):
        self.name, self.functions, self.desc, self.hint, self.bounds = name, functions, desc, hint, bounds
        self.secs = 0.0
        self.queries = 0
        self.nchecks = 0
        self.fails = []
        self.unknowns = []
        self.notes = []
        self.denoms = 1
        self.mults = set()
        self.trusted = []

    def zero(self, label, term, model, hyps):
        self.nchecks += 1
        ideal = make_ideal(model, hyps, [term])
        res = prove_zero(term, ideal, Z3_TIMEOUT_MS)
        self._acc(label, res)
        return res.ok

    def nonvanishing(self, label, term, model, hyps, nz):
        """term is a non-zero rational multiple of a product of declared
        non-vanishing quantities (modulo the hypotheses)"""
        self.nchecks += 1
        nz = [n for n in nz if isinstance(n, R.T) and not R.is_const(n)]
        if R.is_const(term):
            if term.aux != 0:
                return True
            self.fails.append("%s: identically zero" % label)
            return False
        if model.char2:
            res, desc = factor_nonvanishing(term, make_ideal(model, hyps, [term] + nz), nz, Z3_TIMEOUT_MS)
        else:
            res, desc = factor_nonvanishing(term, make_ideal(model, [], [term] + nz), nz, Z3_TIMEOUT_MS)
        if not res.ok and hyps and not model.char2:
            ideal = make_ideal(model, hyps, [term] + nz)
            ideal.units = []
            ideal._ring = None
            res2, desc = factor_nonvanishing(term, ideal, nz, Z3_TIMEOUT_MS)
            res2.seconds += res.seconds
            res = res2
        self._acc(label + "!=0", res)
        if res.ok:
            self.notes.append("%s = %s" % (label, desc[:200]))
        return res.ok

    def _acc(self, label, res):
        self.secs += res.seconds
        self.queries += res.queries
        if res.ok:
            self.denoms = self.denoms * res.denoms // math.gcd(self.denoms, res.denoms)
            if res.mult and res.mult != "1":
                self.mults.add(res.mult)
        elif res.status in ("nocert", "sat"):
            self.fails.append("%s: %s %s" % (label, res.status, res.info))
        else:
            self.unknowns.append("%s: %s %s" % (label, res.status, res.info))

    def fail(self, msg):
        self.fails.append(msg)

    def ob(self):
        o = Obligation(self.name, "P", self.functions, self.bounds, self.desc)
        o.hint = self.hint
        o.trusted = self.trusted
        o.denoms = self.denoms
        o.mults = sorted(self.mults)
        solver = "%s (unsat on %d negated identities; sympy cofactor certificates)" % (Z3_VERSION, self.queries)
        if self.fails:
            o.unknown("candidate: " + "; ".join(self.fails)[:600], solver, self.secs, self.queries)
            o.candidate = True
        elif self.unknowns:
            o.unknown("; ".join(self.unknowns)[:600], solver, self.secs, self.queries)
            o.candidate = False
        else:
            if self.nchecks == 0:
                raise Machinery("obligation %s posed no identity" % self.name)
            o.ok(solver, self.secs, self.queries, syntactic=(self.queries == 0))
            o.candidate = False
        return o


def need(cond, msg):
    if not cond:
        raise Machinery(msg)


def fn_names(interp):
    return sorted(n for n in interp.executed if "::<impl" in n and not n.rsplit("::", 1)[-1].isupper()
                  and "promoted" not in n)


# --------------------------------------------------------------------------
# cases

def neutral_affines(model, tag):
    if isinstance(model, Edwards):
        return [model.fixed(tag, 0, 1, "neutral")]
    if isinstance(model, JacobiQuartic):
        return [model.fixed(tag, -1, 0, "neutral"), model.fixed(tag, 1, 0, "neutral+")]
    return [model.neutral(tag)]       # Weierstrass, GLS254


def binop_cases(model):
    G1, G2 = model.generic("1"), model.generic("2")
    cases = [("generic", G1, G2),
             ("P=Q", G1, model.like("2", G1)),
             ("P=-Q", G1, model.like("2", G1, True))]
    N1 = neutral_affines(model, "1")
    N2 = neutral_affines(model, "2")
    cases.append(("P=neutral", N1[0], G2))
    cases.append(("Q=neutral", G1, N2[0]))
    cases.append(("both neutral", N1[0], N2[0]))
    if isinstance(model, Edwards):
        cases.append(("Q=order2", G1, model.fixed("2", 0, -1, "order2")))
        cases.append(("P=order2", model.fixed("1", 0, -1, "order2"), G2))
    if isinstance(model, JacobiQuartic):
        cases.append(("Q=neutral+", G1, N2[1]))
        cases.append(("P=neutral+", N1[1], G2))
    return cases


def unit_z(A):
    """operand given in affine form (no scaling variable)"""
    B = Affine(A.xy, A.hyps, [n for n in A.nz if n is not A.z], R.ONE, A.neutral, A.label)
    return B


def rhs_value(g, opkind, A2):
    model = g.model
    if opkind == "point":
        return g.point(model.embed(A2))
    x, y = A2.xy
    if opkind == "duif":
        return g.aff_struct("PointDuif", {"ypx": y + x, "ymx": y - x, "t2d": R.sym("ed25519_D2") * x * y})
    if opkind in ("affine", "affine_rz"):
        return g.aff_struct("PointAffine", {"x": x, "y": y})
    if opkind == "affine_ext":
        return g.aff_struct("PointAffineExtended", {"e": x, "u": y, "t": y * y})
    if opkind == "gls_affine":
        return g.aff_struct("PointAffine", {"scaled_x": x, "scaled_s": y})
    raise Machinery(opkind)


def check_expected(acc, g, out, A1, A2, sub, hyps, rz_neutral=False, F2=None):
    """identities saying that `out` is a valid representation of A1 (+/-) A2"""
    model = g.model
    if isinstance(model, Weierstrass):
        return check_expected_w(acc, g, out, A1, A2, sub, hyps, F2)
    if isinstance(model, GLS254):
        return check_expected_gls(acc, g, out, A1, A2, sub, hyps)
    Q = model.neg(A2) if sub else A2.xy
    rat = model.law(A1.xy, Q)
    for lab, t in model.represents(out, rat):
        acc.zero(lab, t, model, hyps)
    acc.zero("on-curve", model.oncurve(out), model, hyps)
    for lab, t, nz in model.nondeg(out, rat, [A1, A2]):
        acc.nonvanishing(lab, t, model, hyps, nz)
    acc.trusted.extend(model.trusted)


def gls_nz(model, ops, extra=()):
    return [model.sb] + [A.z for A in ops if A.z is not R.ONE] + list(extra)


def check_expected_gls(acc, g, out, A1, A2, sub, hyps):
    model = g.model
    case = acc.hint["case"]
    Q = model.neg(A2) if sub else A2.xy
    if A1.neutral and A2.neutral:
        rel = model.rel_neutral(out)
        nz = gls_nz(model, [A1, A2])
    elif A1.neutral:
        B = Affine(Q, z=A2.z)
        rel = model.proportional(out, model.embed(B))
        nz = gls_nz(model, [A1, A2])
    elif A2.neutral:
        rel = model.proportional(out, model.embed(A1))
        nz = gls_nz(model, [A1, A2])
    elif case == "generic":
        rel = model.rel_add(out, A1.xy, Q)
        nz = gls_nz(model, [A1, A2], [A1.xy[0] * A2.xy[0] + 1])
    elif (case == "P=Q") != bool(sub):
        rel = model.rel_double(out, A1.xy)
        nz = gls_nz(model, [A1, A2], [A1.xy[0] + 1])
    else:
        rel = model.rel_neutral(out)
        nz = gls_nz(model, [A1, A2], [A1.xy[0] + 1])
    for lab, t in rel:
        acc.zero(lab, t, model, hyps)
    acc.zero("on-curve", model.oncurve(out), model, hyps)
    acc.nonvanishing("Z", out[2], model, hyps, nz)
    acc.trusted.extend(model.trusted)


def check_expected_w(acc, g, out, A1, A2, sub, hyps, F2):
    model = g.model
    case = acc.hint["case"]
    F1 = model.embed(A1)
    if A1.neutral and A2.neutral:
        for lab, t in model.is_neutral(out):
            acc.zero(lab, t, model, hyps)
        acc.nonvanishing("Y", out[1], model, hyps, [A1.z, A2.z])
    elif A1.neutral:
        Q = model.neg(A2) if sub else A2.xy
        FQ = [Q[0] * A2.z, Q[1] * A2.z, A2.z]
        for lab, t in model.proportional(out, FQ):
            acc.zero(lab, t, model, hyps)
        acc.nonvanishing("Y", out[1], model, hyps, A1.nz + A2.nz + [Q[1]])
    elif A2.neutral:
        for lab, t in model.proportional(out, F1):
            acc.zero(lab, t, model, hyps)
        acc.nonvanishing("Y", out[1], model, hyps, A1.nz + A2.nz)
    else:
        Q = model.neg(A2) if sub else A2.xy
        if case == "generic":
            rat = model.chord(A1.xy, Q)
            for lab, t in model.represents(out, rat):
                acc.zero(lab, t, model, hyps)
            acc.zero("on-curve", model.oncurve(out), model, hyps)
            acc.trusted.append("x1 != x2 in this case; (X3,Y3,Z3) != (0,0,0) follows from the `complete-law` "
                               "obligation and the completeness theorem")
        elif (case == "P=Q") != bool(sub):
            rat = model.tangent(A1.xy)
            for lab, t in model.represents(out, rat):
                acc.zero(lab, t, model, hyps)
            acc.nonvanishing("Z", out[2], model, hyps, A1.nz + A2.nz)
        else:
            for lab, t in model.is_neutral(out):
                acc.zero(lab, t, model, hyps)
            acc.trusted.append("Y3 != 0 when P = -Q: Y3 is a degree-6 polynomial in x1 that is not a product of "
                               "simple factors; (X3,Y3,Z3) != (0,0,0) is the completeness theorem applied to the "
                               "`complete-law` obligation")
    acc.trusted.extend(model.trusted)


def task_binop(gname, fname, sub, opkind):
    g = G(gname)
    model = g.model
    obs = []
    consts = {}
    cases = binop_cases(model)
    if opkind == "affine_rz":
        cases = [cs for cs in cases if not cs[2].neutral]
    for case, A1, A2 in cases:
        if opkind != "point":
            A2 = unit_z(A2)
        it = g.interp()
        item = g.fn(it, fname)
        c1 = Cell(g.point(model.embed(A1)))
        rhs = rhs_value(g, opkind, A2)
        args = [Ref(c1), Ref(Cell(rhs))]
        if opkind == "affine_rz":
            args.append(IntV(0, 32))
        it.run(item, args)
        need(it.prim_count["mul"] >= 1, "%s.%s executed no field multiplication" % (gname, fname))
        out = g.fields(c1.val)
        need(not R.atoms(out), "%s.%s: unexpected data-dependent selection" % (gname, fname))
        hyps = A1.hyps + A2.hyps
        acc = Acc("%s.%s:%s" % (gname, fname, case), fn_names(it),
                  "%s(P, Q) represents P %s Q; case %s" % (fname, "-" if sub else "+", case),
                  dict(group=gname, func=fname, case=case, sub=sub, opkind=opkind, n=0))
        check_expected(acc, g, out, A1, A2, sub, hyps)
        obs.append(acc.ob())
        consts.update(it.named_consts)
    # Weierstrass: the literature complete law, as a pure identity
    if isinstance(model, Weierstrass):
        A1, A2 = model.generic("1"), model.generic("2")
        if opkind != "point":
            A2 = unit_z(A2)
        it = g.interp()
        item = g.fn(it, fname)
        c1 = Cell(g.point(model.embed(A1)))
        args = [Ref(c1), Ref(Cell(rhs_value(g, opkind, A2)))]
        if opkind == "affine_rz":
            args.append(IntV(0, 32))
        it.run(item, args)
        out = g.fields(c1.val)
        Q = model.neg(A2) if sub else A2.xy
        BL = model.bosma_lenstra(model.embed(A1), [Q[0] * A2.z, Q[1] * A2.z, A2.z])
        acc = Acc("%s.%s:complete-law" % (gname, fname), fn_names(it),
                  "output coordinates equal the Bosma-Lenstra/RCB complete addition law (eprint 2015/1060 sec. 3) "
                  "as polynomials, for all inputs (no curve equation needed)",
                  dict(group=gname, func=fname, case="generic", sub=sub, opkind=opkind, n=0),
                  bounds="none: polynomial identity over Z[x1,y1,z1,x2,y2,z2,b]")
        for lab, o_, b_ in zip("XYZ", out, BL):
            acc.zero(lab, o_ - b_, model, [])
        acc.trusted.extend(model.trusted)
        obs.append(acc.ob())
        if opkind == "affine_rz":
            # rz = 0xFFFFFFFF: the affine operand is the neutral, (x, y) arbitrary
            x2, y2 = R.sym("x2"), R.sym("y2")
            for case, A1 in (("Q=neutral(rz)", model.generic("1")), ("both neutral(rz)", model.neutral("1"))):
                it = g.interp()
                item = g.fn(it, fname)
                F1 = model.embed(A1)
                c1 = Cell(g.point(F1))
                it.run(item, [Ref(c1), Ref(Cell(g.aff_struct("PointAffine", {"x": x2, "y": y2}))),
                              IntV(0xFFFFFFFF, 32)])
                need(it.prim_count["select"] >= 1, "%s.%s: rz not used" % (gname, fname))
                out = g.fields(c1.val)
                acc = Acc("%s.%s:%s" % (gname, fname, case), fn_names(it),
                          "with rz = 0xFFFFFFFF the point is unchanged whatever (x, y) is",
                          dict(group=gname, func=fname, case=case, sub=sub, opkind=opkind, n=0xFFFFFFFF))
                for lab, o_, f_ in zip("XYZ", out, F1):
                    acc.zero(lab, o_ - f_, model, [])
                obs.append(acc.ob())
    return obs, consts


# --------------------------------------------------------------------------
# unary: double, neg

def unary_cases(model):
    cs = [("generic", model.generic("1"))]
    for N in neutral_affines(model, "1"):
        cs.append((N.label, N))
    if isinstance(model, Edwards):
        cs.append(("order2", model.fixed("1", 0, -1, "order2")))
    return cs


def decide_atoms(out, nzsyms):
    """resolve `iszero` atoms: syntactic zero -> true (already folded);
    a product of declared non-zero symbols / constants -> false"""
    undec = []

    def decide(atom):
        t = atom.args[0]
        stack = [t]
        ok = True
        while stack:
            x = stack.pop()
            if x.op == "mul":
                stack.extend(x.args)
            elif x.op == "sym" and x.aux in nzsyms:
                pass
            elif x.op == "const" and x.aux != 0:
                pass
            elif x.op == "neg":
                stack.append(x.args[0])
            else:
                ok = False
        if not ok:
            undec.append(atom)
        return False
    res = R.resolve(out, decide)
    return res, undec


def check_double_expected(acc, g, out, A, hyps, k=1):
    """out represents [2^k] A"""
    model = g.model
    if isinstance(model, GLS254):
        if A.neutral:
            rel = model.rel_neutral(out)
            nz = gls_nz(model, [A])
        else:
            need(k == 1, "gls254 direct multi-doubling oracle not used")
            rel = model.rel_double(out, A.xy)
            nz = gls_nz(model, [A], [A.xy[0] + 1])
        for lab, t in rel:
            acc.zero(lab, t, model, hyps)
        acc.zero("on-curve", model.oncurve(out), model, hyps)
        acc.nonvanishing("Z", out[2], model, hyps, nz)
        acc.trusted.extend(model.trusted)
        return
    if isinstance(model, Weierstrass):
        if A.neutral:
            for lab, t in model.is_neutral(out):
                acc.zero(lab, t, model, hyps)
            acc.nonvanishing("Y", out[1], model, hyps, A.nz)
        else:
            need(k == 1, "weierstrass direct multi-doubling oracle not used")
            rat = model.tangent(A.xy)
            for lab, t in model.represents(out, rat):
                acc.zero(lab, t, model, hyps)
            acc.zero("on-curve", model.oncurve(out), model, hyps)
            acc.nonvanishing("Z", out[2], model, hyps, A.nz)
        acc.trusted.extend(model.trusted)
        return
    P = A.xy
    rat = None
    ops = [A]
    for _ in range(k):
        rat = model.law(P, P)
        (n0, d0), (n1, d1) = rat
        need(all(R.is_const(v) for v in (n0, d0, n1, d1)) or k == 1, "iterated oracle on symbolic point")
        if k > 1:
            P = (R.const(n0.aux / d0.aux), R.const(n1.aux / d1.aux))
    for lab, t in model.represents(out, rat):
        acc.zero(lab, t, model, hyps)
    acc.zero("on-curve", model.oncurve(out), model, hyps)
    for lab, t, nz in model.nondeg(out, rat, ops):
        acc.nonvanishing(lab, t, model, hyps, nz)
    acc.trusted.extend(model.trusted)


def task_double(gname):
    g = G(gname)
    model = g.model
    obs, consts = [], {}
    for case, A in unary_cases(model):
        it = g.interp()
        item = g.fn(it, "set_double")
        c1 = Cell(g.point(model.embed(A)))
        it.run(item, [Ref(c1)])
        need(it.prim_count["mul"] >= 1, "%s.set_double executed no field multiplication" % gname)
        out, undec = decide_atoms(g.fields(c1.val), {str(n) for n in A.nz if n.op == "sym"})
        acc = Acc("%s.set_double:%s" % (gname, case), fn_names(it), "set_double(P) represents 2P; case " + case,
                  dict(group=gname, func="set_double", case=case, n=0))
        if undec:
            acc.unknowns.append("undecided selection atoms: %r" % undec[:2])
        check_double_expected(acc, g, out, A, A.hyps)
        obs.append(acc.ob())
        consts.update(it.named_consts)
    return obs, consts


def task_neg(gname):
    g = G(gname)
    model = g.model
    obs = []
    for case, A in unary_cases(model)[:2]:
        it = g.interp()
        item = g.fn(it, "set_neg")
        F = model.embed(A)
        c1 = Cell(g.point(F))
        it.run(item, [Ref(c1)])
        need(it.prim_count["neg"] + it.prim_count["add"] >= 1, "%s.set_neg executed no field operation" % gname)
        out = g.fields(c1.val)
        acc = Acc("%s.set_neg:%s" % (gname, case), fn_names(it), "set_neg(P) represents -P; case " + case,
                  dict(group=gname, func="set_neg", case=case, n=0))
        if A.neutral and isinstance(model, Weierstrass):
            for lab, t in model.is_neutral(out):
                acc.zero(lab, t, model, [])
            acc.nonvanishing("Y", out[1], model, [], A.nz)
        else:
            B = Affine(model.neg(A), A.hyps, A.nz, A.z)
            E = model.embed(B)
            if isinstance(model, JacobiQuartic):
                # group elements are classes (e,u) ~ (-e,-u): any representative of -P
                for lab, t in model.same_element(out, E):
                    acc.zero(lab, t, model, A.hyps)
                acc.zero("T*Z=U^2", out[3] * out[2] - out[1] * out[1], model, A.hyps)
                acc.zero("on-curve", model.oncurve(out), model, A.hyps)
                acc.nonvanishing("Z", out[2], model, A.hyps, A.nz)
            else:
                # exact: the representation of -P with the same scaling
                for lab, o_, e_ in zip(model.coords, out, E):
                    acc.zero(lab, o_ - e_, model, [])
        obs.append(acc.ob())
    return obs, {}


# --------------------------------------------------------------------------
# xdouble

def run_xdouble(g, fields, n, hook=None):
    it = g.interp(loop_hook=hook)
    item = g.fn(it, "set_xdouble")
    c1 = Cell(g.point(fields))
    it.run(item, [Ref(c1), IntV(n, 32)])
    return it, c1.val


def run_double(g, fields):
    it = g.interp()
    item = g.fn(it, "set_double")
    c1 = Cell(g.point(fields))
    it.run(item, [Ref(c1)])
    return it, c1.val


def task_xdouble(gname, n):
    g = G(gname)
    model = g.model
    obs, consts = [], {}
    # (a) neutral inputs: direct
    for N in neutral_affines(model, "1"):
        it, val = run_xdouble(g, model.embed(N), n)
        out, undec = decide_atoms(g.fields(val), {str(x) for x in N.nz if x.op == "sym"})
        acc = Acc("%s.set_xdouble(%d):%s" % (gname, n, N.label), fn_names(it),
                  "set_xdouble(N, %d) is a valid representation of the neutral" % n,
                  dict(group=gname, func="set_xdouble", case=N.label, n=n))
        need(it.prim_count["mul"] >= 1, "%s.set_xdouble executed no field multiplication" % gname)
        if undec:
            acc.unknowns.append("undecided selection atoms")
        check_double_expected(acc, g, out, N, [], k=n)
        obs.append(acc.ob())
    # (b) generic input
    A = model.generic("1")
    name = "%s.set_xdouble(%d):generic" % (gname, n)
    hint = dict(group=gname, func="set_xdouble", case="generic", n=n)
    if n == 1:
        it, val = run_xdouble(g, model.embed(A), 1)
        need(it.prim_count["mul"] >= 1, "%s.set_xdouble executed no field multiplication" % gname)
        out, undec = decide_atoms(g.fields(val), {str(x) for x in A.nz if x.op == "sym"})
        acc = Acc(name, fn_names(it), "set_xdouble(P, 1) represents 2P", hint)
        if undec:
            acc.unknowns.append("undecided selection atoms")
        check_double_expected(acc, g, out, A, A.hyps)
        obs.append(acc.ob())
        consts.update(it.named_consts)
        return obs, consts
    if g.d["xd"] == "iter":
        raw = [R.sym(cn) for cn in model.coords]
        it, val = run_xdouble(g, raw, n)
        need(it.prim_count["mul"] >= n, "%s.set_xdouble(%d) executed too few multiplications" % (gname, n))
        out = g.fields(val)
        ref = raw
        fns = set(fn_names(it))
        for _ in range(n):
            it2, v2 = run_double(g, ref)
            ref = g.fields(v2)
            fns |= set(fn_names(it2))
        acc = Acc(name, sorted(fns),
                  "set_xdouble(P, %d) computes exactly the coordinates of set_double applied %d times "
                  "(for arbitrary coordinate values); with the set_double obligations this gives [2^%d]P" % (n, n, n),
                  hint, bounds="none: polynomial identity over Z[X,Y,Z,T]; n = %d" % n)
        for lab, o_, r_ in zip(model.coords, out, ref):
            if o_ is r_:
                acc.nchecks += 1
                continue
            acc.zero(lab, o_ - r_, model, [])
        obs.append(acc.ob())
        return obs, consts
    obs.append(xdouble_cut(g, n, name, hint))
    return obs, consts


def xdouble_cut(g, n, name, hint):
    """set_xdouble = entry ; body^m ; exit, with an internal representation.
    With J a polynomial in the internal state (found from the curve equation
    of exit(s); any J works as long as the lemmas below hold):
      (E)  exit(entry(P)) ~ set_double(P)  [or ~ P]   -> e0 in {1, 0}
      (I0) J(entry(P)) = 0 on the curve;  (I1) J(body(s)) in (J(s))
      (V)  exit(s) is on the curve when J(s) = 0
      (C)  exit(body(s)) ~ set_double(exit(s)) when J(s) = 0, and
           Z(set_double(exit(s))) = K * Z(exit(body(s)))   (non-degeneracy)
      (K)  e0 + m = n   (m = loop iterations executed for this n)."""
    from engines.polyid.prove import _poly_to_term, _lift2
    model = g.model
    A = model.generic("1")
    names = g.d["state"]
    fns = set()
    top = g.inner_mod + "::"

    def mine(fr):
        return fr.body.name.startswith(top) and fr.body.name.endswith("::set_xdouble")

    def locs(fr):
        return [fr.debug_local(nm, nonref=True) for nm in names]

    def force_exit(it_ref):
        rng = it_ref.get()
        s_, e_ = rng.fields
        Ref(it_ref.cell, it_ref.path + (0,)).set(IntV(e_.v, e_.bits, e_.signed))

    free = [R.sym("q" + nm) for nm in names]
    st = {}

    def hookA(interp, fr, k, it_ref):
        if mine(fr) and k == 0:
            st["entry"] = [fr.cell(l).val for l in locs(fr)]
            force_exit(it_ref)
    it, val = run_xdouble(g, model.embed(A), 2, hookA)
    fns |= set(fn_names(it))
    need("entry" in st, "loop hook did not fire in %s" % name)
    outA, undecA = decide_atoms(g.fields(val), {"z1"})
    def hookA1(interp, fr, k, it_ref):
        if mine(fr) and k == 1:
            force_exit(it_ref)
    itA1, valA1 = run_xdouble(g, model.embed(A), 3, hookA1)
    outA1, _ = decide_atoms(g.fields(valA1), {"z1"})
    cnt = {"k": 0}

    def hookB(interp, fr, k, it_ref):
        if mine(fr):
            cnt["k"] = k
    itB, _ = run_xdouble(g, model.embed(A), n, hookB)
    m = cnt["k"]
    need(itB.prim_count["mul"] >= n, "set_xdouble(%d) executed too few multiplications" % n)

    def hookC(interp, fr, k, it_ref):
        if not mine(fr):
            return
        if k == 0:
            for l, s_ in zip(locs(fr), free):
                fr.cell(l).val = s_
        elif k == 1:
            st["body"] = [fr.cell(l).val for l in locs(fr)]
            force_exit(it_ref)
    itC, valC = run_xdouble(g, model.embed(A), 3, hookC)
    need("body" in st and itC.prim_count["mul"] >= 1, "loop body not executed in %s" % name)
    outC, undecC = decide_atoms(g.fields(valC), set())

    def hookD(interp, fr, k, it_ref):
        if mine(fr) and k == 0:
            for l, s_ in zip(locs(fr), free):
                fr.cell(l).val = s_
            force_exit(it_ref)
    itD, valD = run_xdouble(g, model.embed(A), 2, hookD)
    outD, undecD = decide_atoms(g.fields(valD), set())
    itE, valE = run_double(g, outD)
    outD2, undecE = decide_atoms(g.fields(valE), set())
    fns |= set(fn_names(itE))
    itF, valF = run_double(g, model.embed(A))
    outF, _ = decide_atoms(g.fields(valF), {"z1"})

    acc = Acc(name, sorted(fns),
              "set_xdouble(P, %d) = exit(body^m(entry(P))): exit(entry(P)) ~ [2^e0]P, the state invariant J is "
              "inductive, exit(body(s)) ~ set_double(exit(s)) for every state with J(s) = 0, e0 + m = %d" % (n, n),
              hint,
              bounds="identities over Q[internal state variables] modulo the state invariant; loop count executed "
                     "concretely for n = %d" % n)
    # state invariants: the curve equation (and validity relations) of exit(s),
    # with their monomial content removed.  Any polynomials work as long as the
    # lemmas below hold; this is only how they are found.
    cands = [("curve", model.oncurve(outD))]
    if hasattr(model, "validity"):
        cands += model.validity(outD)
    hypJ = []
    for lab, raw_t in cands:
        idl = make_ideal(model, [], [raw_t])
        pr = idl.poly(raw_t)
        if model.char2:
            pr = _lift2(idl._to2(pr, idl._ring2[0]), idl.ring()[0])
        if pr == 0:
            continue
        mons = [mon for mon, _ in pr.terms()]
        mn = tuple(min(mo[i] for mo in mons) for i in range(len(mons[0])))
        Rg0 = idl.ring()[0]
        stripped = Rg0.zero
        g0 = 0
        for mon, cf in pr.terms():
            g0 = math.gcd(g0, abs(int(cf))) if cf.denominator == 1 else 1
        for mon, cf in pr.terms():
            stripped += Rg0.term_new(tuple(e_ - m_ for e_, m_ in zip(mon, mn)), cf / g0 if g0 > 1 else cf)
        if len(stripped.terms()) < 2:
            continue
        hypJ.append(_poly_to_term(stripped, idl.order))
        acc.notes.append("J_%s = %s" % (lab, str(stripped.as_expr())[:200]))
    need(hypJ, "no state invariant found for %s" % name)
    raw = model.oncurve(outD)
    # (E)
    e0 = None
    for cand, refo in ((1, outF), (0, model.embed(A))):
        if all(prove_zero(t, make_ideal(model, A.hyps, [t]), Z3_TIMEOUT_MS).ok
               for _, t in model.same_element(outA, refo)):
            e0 = cand
            for lab, t in model.same_element(outA, refo):
                acc.zero("E:" + lab, t, model, A.hyps)
            break
    baseA = outA
    if e0 is None:
        # the exit path may include a fixed translation (GLS254 adds N on exit):
        # take one loop iteration as the base case, exit(body(entry(P))) ~ 2P
        if all(prove_zero(t, make_ideal(model, A.hyps, [t]), Z3_TIMEOUT_MS).ok
               for _, t in model.same_element(outA1, outF)):
            e0 = 0
            baseA = outA1
            for lab, t in model.same_element(outA1, outF):
                acc.zero("E1:" + lab, t, model, A.hyps)
            acc.notes.append("base case taken after one loop iteration")
            if m < 1:
                acc.fail("no loop iteration for n = %d" % n)
    outA = baseA
    if e0 is None:
        acc.fail("exit(entry(P)) is neither P nor 2P, and exit(body(entry(P))) is not 2P")
    else:
        acc.zero("I0:on-curve", model.oncurve(outA), model, A.hyps)
        nzA = list(A.nz)
        if isinstance(model, GLS254):
            nzA = gls_nz(model, [A], [A.xy[0] + 1])
        elif not isinstance(model, Weierstrass):
            nzA += [d for _, d in model.law(A.xy, A.xy)]
        acc.nonvanishing("E:Z", outA[2], model, A.hyps, nzA)
        if e0 + m != n:
            acc.fail("doubling count: entry %d + %d loop iterations != n = %d" % (e0, m, n))
    # (I0), (I1), (V)
    sub_e = dict(zip(["q" + nm for nm in names], st["entry"]))
    sub_b = dict(zip(["q" + nm for nm in names], st["body"]))
    for i, J in enumerate(hypJ):
        acc.zero("I0:J%d(entry)" % i, R.substitute([J], sub_e)[0], model, A.hyps)
        acc.zero("I1:J%d(body(s))" % i, R.substitute([J], sub_b)[0], model, hypJ)
    acc.zero("V:exit(s) on curve", raw, model, hypJ)
    if hasattr(model, "validity"):
        for lab, t in model.validity(outD):
            acc.zero("V:" + lab, t, model, hypJ)
    # (C)
    for lab, t in model.same_element(outC, outD2):
        acc.zero("C:" + lab, t, model, hypJ)
    if model.family == "jq":
        vi = model.represents(outC, model.law((R.ONE, R.ZERO), (R.ONE, R.ZERO)))[-1]
        acc.zero("C:" + vi[0], vi[1], model, hypJ)
    ok = False
    try:
        ideal = make_ideal(model, hypJ, [outD2[2], outC[2]])
        zc = ideal.poly(outC[2])
        zd = ideal.poly(outD2[2])
        Rg, gens, K, H = ideal.ring()
        if model.char2:
            R2, H2 = ideal._ring2
            q2, r2 = ideal._to2(zd, R2).div([ideal._to2(zc, R2)] + H2)
            q, r = [_lift2(q2[0], Rg)], _lift2(r2, Rg)
        else:
            q, r = zd.div([zc] + H)
        if r == 0:
            Kt = _poly_to_term(q[0], ideal.order)
            ok = acc.zero("C:Z(dbl(exit s)) = K*Z(exit(body s))", outD2[2] - Kt * outC[2], model, hypJ)
            acc.notes.append("K = %s" % str(q[0].as_expr())[:200])
    except Exception as e:  # noqa
        acc.unknowns.append("non-degeneracy certificate search failed: %s" % e)
    if not ok and not acc.fails and not acc.unknowns:
        acc.unknowns.append("no non-degeneracy certificate for the loop body")
    if undecA or undecC or undecD or undecE:
        acc.trusted.append("selection atoms on internal Z coordinates resolved to `non-zero` (valid non-neutral "
                           "state: the group has odd order)")
    acc.trusted.extend(model.trusted)
    acc.trusted.append("composition of the segment lemmas by induction on the loop counter (meta-argument)")
    return acc.ob()


# --------------------------------------------------------------------------
# operators and set_mul_small

class GroupV:
    """k*P in the free abelian group on one generator"""
    __slots__ = ("k",)

    def __init__(self, k):
        self.k = k

    def __repr__(self):
        return "[%d]P" % self.k


def group_hooks(g, counter):
    inner = g.inner_mod

    def gv(x):
        v = x.get() if isinstance(x, Ref) else x
        if not isinstance(v, GroupV):
            raise MirError("expected an abstract group element, got %r" % (v,))
        return v

    def call_hook(interp, fr, cal, args):
        if cal.self_short != "Point" or cal.self_mod != inner or cal.trait is not None:
            return NotImplemented
        m = cal.method
        if m == "set_add":
            args[0].set(GroupV(gv(args[0]).k + gv(args[1]).k))
        elif m == "set_sub":
            args[0].set(GroupV(gv(args[0]).k - gv(args[1]).k))
        elif m == "set_double":
            args[0].set(GroupV(2 * gv(args[0]).k))
        elif m == "set_xdouble":
            if not isinstance(args[1], IntV):
                raise MirError("symbolic doubling count")
            args[0].set(GroupV(gv(args[0]).k << args[1].v))
        elif m == "set_neg":
            args[0].set(GroupV(-gv(args[0]).k))
        else:
            return NotImplemented
        counter[m] = counter.get(m, 0) + 1
        from engines.polyid.interp import UNIT
        return UNIT

    def const_hook(interp, text):
        if text.endswith("::NEUTRAL") and "Point" in text:
            if text.startswith(g.module + "::") and g.wrap:
                return Agg("struct", [GroupV(0)], g.module + "::Point")
            return GroupV(0)
        return NotImplemented
    return call_hook, const_hook


def task_mul_small(gname):
    g = G(gname)
    results = []
    fns = set()
    ops = 0
    for n in MUL_SMALL_N:
        counter = {}
        ch, kh = group_hooks(g, counter)
        it = g.interp(call_hook=ch, const_hook=kh)
        item = g.fn(it, "set_mul_small")
        P = Agg("struct", [GroupV(1)], g.module + "::Point") if g.wrap else GroupV(1)
        c1 = Cell(P)
        it.run(item, [Ref(c1), IntV(n, 64)])
        v = c1.val.fields[0] if g.wrap else c1.val
        results.append((n, v.k))
        fns |= set(fn_names(it))
        ops += sum(counter.values())
    need(ops >= len(MUL_SMALL_N), "%s.set_mul_small executed no group operation" % gname)
    acc = Acc("%s.set_mul_small:schedule" % gname, sorted(fns),
              "set_mul_small(P, n), executed with set_add/set_xdouble/set_neg abstracted to the group law "
              "(their own obligations), yields the coefficient n",
              dict(group=gname, func="set_mul_small", case="generic", n=0),
              bounds="n in {0..%d and %d larger values up to 2^64-1}; abstract group Z*P"
                     % (max(i for i in range(200) if i in MUL_SMALL_N and all(j in MUL_SMALL_N for j in range(i))),
                        len([x for x in MUL_SMALL_N if x > 200])))
    import z3
    t0 = time.time()
    s = z3.Solver()
    s.add(z3.Or([z3.IntVal(k) != z3.IntVal(n) for n, k in results]))
    r = str(s.check())
    acc.secs += time.time() - t0
    acc.nchecks += 1
    bad = [(n, k) for n, k in results if n != k]
    if r != "unsat" or bad:
        acc.fail("coefficient mismatch: %r" % bad[:4])
        acc.hint["n"] = bad[0][0] if bad else 0
    return [acc.ob()], {}


def operator_impls(module):
    out = []
    for meth in ("add", "sub", "neg", "add_assign", "sub_assign", "mul", "mul_assign"):
        for nm in MIR.by_last.get(meth, []):
            if not nm.startswith(module + "::<impl"):
                continue
            for which, (kind, s, e) in enumerate(MIR.items[nm]):
                if kind == "fn":
                    out.append((meth, nm, which))
    return out


def task_operators(gname):
    g = G(gname)
    model = g.model
    A1, A2 = model.generic("1"), model.generic("2")
    F1, F2 = model.embed(A1), model.embed(A2)
    ref = {}
    fns = set()
    for meth, args in (("set_add", 2), ("set_sub", 2), ("set_neg", 1)):
        it = g.interp()
        c1 = Cell(g.point(F1))
        a = [Ref(c1)] + ([Ref(Cell(g.point(F2)))] if args == 2 else [])
        it.run(g.fn(it, meth), a)
        ref[meth] = g.fields(c1.val)
        fns |= set(fn_names(it))
    acc = Acc("%s.operators" % gname, [], "the operator impls (+, -, unary -, +=, -= in all by-value/by-reference "
              "forms) compute exactly set_add / set_sub / set_neg; `* u64` forms compute set_mul_small",
              dict(group=gname, func="operators", case="generic", n=0),
              bounds="none: syntactic/polynomial equality of the executed terms")
    pt = g.module + "::Point"
    nrun = 0
    for meth, nm, which in operator_impls(g.module):
        body = MIR.body(nm, which)
        ptys = [t for _, t in body.params]
        kinds = []
        for t in ptys:
            pre, last, mod = short_type(t)
            if last == "Point" and mod == g.module:
                kinds.append("ref" if pre else "val")
            elif t.strip() == "u64":
                kinds.append("u64")
            else:
                kinds.append(None)
        if None in kinds:
            continue
        if "u64" in kinds:
            for n in (0, 1, 2, 5, 16):
                counter = {}
                ch, kh = group_hooks(g, counter)
                it = g.interp(call_hook=ch, const_hook=kh)
                P = Agg("struct", [GroupV(1)], pt) if g.wrap else GroupV(1)
                cell = Cell(P)
                a = [(Ref(cell) if k == "ref" else (P if k == "val" else IntV(n, 64))) for k in kinds]
                rv = it.run((nm, which), a)
                res = cell.val if meth == "mul_assign" else rv
                v = res.fields[0] if g.wrap else res
                nrun += 1
                acc.nchecks += 1
                fns |= set(fn_names(it))
                if not isinstance(v, GroupV) or v.k != n:
                    acc.fail("%s(%s) with n=%d gives %r" % (meth, ",".join(kinds), n, v))
            continue
        it = g.interp()
        cells = [Cell(g.point(F1)), Cell(g.point(F2))]
        a = [(Ref(cl) if k == "ref" else cl.val) for k, cl in zip(kinds, cells)]
        rv = it.run((nm, which), a)
        res = cells[0].val if meth.endswith("_assign") else rv
        out = g.fields(res)
        want = ref[{"add": "set_add", "add_assign": "set_add", "sub": "set_sub", "sub_assign": "set_sub",
                    "neg": "set_neg"}[meth]]
        fns |= set(fn_names(it))
        nrun += 1
        for lab, o_, w_ in zip(model.coords, out, want):
            if o_ is w_:
                acc.nchecks += 1
            else:
                acc.zero("%s(%s).%s" % (meth, ",".join(kinds), lab), o_ - w_, model, [])
    need(nrun >= 5, "%s: only %d operator impls found" % (gname, nrun))
    acc.functions = sorted(fns)
    return [acc.ob()], {}


# --------------------------------------------------------------------------
# worker entry

def work(task):
    kind = task[0]
    if kind == "binop":
        return task_binop(*task[1:])
    if kind == "double":
        return task_double(task[1])
    if kind == "neg":
        return task_neg(task[1])
    if kind == "xdouble":
        return task_xdouble(task[1], task[2])
    if kind == "mul_small":
        return task_mul_small(task[1])
    if kind == "operators":
        return task_operators(task[1])
    raise Machinery("unknown task %r" % (task,))


def tasks_for(gname):
    d = GROUPS[gname]
    ts = [("binop", gname, "set_add", False, "point"), ("binop", gname, "set_sub", True, "point")]
    if d["affine"]:
        opk, ty, fa, fs = d["affine"]
        ts.append(("binop", gname, fa, False, opk))
        ts.append(("binop", gname, fs, True, opk))
    ts += [("double", gname), ("neg", gname)]
    ts += [("xdouble", gname, n) for n in XDOUBLE_N]
    ts += [("mul_small", gname), ("operators", gname)]
    return ts


# --------------------------------------------------------------------------
# native replay of candidates, spec validation

ENC = {c: 32 for c in RP.CURVES}
ENC["ed448"] = 56
ENC["decaf448"] = 56
ENC["gls254"] = 32


def concrete_instances(g, hint, rng, count=6):
    """(label, P, Q) concrete affine operands for the case of a candidate"""
    m = g.model
    case = hint["case"]
    out = []
    for i in range(count):
        P, Q = m.c_rand(rng), m.c_rand(rng)
        if case == "P=Q":
            Q = P
        elif case == "P=-Q":
            Q = m.c_neg(P)
        elif case.startswith("P=neutral") or case.startswith("both"):
            P = m.c_neutral()
        if case.startswith("Q=neutral") or case.startswith("both"):
            Q = m.c_neutral()
        if case in ("neutral", "neutral+"):
            P = m.c_neutral() if case == "neutral" else (1, 0)
        if case == "order2" or case == "P=order2":
            P = (0, m.p - 1)
        if case == "Q=order2":
            Q = (0, m.p - 1)
        if case in ("Q=neutral+",):
            Q = (1, 0)
        if case in ("P=neutral+",):
            P = (1, 0)
        out.append((P, Q))
    return out


def native_requests(g, hint, rng, count=6):
    """list of (request, expected affine) for a hint"""
    m = g.model
    func = hint["func"]
    reqs = []
    p = m.p
    for P, Q in concrete_instances(g, hint, rng, count):
        z1, z2 = m.c_scalar(rng), m.c_scalar(rng)
        F1 = m.c_embed(P, z1)
        n = hint.get("n", 0)
        if func in ("set_add", "set_sub"):
            reqs.append(((g.name, func, 0, F1 + m.c_embed(Q, z2)), m.c_add(P, m.c_neg(Q) if func == "set_sub" else Q)))
        elif func in ("set_add_duif", "set_sub_duif"):
            x, y = Q
            d2 = 2 * m.dv % p
            reqs.append(((g.name, func, 0, F1 + [(y + x) % p, (y - x) % p, d2 * x * y % p]),
                         m.c_add(P, m.c_neg(Q) if "sub" in func else Q)))
        elif func in ("set_add_affine", "set_sub_affine", "set_add_affine_extended", "set_sub_affine_extended"):
            if Q is None:
                Q2 = m.c_rand(rng)
                reqs.append(((g.name, func, 0xFFFFFFFF, F1 + list(Q2)), P))
                continue
            if m.char2:
                from engines.polyid.curves import F254
                isb = F254.inv(m.cSB)
                extra = [F254.mul(Q[0], isb), F254.mul(Q[1], isb)]
            else:
                extra = list(Q) + ([Q[1] * Q[1] % p] if "extended" in func else [])
            if hint.get("n") == 0xFFFFFFFF:
                reqs.append(((g.name, func, 0xFFFFFFFF, F1 + extra), P))
            else:
                reqs.append(((g.name, func, 0, F1 + extra), m.c_add(P, m.c_neg(Q) if "sub" in func else Q)))
        elif func == "set_double":
            reqs.append(((g.name, func, 0, F1), m.c_add(P, P)))
        elif func == "set_neg":
            reqs.append(((g.name, func, 0, F1), m.c_neg(P)))
        elif func == "set_xdouble":
            E = P
            for _ in range(n):
                E = m.c_add(E, E)
            reqs.append(((g.name, func, n, F1), E))
        elif func == "set_mul_small":
            for nn in ([n] if n else [2, 3, 5, 7, 16]):
                E = m.c_neutral()
                for bit in bin(nn)[2:]:
                    E = m.c_add(E, E)
                    if bit == "1":
                        E = m.c_add(E, P)
                reqs.append(((g.name, func, nn, F1), E))
        elif func == "operators":
            S_, D_ = m.c_add(P, Q), m.c_add(P, m.c_neg(Q))
            FQ = m.c_embed(Q, z2)
            for v in ("vv", "vr", "rv", "rr", "assign_v", "assign_r"):
                reqs.append(((g.name, "op_add_" + v, 0, F1 + FQ), S_))
                reqs.append(((g.name, "op_sub_" + v, 0, F1 + FQ), D_))
            for v in ("v", "r"):
                reqs.append(((g.name, "op_neg_" + v, 0, F1), m.c_neg(P)))
            E5 = m.c_add(m.c_add(m.c_add(P, P), m.c_add(P, P)), P)
            for v in ("vn", "rn", "nv", "nr", "assign"):
                reqs.append(((g.name, "op_mul_" + v, 5, F1), E5))
    return reqs


def native_check(rp, g, hint, rng, count=6):
    """returns (n_checked, first mismatch dict or None, error text or None)"""
    reqs = native_requests(g, hint, rng, count)
    if not reqs:
        return 0, None, "no native request for %r" % (hint,)
    res = rp.run([r for r, _ in reqs], ENC)
    m = g.model
    checked = 0
    for (req, exp), r in zip(reqs, res):
        if r[0] == "error":
            return checked, None, r[1]
        if r[0] == "panic":
            return checked, dict(key="%s.%s" % (g.name, hint["func"]), request=_fmt(req), native="panic"), None
        got, valid = m.c_decode(r[1])
        checked += 1
        same = m.c_same(got, exp) if (got is not None or exp is not None) else True
        if got is None and exp is None:
            same = True
        if not valid or not same:
            return checked, dict(key="%s.%s" % (g.name, hint["func"]), case=hint.get("case"),
                                 request=_fmt(req), native_output=[hex(v) for v in r[1]],
                                 native_affine=_aff(got), expected_affine=_aff(exp),
                                 valid_representation=bool(valid)), None
    return checked, None, None


def _fmt(req):
    return dict(curve=req[0], func=req[1], n=req[2], coords=[hex(v) for v in req[3]])


def _aff(P):
    return None if P is None else [hex(v) for v in P]


# --------------------------------------------------------------------------

def eval_gf2(t, consts):
    """evaluate a characteristic-2 constant term in GF(2^254) (packed int)"""
    from engines.polyid.curves import F254
    memo = {}
    for x in R.topo([t]):
        a = [memo[y.id] for y in x.args]
        if x.op == "sym":
            if x.aux == "u":
                r = F254.pack(0, 1)
            elif x.aux == "sb":
                r = (1 << 27) | 1
            else:
                r = consts[x.aux]
        elif x.op == "const":
            r = int(x.aux) & 1
        elif x.op in ("add", "sub"):
            r = a[0] ^ a[1]
        elif x.op == "mul":
            r = F254.mul(a[0], a[1])
        elif x.op == "neg":
            r = a[0]
        else:
            raise ValueError(x.op)
        memo[x.id] = r
    return memo[t.id]


def library_base(m):
    """coordinates of the library's Point::BASE as concrete field values"""
    it = Interp(MIR, char2=m.char2)
    base = it.const_value("%s::Point::BASE" % m.module)
    decl = m.struct_fields(MIR, "Point")
    by = dict(zip(decl, base.fields))
    vals = []
    for cn in m.coords:
        t = by[cn]
        if m.char2:
            vals.append(eval_gf2(t, it.named_consts))
        elif R.is_const(t):
            vals.append(int(t.aux) % m.p)
        else:
            vals.append(it.named_consts[t.aux] % m.p)
    return vals


def ground_facts(consts, obs):
    facts = []

    def fact(name, okv):
        facts.append({"fact": name, "ok": bool(okv)})
    from engines.polyid.curves import legendre
    used = {GROUPS[o.hint["group"]]["model"] for o in obs if getattr(o, "hint", None)}
    for m in MODELS.values():
        if m.name not in used:
            continue
        for sym_, text, pred in getattr(m, "const_relations", []):
            if sym_ in consts:
                fact("%s: %s" % (m.name, text), pred(consts[sym_], m.p))
            # a constant that no executed function reads needs no relation
        if isinstance(m, Edwards):
            fact("%s: d is a non-square mod p" % m.name, legendre(m.dv, m.p) == -1)
            fact("%s: a is a square mod p" % m.name, legendre(m.a, m.p) == 1)
        if isinstance(m, JacobiQuartic):
            fact("%s: b' = a^2-4b is a non-square mod p" % m.name, legendre(m.bp, m.p) == -1)
        # the library's base point satisfies the model's curve equation
        try:
            P, valid = m.c_decode(library_base(m))
            fact("%s: Point::BASE is a valid point of the model curve" % m.name, valid and P is not None)
        except Exception as e:  # noqa
            fact("%s: Point::BASE evaluation (%s)" % (m.name, e), False)
        if isinstance(m, GLS254):
            from engines.polyid.curves import F254, f127_mul
            fact("gls254: sqrt(b)^2 = b = 1 + z^54 in GF(2^127)", f127_mul(m.cSB, m.cSB) == m.cB)
            uu = F254.mul(m.cU, m.cU)
            fact("gls254: u^2 + u + 1 = 0", uu ^ m.cU ^ 1 == 0)
            for lab, t, hy in m.spec_lemmas():
                res = prove_zero(t, make_ideal(m, hy, [t]), Z3_TIMEOUT_MS)
                fact("gls254 spec lemma (z3 %s): %s on the curve" % (res.status, lab), res.ok)
    # certificate denominators / multipliers invertible
    for o in obs:
        d = getattr(o, "denoms", 1)
        if d != 1:
            g = GROUPS.get(o.hint["group"])
            p = MODELS[g["model"]].p
            if MODELS[g["model"]].char2:
                continue
            if math.gcd(d, p) != 1:
                fact("%s: certificate denominator %d invertible mod p" % (o.name, d), False)
    dens = sorted({getattr(o, "denoms", 1) for o in obs})
    fact("certificate denominators %r are coprime to every field prime" % dens[:12],
         all(math.gcd(d, m.p) == 1 for d in dens for m in MODELS.values() if not m.char2))
    return facts


def run(tier, only=None):
    global MIR, MODELS, Z3_TIMEOUT_MS, XDOUBLE_N, MUL_SMALL_N
    t0 = time.time()
    Z3_TIMEOUT_MS = 30000 if tier == "quick" else 300000
    if tier != "quick":
        XDOUBLE_N[:] = [1, 2, 3, 4, 5]
        MUL_SMALL_N[:] = sorted(set(list(range(0, 130)) + MUL_SMALL_N + [2 ** k - 1 for k in range(8, 65, 8)]
                                    + [2 ** k + 1 for k in range(8, 64, 8)]))
    MODELS = models()
    only = list(only or [])
    groups = [gname for gname in GROUPS if gname in only] or list(GROUPS)
    fsel = [o for o in only if o not in GROUPS]
    rp = RP.Replay([gname for gname in RP.CURVES])
    th = threading.Thread(target=rp.build, daemon=True)
    th.start()
    merr = None
    obs = []
    consts = {}
    try:
        MIR, mir_secs, sc = dump_mir()
    except Exception as e:  # noqa
        th.join()
        return finish("C03", tier, [], t0, machinery_error="MIR dump failed: %s" % str(e)[:800])
    log("C03: MIR dump %.1fs, %d items" % (mir_secs, len(MIR.items)))
    try:
        gm = MODELS["gls254"]
        gm.base = gm.c_decode(library_base(gm))[0]
    except Exception as e:  # noqa
        log("C03: GLS254 base point not available: %s" % e)
    tasks = []
    for gname in groups:
        for t in tasks_for(gname):
            if fsel and not any(f in str(t) or f.replace("set_", "") in str(t) for f in fsel):
                continue
            tasks.append(t)
    if not tasks:
        th.join()
        return finish("C03", tier, [], t0, machinery_error="no task selected by --only %r" % (only,))
    res = pmap(work, tasks, nproc=NCPU, timeout=200 if tier == "quick" else 1500)
    for t, (stt, val) in zip(tasks, res):
        if stt == "ok":
            o, cs = val
            obs.extend(o)
            consts.update(cs)
        else:
            o = Obligation("%s.%s:%s" % (t[1], t[2] if len(t) > 2 and isinstance(t[2], str) else t[0],
                                         "task"), "P")
            o.hint = None
            o.candidate = False
            o.unknown("%s: %s" % (stt, str(val)[:400]))
            obs.append(o)
            if stt == "err":
                merr = "task %r: %s" % (t, str(val)[:600])
    log("C03: %d obligations in %.1fs" % (len(obs), time.time() - t0))
    # ---- native side: candidates and spec validation
    th.join()
    rng = random.Random(SEED or 20261002)
    native = {"checked": 0, "failed": 0, "error": rp.error}
    gobjs = {}
    pending = []

    def gobj(name):
        if name not in gobjs:
            gobjs[name] = G(name)
        return gobjs[name]
    if rp.exe:
        # spec validation: the Python group laws against the library on random operands
        seen = set()
        for o in obs:
            h = getattr(o, "hint", None)
            if not h or h["func"] == "operators" and o.verdict != "discharged":
                pass
            if not h:
                continue
            key = (h["group"], h["func"], h["case"], h.get("n", 0))
            if key in seen:
                continue
            seen.add(key)
            cnt = 2 if o.verdict == "discharged" else 8
            try:
                n, mism, err = native_check(rp, gobj(h["group"]), h, rng, cnt)
            except Exception as e:  # noqa
                n, mism, err = 0, None, "native check error: %s" % e
            native["checked"] += n
            same_key = [x for x in obs if getattr(x, "hint", None) and
                        (x.hint["group"], x.hint["func"], x.hint["case"], x.hint.get("n", 0)) == key]
            if mism is not None:
                native["failed"] += 1
                if all(x.verdict == "discharged" for x in same_key):
                    pending.append((o.name, h["group"], mism))
                for x in same_key:
                    if x.verdict != "discharged":
                        x.fail(mism, x.solver, x.seconds, x.queries)
            elif err and o.verdict != "discharged":
                o.reason += " | native replay unavailable: %s" % err[:200]
            elif o.verdict != "discharged" and getattr(o, "candidate", False):
                o.reason += " | native replay of %d concrete instances agrees with the oracle" % n
        # a native disagreement on a discharged obligation is explained when the
        # obligation is relative to functions of the same curve whose own
        # obligations are violated (operators / schedules / wrappers); otherwise
        # the machinery contradicts itself
        for oname, gname, mism in pending:
            mdl = GROUPS[gname]["model"]
            if not any(x.verdict == "violated" and getattr(x, "hint", None) and
                       GROUPS[x.hint["group"]]["model"] == mdl for x in obs):
                merr = "native disagreement on a discharged obligation %s: %r" % (oname, mism)
    else:
        for o in obs:
            if o.verdict != "discharged":
                o.reason += " | native replay not built: %s" % (rp.error or "")[:200]
    facts = ground_facts(consts, obs)
    bad = [f for f in facts if not f["ok"]]
    if bad and not merr:
        # a failed ground fact invalidates the stub it supports: report, do not alarm
        for o in obs:
            if o.verdict != "discharged" or not getattr(o, "hint", None):
                continue
            mine = [f for f in bad if f["fact"].startswith(GROUPS[o.hint["group"]]["model"] + ":")
                    or f["fact"].startswith("certificate")]
            if mine:
                o.unknown("ground fact failed: %s" % mine[0]["fact"], o.solver, o.seconds, o.queries)
    trusted = sorted({t for o in obs for t in getattr(o, "trusted", [])})
    return finish(
        "C03", tier, obs, t0,
        functions_encoded=sorted({f for o in obs for f in o.functions}),
        bounds={"operands": BOUNDS,
                "set_xdouble": "n in %r executed; loop-body lemma holds for any n" % (XDOUBLE_N,),
                "set_mul_small": "n in %r" % (MUL_SMALL_N,),
                "configuration": "default features, 64-bit backend, MIR of the dev profile"},
        stubs={"field operations (add/sub/mul/square/neg/half/mulK/mul_small) -> exact ring operations": "C01",
               "select/set_cond/iszero/equals -> ite / zero test": "C20",
               "field constants -> integer value of their limbs (w64be/w64le)": "ground facts"},
        assumptions=["MIR semantics as implemented in engines/polyid/interp.py (cross-checked against the native "
                     "build on random operands on every run)",
                     "affine group laws in engines/polyid/curves.py (validated natively; jq255 through the "
                     "double-odd Weierstrass curve)"] + trusted,
        outside=["equals/isneutral/encode (C06)", "set_mul_small for n outside the listed set",
                 "set_xdouble n > 3 (composition argument only)"],
        ground_facts={"checked": len(facts) + native["checked"], "failed": len(bad) + native["failed"],
                      "facts": facts, "native_spec_validation": native},
        extra={"mir_seconds": round(mir_secs, 1), "replay_build_seconds": round(rp.secs, 1)},
        machinery_error=merr)


def replay(path):
    """re-run the native request stored in a replay file against the current
    /repo working tree and compare with the stored expectation"""
    import json
    global MODELS
    with open(path) as fh:
        d = json.load(fh)
    model = d["obligation"].get("model") or {}
    req = model.get("request")
    if not req:
        print("replay: no native request in %s" % path)
        return 2
    MODELS = models()
    rp = RP.Replay([req["curve"]])
    if not rp.build():
        print("replay: harness build failed: %s" % (rp.error or "")[-400:])
        return 2
    r = rp.run([(req["curve"], req["func"], req["n"], [int(v, 16) for v in req["coords"]])], ENC)[0]
    m = MODELS[GROUPS[req["curve"]]["model"]]
    if r[0] == "panic":
        print("REPRODUCED: native panic")
        return 1
    if r[0] != "ok":
        print("replay: native run failed: %r" % (r,))
        return 2
    got, valid = m.c_decode(r[1])
    exp = model.get("expected_affine")
    exp = None if exp is None else tuple(int(v, 16) for v in exp)
    same = (got is None and exp is None) or (got is not None and exp is not None and m.c_same(got, exp))
    print("native output:", [hex(v) for v in r[1]])
    print("native affine:", _aff(got), "valid representation:", valid)
    print("expected     :", _aff(exp))
    if valid and same:
        print("NOT REPRODUCED: the current tree returns the expected group element")
        return 0
    print("REPRODUCED: property=C03 key=%s" % model.get("key"))
    return 1
