"""C04 Scalar multiplication returns [n]P for every scalar and point.

Engine P, algorithm mode (engines/polyid/algo.py): `set_mul` / `set_mulgen`
are executed from their MIR over the free module (Z or Z[mu]) with the
recoders, scalar splits and masked lookups replaced by their contracts and the
point operations by the group law (C03); z3 decides that the coefficient of
the result is the scalar.  Table contents are ground facts checked natively.
See engines/polyid/NOTES.md."""
import random
import re
import threading
import time
import traceback

import z3

from vlib.common import Obligation, finish, log, NCPU, SEED
from vlib.par import pmap
from engines.polyid.build import dump_mir
from engines.polyid.interp import Cell, Ref, IntV, Agg, MirError, Unsupported
from engines.polyid.algo import (AlgoInterp, Config, Lin, ScalarTok, SymV, NotAbstractable, decide, _iv)
from engines.polyid.curves import models
from engines.polyid import replay as RP

MIR = None
MODELS = None
Z3_TIMEOUT_MS = 60000
Z3_VERSION = "z3 " + z3.get_version_string()


def T4(g, shifts=(0, 65, 130, 195)):
    return {("PRECOMP_%s%s" % (g, s if s else "")): (s, "all", "B") for s in shifts}


# recoder contracts: name -> (digits, window bits, lo, hi, top lo, top hi)  [doc comments of the recoders]
CURVES = {
    "ed25519": dict(model="ed25519", cfg=dict(affine="PointDuif", lookups=["lookup", "lookup_duif"],
                                               recoders={"recode_scalar": (51, 5, -15, 16, 0, 4)},
                                               tables=T4("B"))),
    "p256": dict(model="p256", cfg=dict(affine="PointAffine",
                                         lookups=["lookup", "lookup_affine", "lookup_affine_proj"],
                                         recoders={"recode_scalar": (52, 5, -15, 16, 0, 2)}, tables=T4("G"))),
    "jq255e": dict(model="jq255e", cfg=dict(affine="PointAffineExtended", endo=(-1, 0),
                                             lookups=["lookup", "lookup_affine_extended"],
                                             recoders={"recode_u128": (26, 5, -15, 16, 0, 8)},
                                             splits={"split_mu": 1}, tables=T4("B", (0, 30, 65, 95)))),
    "ed448": dict(model="ed448", cfg=dict(affine="PointAffine", lookups=["lookup", "lookup_affine"],
                                           recoders={"recode_scalar": (90, 5, -15, 16, 0, 2)},
                                           tables=T4("B", (0, 75, 150, 225, 300, 375)))),
    "secp256k1": dict(model="secp256k1", cfg=dict(affine="PointAffine", endo=(-1, -1),
                                                   lookups=["lookup", "lookup_affine", "lookup_affine_proj"],
                                                   recoders={"recode_scalar": (52, 5, -15, 16, 0, 2),
                                                             "recode_u128": (26, 5, -15, 16, 0, 8)},
                                                   splits={"split_theta": 1}, tables=T4("G"))),
    "jq255s": dict(model="jq255s", cfg=dict(affine="PointAffineExtended",
                                             lookups=["lookup", "lookup_affine_extended"],
                                             recoders={"recode_scalar": (52, 5, -15, 16, 0, 1)}, tables=T4("B"))),
    "gls254": dict(model="gls254", cfg=dict(affine="PointAffine", endo=(-1, 0),
                                             lookups=["lookup16_affine", "lookup16_affine_zeta", "lookup8_affine",
                                                      "lookup8_affine_zeta", "lookup4_affine", "lookup4_affine_zeta",
                                                      "lookup16", "lookup8", "lookup4", "lookup16_affine_vartime",
                                                      "lookup16_affine_zeta_vartime", "lookup16_vartime",
                                                      "lookup16_zeta_vartime"],
                                             recoders={"recode5_u128": (26, 5, -15, 16, 0, 8),
                                                       "recode4_u128": (32, 4, -7, 8, 0, 8),
                                                       "recode5_u64": (13, 5, -15, 16, 0, 16)},
                                             splits={"split_mu": 1}, tables=T4("B", (0, 30, 65, 95)))),
    # wrappers: their set_mul / set_mulgen delegate to the Edwards point
    "ristretto255": dict(model="ed25519", base="ed25519", wrap=True),
    "decaf448": dict(model="ed448", base="ed448", wrap=True),
}
QUICK = ["ed25519", "p256", "jq255e"]
TRUSTED = {
    "jq255e": "zeta is the endomorphism with eigenvalue mu, mu^2 = -1 mod r (eprint 2022/1052)",
    "gls254": "zeta is the endomorphism with eigenvalue mu, mu^2 = -1 mod r (eprint 2022/748)",
    "secp256k1": "zeta is the GLV endomorphism (x,y) -> (epsilon*x, y) with eigenvalue theta, theta^2+theta+1 = 0",
}


class Machinery(Exception):
    pass


def config_for(name):
    d = CURVES[name]
    base = d.get("base", name)
    c = CURVES[base]["cfg"]
    return Config(base, **c), base


def run_routine(name, fn):
    """execute `fn` of curve `name`; returns (interp, out Lin, scalar token, gen)"""
    cfg, base = config_for(name)
    it = AlgoInterp(MIR, cfg)
    gen = "P" if fn == "set_mul" else "B"
    start = Lin.gen("P" if fn == "set_mul" else "SELF")
    inner = it.wrap(start)
    val = Agg("struct", [inner], name + "::Point") if CURVES[name].get("wrap") else inner
    cell = Cell(val)
    n = ScalarTok("n")
    item = it.find_fn(name, "Point", fn)
    it.run(item, [Ref(cell), Ref(Cell(n))])
    res = cell.val.fields[0] if CURVES[name].get("wrap") else cell.val
    return it, it.as_lin(res), n, gen


def fn_names(it):
    return sorted(n for n in it.executed if "::<impl" in n and not n.rsplit("::", 1)[-1].isupper()
                  and "promoted" not in n)


def task_mul(name, fn):
    t0 = time.time()
    oname = "%s.%s:coefficient" % (name, fn)
    hint = dict(curve=name, func=fn)
    o = Obligation(oname, "P", [], "all scalars (symbolic digit vectors in the recoders' documented ranges; all "
                   "sign combinations of the split); free module over " +
                   ("Z[mu]" if CURVES[CURVES[name].get("base", name)]["cfg"].get("endo") else "Z"),
                   "%s executed from MIR with recoders / splits / lookups replaced by their contracts yields the "
                   "scalar as coefficient of %s" % (fn, "P" if fn == "set_mul" else "the generator"))
    o.hint = hint
    o.candidate = False
    o.model_digits = None
    try:
        it, out, n, gen = run_routine(name, fn)
    except NotAbstractable as e:
        o.unknown("not abstractable: %s" % str(e)[:300])
        o.not_abstractable = True
        return [o]
    o.functions = fn_names(it)
    nops = sum(v for k, v in it.ops.items() if k.startswith(("set_add", "set_sub", "set_xdouble", "set_double")))
    if nops < 10 or it.ops.get("lookup", 0) < 10 or it.ops.get("recode", 0) < 1:
        raise Machinery("%s.%s executed too few abstract operations: %r" % (name, fn, it.ops))
    queries = 0
    secs = 0.0
    problems = []
    unknowns = []
    # rewrite lemmas must all have been proved
    for lab, st, s_ in it.lemmas:
        queries += 1
        secs += s_
        if st != "unsat":
            unknowns.append("lemma not proved (%s): %s" % (st, lab))
    # the claim
    if it.splits_seen:
        src, k0, k1 = it.splits_seen[0]
        want = {(gen, 0): k0, (gen, 1): k1}
    else:
        if len(it.recoded) != 1:
            raise Machinery("%s.%s: %d scalars recoded" % (name, fn, len(it.recoded)))
        src = it.recoded[0]
        want = {(gen, 0): src.value}
    if src is not n:
        if src.rel and src.rel[0] == "mul2" and src.rel[1] is n:
            o.desc += ("; the routine first doubles the scalar in the scalar field (n' = 2n mod L, C01): the "
                       "coefficient is n' on the Edwards generator, i.e. n on this group's BASE = 2*B (ground fact)")
        else:
            raise Machinery("%s.%s: recoded scalar is not the argument" % (name, fn))
    keys = set(out.keys()) | set(want)
    goal = z3.And([_iv(out.get(k)) == _iv(want.get(k, 0)) for k in sorted(keys)])
    st, s_, mdl = decide(it.assumptions, goal, Z3_TIMEOUT_MS)
    queries += 1
    secs += s_
    if st == "sat":
        problems.append("coefficient differs from the scalar")
        o.model_digits = model_scalar(it, mdl)
    elif st != "unsat":
        unknowns.append("coefficient query: " + st)
    # side conditions: lookup indices inside the window, control words 0/all-ones, bounds checks
    side = {}
    for lab, c in it.side:
        side.setdefault(lab, []).append(c)
    for lab, cs in side.items():
        st, s_, mdl = decide(it.assumptions, z3.And(cs), Z3_TIMEOUT_MS)
        queries += 1
        secs += s_
        if st == "sat":
            problems.append("side condition fails: " + lab)
            o.model_digits = o.model_digits or model_scalar(it, mdl)
        elif st != "unsat":
            unknowns.append("side condition %s: %s" % (lab, st))
    solver = "%s (unsat on %d queries: coefficient identity, %d side conditions, %d rewrite lemmas)" % (
        Z3_VERSION, queries, len(side), len(it.lemmas))
    o.ops = dict(it.ops)
    if problems:
        o.unknown("candidate: " + "; ".join(problems)[:500], solver, secs, queries)
        o.candidate = True
    elif unknowns:
        o.unknown("; ".join(unknowns)[:500], solver, secs, queries)
    else:
        o.ok(solver, secs, queries)
    o.wall = time.time() - t0
    return [o]


def model_scalar(it, mdl):
    """scalar value suggested by a z3 model (from the first digit vector)"""
    try:
        for label, (ds, w) in it.digits.items():
            v = 0
            for i, d in enumerate(ds):
                x = mdl.eval(d.iv, model_completion=True).as_long()
                v += x << (w * i)
            return v
    except Exception:  # noqa
        return None
    return None


GLUE = {   # conversions intercepted as "same group element" in algorithm mode: checked here in formula mode
    "ed25519": ("from_duif", "PointDuif"),
    "ed448": ("from_affine", "PointAffine"),
    "jq255e": ("from_affine_extended", "PointAffineExtended"),
    "jq255s": ("from_affine_extended", "PointAffineExtended"),
}


def task_glue(name):
    """from_duif / from_affine / from_affine_extended return the coordinates of the same point (Z = 1)"""
    from engines.polyid import terms as R
    from engines.polyid.interp import Interp
    from engines.polyid.algo import struct_fields
    from engines.polyid.prove import Ideal, prove_zero
    fn, aty = GLUE[name]
    it = Interp(MIR)
    x, y = R.sym("x"), R.sym("y")
    if name == "ed25519":
        by = {"ypx": y + x, "ymx": y - x, "t2d": R.sym("ed25519_D2") * x * y}
        want = {"X": x, "Y": y, "Z": R.ONE, "T": x * y}
    elif name == "ed448":
        by = {"x": x, "y": y}
        want = {"X": x, "Y": y, "Z": R.ONE}
    else:
        by = {"e": x, "u": y, "t": y * y}
        want = {"E": x, "U": y, "Z": R.ONE, "T": y * y}
    names = struct_fields(MIR, name, aty)
    arg = Agg("struct", [by[n] for n in names], name + "::" + aty, list(names))
    out = it.run(it.find_fn(name, "Point", fn), [Ref(Cell(arg))])
    pn = struct_fields(MIR, name, "Point")
    o = Obligation("%s.%s:same-point" % (name, fn), "P", sorted(n for n in it.executed if "::<impl" in n),
                   "polynomial identity over Z[1/2][x, y]",
                   "%s returns exactly the coordinates (Z = 1) of the affine point it is given "
                   "(the conversion is abstracted to the identity in algorithm mode)" % fn)
    o.hint = dict(curve=name, func=fn, glue=True)
    o.candidate = False
    secs, q, bad = 0.0, 0, []
    for n_, t in zip(pn, out.fields):
        r = prove_zero(t - want[n_], Ideal([], ["x", "y", "ed25519_D2"]), Z3_TIMEOUT_MS)
        secs += r.seconds
        q += r.queries
        if not r.ok:
            bad.append("%s (%s)" % (n_, r.status))
    if bad:
        o.unknown("candidate: coordinates differ: " + ", ".join(bad), Z3_VERSION, secs, q)
    else:
        o.ok(Z3_VERSION, secs, q, syntactic=(q == 0))
    return [o]


def work(task):
    if task[0] == "glue":
        return task_glue(task[1])
    if task[0] == "recoder":
        from engines.polyid.recoders import SIGNED, recoder_task
        _, name, fn = task
        return recoder_task(MIR, name, fn, SIGNED[name][fn], Z3_TIMEOUT_MS)
    return task_mul(*task)


# --------------------------------------------------------------------------
# native side

ENC = {c: 32 for c in RP.CURVES}
ENC["ed448"] = 56
ENC["decaf448"] = 56
SCALAR_LEN = {c: 32 for c in RP.CURVES}
SCALAR_LEN["ed448"] = 57
SCALAR_LEN["decaf448"] = 57


def group_order(name):
    """order of the scalar field, read from the ModInt256 parameters in the MIR header of set_mul"""
    base = CURVES[name].get("base", name)
    for nm in MIR.by_last.get("set_mul", []):
        if nm.startswith(base + "::<impl"):
            hdr = MIR.header(nm)
            m = re.search(r"ModInt256(?:ct)?<([^>]*)>", hdr)
            if m:
                ws = []
                for w in m.group(1).split(","):
                    w = w.strip()
                    ws.append((1 << 64) - 1 if w == "u64::MAX" else (1 << 32) - 1 if w == "u32::MAX" else int(w))
                return sum(w << (64 * i) for i, w in enumerate(ws))
    return None


def same_element(name, m, A, B):
    """equality of group elements; the wrappers' elements are cosets"""
    if A is None or B is None:
        return m.c_same(A, B)
    p = m.p
    if name == "decaf448":
        return (A[0] * B[1] - A[1] * B[0]) % p == 0
    if name == "ristretto255":
        return (A[0] * B[1] - A[1] * B[0]) % p == 0 or (A[1] * B[1] - A[0] * B[0]) % p == 0
    return m.c_same(A, B)


def c_mul(m, n, P):
    acc = m.c_neutral()
    for bit in bin(n)[2:] if n else "":
        acc = m.c_add(acc, acc)
        if bit == "1":
            acc = m.c_add(acc, P)
    return acc


def raw_request(rp, cv, func, n, vals_and_lens):
    """like Replay.run for one request but with per-value byte lengths"""
    import subprocess
    line = "%s %s %d %s" % (cv, func, n, " ".join(int(v).to_bytes(L, "little").hex() for v, L in vals_and_lens))
    return line


def run_lines(rp, lines):
    import subprocess
    p = subprocess.run([rp.exe], input="\n".join(lines) + "\n", stdout=subprocess.PIPE,
                       stderr=subprocess.PIPE, text=True, timeout=600)
    out = []
    rows = p.stdout.strip().split("\n")
    for i in range(len(lines)):
        if i >= len(rows):
            out.append(("error", "no output"))
            continue
        t = rows[i].split()
        if not t:
            out.append(("error", "empty"))
        elif t[0] == "PANIC":
            out.append(("panic",))
        elif len(t) == 1:
            out.append(("error", "unknown function"))
        else:
            raw = bytes.fromhex(t[1])
            out.append(("ok", [int.from_bytes(bytes.fromhex(h), "little") for h in t[1:]],
                        [b - 256 if b > 127 else b for b in raw]))
    return out


def base_point(rp, name):
    m = MODELS[CURVES[name]["model"]]
    r = run_lines(rp, ["%s base 0" % name])[0]
    if r[0] != "ok":
        return None
    return m.c_decode(r[1])[0]


def native_mul_check(rp, name, fn, scalars, rng):
    """P*n (or mulgen(n)) natively against the Python group; returns (checked, mismatch, error)"""
    m = MODELS[CURVES[name]["model"]]
    B = base_point(rp, name)
    if B is None:
        return 0, None, "cannot read the base point"
    if m.char2 and m.base is None:
        m.base = B
    lines = []
    exps = []
    for n in scalars:
        if fn == "set_mul":
            P = m.c_rand(rng)
            F = m.c_embed(P, m.c_scalar(rng))
            lines.append("%s mul 0 %s %s" % (name, " ".join(int(v).to_bytes(ENC[name], "little").hex() for v in F),
                                             int(n).to_bytes(SCALAR_LEN[name], "little").hex()))
            exps.append((n, P, c_mul(m, n, P)))
        else:
            lines.append("%s mulgen 0 %s" % (name, int(n).to_bytes(SCALAR_LEN[name], "little").hex()))
            exps.append((n, B, c_mul(m, n, B)))
    res = run_lines(rp, lines)
    checked = 0
    for (n, P, E), r, ln in zip(exps, res, lines):
        if r[0] == "error":
            return checked, None, r[1]
        if r[0] == "panic":
            return checked, dict(key="%s.%s" % (name, fn), scalar=hex(n), request=ln, native="panic"), None
        got, valid = m.c_decode(r[1])
        checked += 1
        if not valid or not same_element(name, m, got, E):
            return checked, dict(key="%s.%s" % (name, fn), scalar=hex(n), request=ln,
                                 native_output=[hex(v) for v in r[1]], expected_affine=[hex(v) for v in E],
                                 valid_representation=bool(valid)), None
    return checked, None, None


def table_entry_affine(name, layout_fields, vals):
    """affine point of the Python model represented by a table entry; (point, format ok)"""
    m = MODELS[CURVES[name]["model"]]
    p = m.p
    if name == "ed25519":
        ypx, ymx, t2d = vals
        i2 = pow(2, -1, p)
        x, y = (ypx - ymx) * i2 % p, (ypx + ymx) * i2 % p
        return (x, y), (t2d - 2 * m.dv * x * y) % p == 0 and m.c_oncurve((x, y))
    if name in ("ed448", "p256", "secp256k1"):
        x, y = vals
        return (x, y), m.c_oncurve((x, y))
    if name in ("jq255e", "jq255s"):
        e, u, t = vals
        return (e, u), (t - u * u) % p == 0 and m.c_oncurve((e, u))
    if name == "gls254":
        from engines.polyid.curves import F254
        sx, ss = vals
        P = (F254.mul(sx, m.cSB), F254.mul(ss, m.cSB))
        return P, m.c_oncurve(P)
    raise Machinery("no table format for " + name)


def check_tables(rp, name, rng):
    """every entry of every PRECOMP table against (a) the library's own
    xdouble/set_mul_small recomputation and (b) the Python group.
    Returns (n_checked, failures [(key, detail)], error)"""
    m = MODELS[CURVES[name]["model"]]
    cfg = CURVES[name]["cfg"]
    tabs = dict(cfg["tables"])
    if name == "jq255e":
        tabs["PRECOMP_B130_ODD"] = (130, "odd", "B")
    B = base_point(rp, name)
    if B is None:
        return 0, [], "cannot read the base point"
    lines, meta = [], []
    for tname, (shift, kind, gen) in sorted(tabs.items()):
        lay = RP.TABLES[name][tname]
        nent = 8 if kind == "odd" else 16
        for j in range(nent):
            mult = (j + 1) if kind == "all" else 2 * j + 1
            lines.append("%s table:%s %d" % (name, tname, j))
            lines.append("%s basemul %d %s" % (name, shift, int(mult).to_bytes(8, "little").hex()))
            meta.append((tname, j, shift, mult))
    res = run_lines(rp, lines)
    fails = []
    checked = 0
    # python multiples of B: 2^shift * B computed once per shift
    pw = {}
    for tname, j, shift, mult in meta:
        if shift not in pw:
            Q = B
            for _ in range(shift):
                Q = m.c_add(Q, Q)
            pw[shift] = Q
    for i, (tname, j, shift, mult) in enumerate(meta):
        rt, rb = res[2 * i], res[2 * i + 1]
        key = "%s.%s[%d]" % (name, tname, j)
        if rt[0] != "ok" or rb[0] != "ok":
            return checked, fails, "native table request failed for %s: %r %r" % (key, rt[:1], rb[:1])
        P, fmt_ok = table_entry_affine(name, None, rt[1])
        lib, lib_ok = m.c_decode(rb[1])
        py = c_mul(m, mult, pw[shift])
        checked += 1
        if not fmt_ok or not lib_ok or not m.c_same(P, lib) or not m.c_same(P, py):
            fails.append((key, dict(key=key, entry=[hex(v) for v in rt[1]], entry_format_ok=bool(fmt_ok),
                                    library_multiple=[hex(v) for v in lib] if lib else None,
                                    python_multiple=[hex(v) for v in py],
                                    expected="%d * 2^%d * generator" % (mult, shift))))
    return checked, fails, None


# --------------------------------------------------------------------------

def run(tier, only=None):
    global MIR, MODELS, Z3_TIMEOUT_MS
    t0 = time.time()
    Z3_TIMEOUT_MS = 60000 if tier == "quick" else 600000
    MODELS = models()
    only = list(only or [])
    names = [c for c in CURVES if c in only] or (QUICK if tier == "quick" else list(CURVES))
    fsel = [o for o in only if o not in CURVES]
    rp = RP.Replay([c for c in RP.CURVES])
    th = threading.Thread(target=rp.build, daemon=True)
    th.start()
    try:
        MIR, mir_secs, sc = dump_mir()
    except Exception as e:  # noqa
        th.join()
        return finish("C04", tier, [], t0, machinery_error="MIR dump failed: %s" % str(e)[:800])
    log("C04: MIR dump %.1fs" % mir_secs)
    tasks = [(c, fn) for c in names for fn in ("set_mul", "set_mulgen")
             if not fsel or fn in fsel]
    merr = None
    if not tasks:
        th.join()
        return finish("C04", tier, [], t0, machinery_error="no task selected by --only %r" % (only,))
    from engines.polyid.recoders import SIGNED, native_recoder_check, scalar_order
    if not fsel:
        tasks += [("glue", c) for c in names if c in GLUE]
    ntask_mul = len(tasks)
    rec_meta = []
    for c in names:
        for fn, spec in SIGNED.get(CURVES[c].get("base", c) if CURVES[c].get("wrap") else c, {}).items():
            if CURVES[c].get("wrap") or (fsel and fn not in fsel):
                continue
            rec_meta.append((c, fn, spec, len(tasks)))
            tasks.append(("recoder", c, fn))
    res = pmap(work, tasks, nproc=NCPU, timeout=230 if tier == "quick" else 1700)
    obs = []
    rec_obs = []
    for c, fn, spec, ti in rec_meta:
        ro = Obligation("%s.%s:contract" % (c, fn), "P", [],
                        "all arguments" + (" below 2^%d" % spec.value_bits if spec.value_bits else
                                           " (all scalars below the group order)"),
                        "digits in [%d, %d], top digit in [%d, %d], sum d_i 2^(%d i) = argument; decided per loop "
                        "iteration from an arbitrary state inside the invariant (carry in {0,1}, buffered bits, value "
                        "bound)" % (spec.lo, spec.hi, spec.tlo, spec.thi, spec.w))
        ro.hint = dict(curve=c, func=fn, recoder=True)
        ro.candidate = False
        stt, val = res[ti]
        if stt != "ok":
            ro.unknown("%s: %s" % (stt, str(val)[:300]))
        else:
            ro.functions = val.get("fns") or []
            solver = "%s (unsat on %d bit-vector queries over %d iterations)" % (Z3_VERSION, val["queries"],
                                                                                val["iterations"])
            ro.witness_n = val.get("witness_n")
            if val["status"] == "ok":
                ro.ok(solver, val["secs"], val["queries"])
            elif val["status"] == "fail":
                ro.unknown("candidate: " + "; ".join(val["detail"]), solver, val["secs"], val["queries"])
                ro.candidate = True
            else:
                ro.unknown("; ".join(val["detail"]) or val["status"], solver, val["secs"], val["queries"])
        rec_obs.append((ro, c, fn, spec))
    tasks = tasks[:ntask_mul]
    for t, (st, val) in zip(tasks, res):
        if st == "ok":
            obs.extend(val)
        else:
            o = Obligation("%s.%s:coefficient" % (t[0], t[1]), "P")
            o.hint = dict(curve=t[1] if t[0] == "glue" else t[0], func=t[1], glue=(t[0] == "glue"))
            o.candidate = False
            o.unknown("%s: %s" % (st, str(val)[:400]))
            obs.append(o)
            if st == "err" and "NotAbstractable" not in str(val):
                merr = "task %r: %s" % (t, str(val)[:600])
    log("C04: %d routine obligations, %d recoder obligations in %.1fs" % (len(obs), len(rec_obs), time.time() - t0))
    th.join()
    rng = random.Random(SEED or 20261003)
    gfacts = {"tables_checked": 0, "tables_failed": 0, "native_mul_checked": 0, "native_mul_failed": 0,
              "error": rp.error}
    pending = []
    if rp.exe:
        for ro, c, fn, spec in rec_obs:
            try:
                n, mism, err = native_recoder_check(run_lines, rp, c, fn, spec, scalar_order(MIR, c),
                                                    [getattr(ro, "witness_n", None)], rng)
            except Exception as e:  # noqa
                n, mism, err = 0, None, "native check error: %s" % e
            gfacts["native_mul_checked"] += n
            if mism is not None:
                gfacts["native_mul_failed"] += 1
                if ro.verdict == "discharged":
                    merr = merr or "native disagreement on a discharged obligation %s: %r" % (ro.name, mism)
                else:
                    ro.fail(mism, ro.solver, ro.seconds, ro.queries)
            elif ro.verdict != "discharged" and ro.candidate and not err:
                ro.reason += " | native replay of %d arguments meets the contract" % n
        # decaf448's generator is twice the Edwards generator (as a coset)
        if "decaf448" in names:
            try:
                Bd, Be = base_point(rp, "decaf448"), base_point(rp, "ed448")
                m448 = MODELS["ed448"]
                ok = same_element("decaf448", m448, Bd, m448.c_add(Be, Be))
                gfacts["decaf448_base_is_2B"] = bool(ok)
                gfacts["native_mul_checked"] += 1
                if not ok:
                    gfacts["native_mul_failed"] += 1
            except Exception as e:  # noqa
                gfacts["decaf448_base_is_2B"] = "error: %s" % e
        for o in list(obs):
            h = o.hint
            if h.get("glue"):
                continue
            name, fn = h["curve"], h["func"]
            r = group_order(name)
            scal = [0, 1, 2, 31, 32, 2 ** 64, 2 ** 128 - 1, 2 ** 200 + 12345]
            if r:
                scal += [r - 1, r - 2, (r - 1) // 2, rng.randrange(r), rng.randrange(r)]
            if getattr(o, "model_digits", None) is not None and r:
                scal.append(o.model_digits % r)
            if o.verdict == "discharged":
                scal = scal[:4] + scal[-3:]
            try:
                n, mism, err = native_mul_check(rp, name, fn, scal, rng)
            except Exception as e:  # noqa
                n, mism, err = 0, None, "native check error: %s" % e
            gfacts["native_mul_checked"] += n
            if mism is not None:
                gfacts["native_mul_failed"] += 1
                if o.verdict == "discharged":
                    pending.append((o.name, CURVES[name].get("base", name), mism))
                else:
                    o.fail(mism, o.solver, o.seconds, o.queries)
            elif o.verdict != "discharged":
                if err:
                    o.reason += " | native replay unavailable: %s" % err[:200]
                elif getattr(o, "candidate", False):
                    o.reason += " | native replay of %d scalars agrees with the reference" % n
        # table contents: ground facts (enumeration of a finite closed set)
        for name in names:
            if CURVES[name].get("wrap"):
                continue
            to = Obligation("%s.PRECOMP:contents" % name, "P", [],
                            "finite closed set: every entry of every PRECOMP_* table of " + name,
                            "each table entry equals (j+1)*2^s*generator, recomputed natively with the library's "
                            "set_xdouble/set_mul_small and independently with the Python group (ground fact, no "
                            "solver involved)")
            to.hint = dict(curve=name, func="tables")
            try:
                n, fails, err = check_tables(rp, name, rng)
            except Exception as e:  # noqa
                n, fails, err = 0, [], "table check error: %s\n%s" % (e, traceback.format_exc()[-300:])
            gfacts["tables_checked"] += n
            gfacts["tables_failed"] += len(fails)
            if fails:
                to.fail(fails[0][1], "native enumeration", 0.0, 0)
                to.model["all_failing_entries"] = [k for k, _ in fails][:40]
            elif err:
                to.unknown("native table check unavailable: %s" % err[:300], "native enumeration", 0.0, 0)
            else:
                to.ok("native enumeration of %d entries (ground fact)" % n, 0.0, 0, syntactic=True)
            obs.append(to)
        # a native disagreement on a discharged (relative) obligation is explained by a
        # violated obligation of the same curve (wrong table entry, routine it delegates to)
        for oname, base, mism in pending:
            if not any(x.verdict == "violated" and CURVES[x.hint["curve"]].get("base", x.hint["curve"]) == base
                       for x in obs + [ro for ro, _, _, _ in rec_obs]):
                merr = merr or "native disagreement on a discharged obligation %s: %r" % (oname, mism)
    else:
        for o in obs:
            if o.verdict != "discharged":
                o.reason += " | native replay not built: %s" % (rp.error or "")[:200]
    obs.extend(ro for ro, _, _, _ in rec_obs)
    na = [o.name for o in obs if getattr(o, "not_abstractable", False)]
    trusted = [TRUSTED[c] for c in names if c in TRUSTED]
    return finish(
        "C04", tier, obs, t0,
        functions_encoded=sorted({f for o in obs for f in o.functions}),
        bounds={"scalars": "all (digit vectors symbolic in the documented ranges of the recoders; split halves "
                           "symbolic in [0, 2^128) with both signs)",
                "points": "free module generator (group law abstracted, C03)",
                "tables": "all entries enumerated natively"},
        stubs={"set_add/set_sub/set_double/set_xdouble/set_neg/set_condneg/add_affine*/from_* -> group law": "C03",
               "lookup* -> sign(k)*win[|k|-1], neutral for 0 (side condition |k| <= entries proved)": "C20",
               "recode_* -> digits in documented range, sum d_i 2^(w i) = n": "decided here (:contract obligations)",
               "split_mu/split_theta -> k = k0 + k1*mu, |k_i| < 2^128, signs as masks": "C11",
               "PRECOMP_* -> (j+1)*2^s*B": "ground facts of this check"},
        assumptions=["MIR semantics of engines/polyid/interp.py + algo.py (integer locals concrete or z3 bit-vectors)",
                     "a group element's coordinates are opaque: any routine doing field arithmetic on them outside "
                     "the intercepted operations is reported as not abstractable"] + trusted,
        outside=["scalar splits (contracts only, C11)", "lookup scans (C20)",
                 "not abstractable in algorithm mode: " + (", ".join(na) if na else "none in this run")],
        ground_facts={"checked": gfacts["tables_checked"] + gfacts["native_mul_checked"],
                      "failed": gfacts["tables_failed"] + gfacts["native_mul_failed"], **gfacts},
        extra={"mir_seconds": round(mir_secs, 1), "replay_build_seconds": round(rp.secs, 1)},
        machinery_error=merr)


def replay(path):
    import json
    global MODELS, MIR
    with open(path) as fh:
        d = json.load(fh)
    model = d["obligation"].get("model") or {}
    req = model.get("request")
    MODELS = models()
    rp = RP.Replay(list(RP.CURVES))
    if not rp.build():
        print("replay: harness build failed: %s" % (rp.error or "")[-400:])
        return 2
    if not req:
        # table entry: re-run the table check of that curve
        key = model.get("key", "")
        name = key.split(".")[0]
        if name in CURVES:
            MIR, _, _ = dump_mir()
            n, fails, err = check_tables(rp, name, random.Random(1))
            if fails:
                print("REPRODUCED: %s" % fails[0][0])
                return 1
            print("NOT REPRODUCED (%d entries checked)" % n)
            return 0
        print("replay: nothing to replay in %s" % path)
        return 2
    r = run_lines(rp, [req])[0]
    name = req.split()[0]
    m = MODELS[CURVES[name]["model"]]
    if m.char2:
        m.base = base_point(rp, name)
    if r[0] == "panic":
        print("REPRODUCED: native panic")
        return 1
    if r[0] != "ok":
        print("replay: native run failed %r" % (r,))
        return 2
    got, valid = m.c_decode(r[1])
    exp = tuple(int(v, 16) for v in model["expected_affine"])
    print("native:", [hex(v) for v in r[1]])
    if valid and m.c_same(got, exp):
        print("NOT REPRODUCED: the current tree returns the expected group element")
        return 0
    print("REPRODUCED: property=C04 key=%s" % model.get("key"))
    return 1
