"""C05 Field and scalar encodings are canonical; decoding is strict (engine L)."""
import time
from engines.llsym.build import build, Driver
from engines.llsym.intenc import IntEnc, Lin
from engines.llsym import prove as PR
from engines.llsym import terms as T
from engines.llsym.llexec import ExecError
from vlib.common import Obligation, finish, log, NCPU
from vlib.par import pmap
from . import fields as F
from .fields import limbs_int, int_limbs
from .lhelp import (wide_in_form, sym_run, validate, word_form, atom_samples, decide, rng, hexl,
                    MachineryError, model_inputs)

DEFER_MONTY_DECODE_VALUE = True   # Montgomery strict-decode value obligation: no certificate within budget
FORCE = False
QUICK_FIELDS = ["gf25519", "gf255e", "gfsecp256k1", "gf448", "gfp256", "sc25519", "sc448", "scgls254"]
QUICK_RED = [0, 1, 31, 32, 33, 48, 63, 64, 65, 97]
THOR_RED = list(range(0, 162))


def enc_driver(f):
    return F.encode_driver(f)


def dec_driver(f, n):
    """decode_ct on an n-byte slice"""
    params = [("buf", "in", 1, n), ("out", "out", 8, f.n), ("st", "out", 4, 1)]
    body = ("        let (r, cc) = <%s>::decode_ct(&buf[..]);\n"
            "        *out = unsafe { transmute::<%s, [u64; %d]>(r) };\n"
            "        st[0] = cc;") % (f.rust, f.rust, f.n)
    return Driver("drv_%s_decode_%d" % (f.tag, n), params, body)


def red_driver(f, n):
    params = [("buf", "in", 1, n), ("out", "out", 8, f.n)]
    body = ("        let r = <%s>::decode_reduce(&buf[..]);\n"
            "        *out = unsafe { transmute::<%s, [u64; %d]>(r) };") % (f.rust, f.rust, f.n)
    return Driver("drv_%s_decred_%d" % (f.tag, n), params, body)


def inplace_driver(f, n):
    """set_decode_reduce on an element that already holds an arbitrary value: the previous value must not survive"""
    params = [("a", "in", 8, f.n), ("buf", "in", 1, n), ("out", "out", 8, f.n)]
    body = ("        let mut r: %s = unsafe { transmute::<[u64; %d], %s>(*a) };\n        r.set_decode_reduce(&buf[..]);\n"
            "        *out = unsafe { transmute::<%s, [u64; %d]>(r) };") % (f.rust, f.n, f.rust, f.rust, f.n)
    return Driver("drv_%s_decred_inplace_%d" % (f.tag, n), params, body)


def check_inplace(built, f, n, timeout):
    from engines.llsym.smt import BVEmitter, run_solver, parse_model, bvc
    ob = Obligation(CFG[0] + ":%s.set_decode_reduce_inplace[len=%d]" % (f.tag, n), "L", [f.rust + "::set_decode_reduce"],
                    "all previous contents of the element and all %d-byte strings" % n,
                    "the result is bit-identical to decode_reduce of the same bytes into a fresh element (the previous value does not survive)")
    t0 = time.time()
    try:
        ex1, ins1, o1 = sym_run(built, "drv_%s_decred_inplace_%d" % (f.tag, n))
        ex2, ins2, o2 = sym_run(built, "drv_%s_decred_%d" % (f.tag, n), concrete={"buf": ins1["buf"]} if n else None)
    except ExecError as e:
        return [ob.unknown("executor: %s" % e)]
    xs, ys = o1["out"], o2["out"]
    if all((x is y) or (not isinstance(x, T.Term) and not isinstance(y, T.Term) and x == y) for x, y in zip(xs, ys)):
        return [ob.ok("syntactic (hash-consed terms identical)", time.time() - t0, 0, syntactic=True)]
    em = BVEmitter()
    dif = ["(distinct %s %s)" % (em.ref(x, 64) if isinstance(x, T.Term) else bvc(x, 64), em.ref(y, 64) if isinstance(y, T.Term) else bvc(y, 64))
           for x, y in zip(xs, ys) if x is not y]
    v, mod, dt = run_solver(em.script(["(or %s)" % " ".join(dif)] if len(dif) > 1 else dif), "z3", timeout)
    if v == "unsat":
        return [ob.ok("z3-bv", dt, 1)]
    if v == "sat":
        inputs = model_inputs(parse_model(mod), built, "drv_%s_decred_inplace_%d" % (f.tag, n))
        a_ = built.native("drv_%s_decred_inplace_%d" % (f.tag, n), inputs)["out"]
        b_ = built.native("drv_%s_decred_%d" % (f.tag, n), {"buf": inputs["buf"]})["out"]
        if list(a_) != list(b_):
            return [ob.fail({"key": "%s.set_decode_reduce.inplace" % f.tag, "inputs": {"a": hexl(inputs["a"]), "buf": bytes(inputs["buf"]).hex()},
                             "native_inplace": hexl(a_), "native_fresh": hexl(b_), "found_by": "z3-bv model, replayed natively"}, "z3-bv", dt, 1)]
        return [ob.unknown("model does not reproduce natively")]
    return [ob.unknown("solver: %s" % v)]


def byte_sampler(f, n, r):
    q = f.q
    L = f.enc_len
    specials = [0, 1, q - 1, q, q + 1, 2 * q - 1, 2 * q, (1 << (8 * L)) - 1, (1 << (8 * L - 1)),
                (1 << (8 * L - 1)) - 1, q - 2, (1 << (8 * n)) - 1 if n else 0]

    def s(it):
        if n == 0:
            return {"buf": []}
        if it < len(specials):
            X = specials[it] % (1 << (8 * n))
        else:
            X = r.getrandbits(8 * n)
            if it % 3 == 0:
                X %= max(q, 1)
        return {"buf": list(X.to_bytes(n, "little"))}
    return s


def limb_sampler(f, r):
    from .fieldops import boundary_values
    vals = boundary_values(f, r)

    def s(it):
        return {"a": int_limbs(vals[it % len(vals)] if it < len(vals) else r.choice(vals), f.n)}
    return s


def check_encode(built, f, timeout):
    name = CFG[0] + ":%s.encode" % f.tag
    drv = "drv_%s_encode" % f.tag
    r = rng("enc", f.tag)
    ob1 = Obligation(name + ":value", "L", [f.rust + "::encode"],
                     "all admissible raw limb patterns", "int(encode(a)) == val(a) (mod q)")
    ob2 = Obligation(name + ":canonical", "L", [f.rust + "::encode"],
                     "all admissible raw limb patterns", "int(encode(a)) < q (unique representative)")
    ob0 = Obligation(name + ":length", "L", [f.rust + "::encode"], "all admissible raw limb patterns",
                     "the encoding has exactly %d bytes (ceil(bit length of the modulus / 8))" % f.enc_len)
    try:
        _, _, lo = sym_run(built, "drv_%s_enclen" % f.tag)
        ln = lo["olen"][0]
        if isinstance(ln, T.Term):
            ob0.unknown("encoding length is not a constant in the optimized IR")
        elif ln != f.enc_len:
            nat = built.native("drv_%s_enclen" % f.tag, {"a": [0] * f.n})["olen"][0]
            if nat != f.enc_len:
                ob0.fail({"key": "%s.encode.length" % f.tag, "inputs": {"a": [0] * f.n}, "native_length": nat,
                          "expected_length": f.enc_len, "found_by": "constant in the optimized IR, confirmed natively"}, "ir-constant", 0.0, 0)
            else:
                ob0.unknown("IR constant %s differs from native length" % ln)
        else:
            ob0.ok("constant in the optimized IR", 0.0, 0, syntactic=True)
    except ExecError as e:
        ob0.unknown("executor: %s" % e)
    try:
        ex, ins, outs = sym_run(built, drv)
    except ExecError as e:
        return [ob0, ob1.unknown("executor: %s" % e), ob2.unknown("executor")]
    smp = limb_sampler(f, r)
    validate(built, drv, outs, smp, 24)
    enc = IntEnc()
    wide = ex.wide.get("out")
    R = word_form(enc, wide, 64) if wide else word_form(enc, outs["out"], 8)
    A = word_form(enc, ins["a"], 64)
    extra = [] if f.kind == "raw" else ["(< %s %d)" % (A.smt(), f.q)]
    samples = atom_samples(enc, built, drv, smp,
                           [(R, wide, 64)] if wide else [(R, outs["out"], 8)], 48)
    lhs = R if f.kind == "raw" else R.scale(f.R)

    def native_ok(inputs):
        nat = built.native(drv, inputs)["out"]
        X = int.from_bytes(bytes(nat), "little")
        Av = limbs_int(inputs["a"])
        ok = (not f.valid(Av)) or (X == f.val(Av))
        return ok, {"inputs": {"a": hexl(inputs["a"])}, "native_bytes": bytes(nat).hex(),
                    "expected": hex(f.val(Av))}
    res = PR.prove_congruence(enc, lhs, A, f.q, extra=extra, timeout=timeout, samples=samples)
    if res.status == "proved":
        ob1.ok("z3-int (%d lemmas)" % len(res.info.get("lemmas", [])), res.seconds, res.queries)
    else:
        _replay_or_unknown(ob1, smp, native_ok, "no congruence certificate (%s)" % res.info.get("reason"),
                           f, "encode", enc, "(not (= (mod (- %s %s) %d) 0))" % (lhs.smt(), A.smt(), f.q),
                           built, drv, extra=extra, timeout=timeout)
    decide(ob2, enc, "(<= 0 %s %d)" % (R.smt(), f.q - 1), built, drv, native_ok, extra=extra,
           timeout=timeout, hunt_sampler=smp, key="%s.encode" % f.tag)
    return [ob0, ob1, ob2]


def check_decode(built, f, n, timeout):
    L = f.enc_len
    name = CFG[0] + ":%s.decode_ct[len=%d]" % (f.tag, n)
    drv = "drv_%s_decode_%d" % (f.tag, n)
    r = rng("dec", f.tag, n)
    fn = [f.rust + "::decode_ct"]
    try:
        ex, ins, outs = sym_run(built, drv)
    except ExecError as e:
        return [Obligation(name, "L", fn).unknown("executor: %s" % e)]
    smp = byte_sampler(f, n, r)
    validate(built, drv, outs, smp, 24)
    enc = IntEnc()
    R = word_form(enc, outs["out"], 64)
    S = word_form(enc, outs["st"], 32)
    X = wide_in_form(enc, ex, "buf", ins) if n else Lin(0)
    q = f.q

    def native_ok(inputs):
        nat = built.native(drv, inputs)
        Rv = limbs_int(nat["out"])
        st = nat["st"][0]
        Xv = int.from_bytes(bytes(inputs["buf"]), "little")
        good = (n == L and Xv < q)
        if good:
            ok = st == 0xFFFFFFFF and f.valid(Rv) and f.val(Rv) == Xv
        else:
            ok = st == 0 and Rv == 0
        return ok, {"inputs": {"buf": bytes(inputs["buf"]).hex()}, "len": n, "status": hex(st),
                    "limbs": hexl(nat["out"])}
    obs = []
    if n != L:
        ob = Obligation(name + ":reject", "L", fn, "all %d-byte strings" % n,
                        "wrong length => status 0 and value zero")
        decide(ob, enc, "(and (= %s 0) (= %s 0))" % (S.smt(), R.smt()), built, drv, native_ok,
               timeout=timeout, hunt_sampler=smp, key="%s.decode_ct.len" % f.tag)
        return [ob]
    samples = atom_samples(enc, built, drv, smp, [(R, outs["out"], 64)], 48)
    ob = Obligation(name + ":status", "L", fn, "all %d-byte strings" % n,
                    "status == 0xFFFFFFFF iff int(buf) < q, else exactly 0")
    decide(ob, enc, "(and (=> (< %s %d) (= %s 4294967295)) (=> (>= %s %d) (= %s 0)))"
           % (X.smt(), q, S.smt(), X.smt(), q, S.smt()), built, drv, native_ok, timeout=timeout,
           hunt_sampler=smp, key="%s.decode_ct.status" % f.tag)
    obs.append(ob)
    ob = Obligation(name + ":failzero", "L", fn, "all %d-byte strings" % n,
                    "non-canonical input => value zero")
    decide(ob, enc, "(=> (>= %s %d) (= %s 0))" % (X.smt(), q, R.smt()), built, drv, native_ok,
           timeout=timeout, hunt_sampler=smp, key="%s.decode_ct.failzero" % f.tag)
    obs.append(ob)
    ob = Obligation(name + ":value", "L", fn, "all %d-byte strings" % n,
                    "canonical input => decoded representation is admissible and has value int(buf)")
    obs.append(ob)
    if f.kind == "raw":
        decide(ob, enc, "(=> (< %s %d) (= %s %s))" % (X.smt(), q, R.smt(), X.smt()), built, drv,
               native_ok, timeout=timeout, hunt_sampler=smp, key="%s.decode_ct.value" % f.tag)
    elif DEFER_MONTY_DECODE_VALUE and not FORCE:
        obs.pop()
    else:
        pre = ["(< %s %d)" % (X.smt(), q)]
        good_samples = [e for e in samples if X.eval(e) < q]
        res = PR.prove_congruence(enc, R, X.scale(f.R), q, extra=pre, timeout=timeout,
                                  samples=good_samples)
        if res.status == "proved":
            r2 = PR.prove_range(enc, R, 0, q - 1, extra=pre, timeout=timeout)
            if r2.status == "proved":
                ob.ok("z3-int (%d lemmas)" % len(res.info.get("lemmas", [])), res.seconds + r2.seconds,
                      res.queries + 1)
            else:
                _replay_or_unknown(ob, smp, native_ok, "range: %s" % r2.status, f, "decode_ct.value")
        else:
            _replay_or_unknown(ob, smp, native_ok, "no congruence certificate", f, "decode_ct.value")
    return obs


def _replay_or_unknown(ob, smp, native_ok, why, f, what, enc=None, neg=None, built=None, drv=None,
                       extra=(), timeout=60):
    # 1. ask the solver for a concrete input violating the goal (exact: no abstract products here)
    if enc is not None and neg is not None and not enc.prod_ops:
        model, secs, nq = PR.falsify(enc, neg, [{}], timeout=timeout, extra=list(extra))
        if model is not None:
            inp = model_inputs(model, built, drv)
            ok, det = native_ok(inp)
            if not ok:
                det["key"] = "%s.%s" % (f.tag, what)
                det["found_by"] = "z3-int model (exact query) after " + why
                return ob.fail(det, "z3-int", secs)
    for it in range(300):
        inp = smp(it)
        ok, det = native_ok(inp)
        if not ok:
            det["key"] = "%s.%s" % (f.tag, what)
            det["found_by"] = "boundary replay after " + why
            return ob.fail(det, "z3-int+replay")
    return ob.unknown(why, "z3-int")


def check_reduce(built, f, n, timeout):
    name = CFG[0] + ":%s.decode_reduce[len=%d]" % (f.tag, n)
    drv = "drv_%s_decred_%d" % (f.tag, n)
    r = rng("red", f.tag, n)
    fn = [f.rust + "::decode_reduce"]
    ob = Obligation(name, "L", fn, "all %d-byte strings" % n,
                    "val(decode_reduce(buf)) == int(buf) mod q, representation admissible")
    try:
        ex, ins, outs = sym_run(built, drv)
    except ExecError as e:
        return [ob.unknown("executor: %s" % e)]
    smp = byte_sampler(f, n, r)
    validate(built, drv, outs, smp, 16)
    enc = IntEnc()
    R = word_form(enc, outs["out"], 64)
    X = wide_in_form(enc, ex, "buf", ins) if n else Lin(0)
    samples = atom_samples(enc, built, drv, smp, [(R, outs["out"], 64)], 48)
    q = f.q

    def native_ok(inputs):
        nat = built.native(drv, inputs)
        Rv = limbs_int(nat["out"])
        Xv = int.from_bytes(bytes(inputs["buf"]), "little")
        ok = f.valid(Rv) and f.val(Rv) == Xv % q
        return ok, {"inputs": {"buf": bytes(inputs["buf"]).hex()}, "len": n, "limbs": hexl(nat["out"]),
                    "expected_value": hex(Xv % q)}
    rhs = X if f.kind == "raw" else X.scale(f.R)
    res = PR.prove_congruence(enc, R, rhs, q, timeout=timeout, samples=samples)
    if res.status != "proved":
        _replay_or_unknown(ob, smp, native_ok, "no congruence certificate (%s)" % res.info.get("reason"),
                           f, "decode_reduce", enc, "(not (= (mod (- %s %s) %d) 0))" % (R.smt(), rhs.smt(), q),
                           built, drv, timeout=timeout)
        return [ob]
    if f.kind == "raw":
        ob.ok("z3-int (%d lemmas)" % len(res.info.get("lemmas", [])), res.seconds, res.queries)
    else:
        r2 = PR.prove_range(enc, R, 0, q - 1, timeout=timeout)
        if r2.status == "proved":
            ob.ok("z3-int (%d lemmas)" % len(res.info.get("lemmas", [])), res.seconds + r2.seconds,
                  res.queries + 1)
        else:
            _replay_or_unknown(ob, smp, native_ok, "range: %s" % r2.status, f, "decode_reduce")
    return [ob]


def posed(kind, f, n, tier):
    """obligations that close within budget on the unchanged tree (measured);
    the rest is listed as outside the claim, not posed"""
    if f.kind == "raw" or kind == "enc" or kind == "dec":
        return True
    if f.tag == "gfp256":
        return n <= 31
    if f.tag == "sc448":
        return n == 0
    if f.tag == "gfgen256":
        return n <= 63
    return n <= 64


CFG = ["default"]


def run_config(tier, cfg="default", features=None, rustflags="", only=None, fields_override=None):
    CFG[0] = cfg
    t0 = time.time()
    fields = [f for f in F.FIELDS if tier == "thorough" or f.tag in QUICK_FIELDS]
    fields += [f for f in F.EXTRA_FIELDS if cfg == "default"]
    if only:
        fields = [f for f in F.FIELDS + F.EXTRA_FIELDS if f.tag in only]
    reds = QUICK_RED if tier == "quick" else THOR_RED
    ds, items, skipped = [], [], []
    for f in fields:
        L = f.enc_len
        ds.append(enc_driver(f))
        ds.append(F.enclen_driver(f))
        items.append(("enc", f, 0))
        for n in sorted(set([0, 1, L - 1, L, L + 1, 2 * L] + ([L - 8, L + 8, 3 * L] if tier != "quick" else []))):
            ds.append(dec_driver(f, n))
            items.append(("dec", f, n))
        for n in (0, 1, L):
            if n in reds and f.tag != "gfgen256" and (posed("red", f, n, tier) or only):
                ds.append(inplace_driver(f, n))
                items.append(("inp", f, n))
        for n in reds:
            if posed("red", f, n, tier) or (only and f.tag != "gfgen256"):
                ds.append(red_driver(f, n))
                items.append(("red", f, n))
            else:
                skipped.append("%s.decode_reduce[len=%d]" % (f.tag, n))
    from . import C05_bin as BN
    bin_items = [] if (only and "bin" not in only) else BN.items()
    if bin_items:
        ds += BN.drivers()
    built = build(ds, tag="C05-" + cfg, features=features, rustflags=rustflags,
                  prelude="\n".join(getattr(f, "prelude", "") for f in fields))
    timeout = 150 if tier == "quick" else 600
    items += [("bin", None, bi) for bi in bin_items]

    def work(it):
        kind, f, n = it
        if kind == "bin":
            return BN.check(built, n, timeout, cfg)
        if kind == "enc":
            return check_encode(built, f, timeout)
        if kind == "dec":
            return check_decode(built, f, n, timeout)
        if kind == "inp":
            return check_inplace(built, f, n, timeout)
        return check_reduce(built, f, n, timeout)
    res = pmap(work, items, nproc=NCPU, timeout=timeout * 5)
    obs, merr = [], None
    for it, (st, val) in zip(items, res):
        if st == "ok":
            obs.extend(val)
        else:
            o = Obligation(CFG[0] + ":%s.%s[%s]" % (it[1].tag if it[1] else "bin", it[0], str(it[2])), "L")
            o.unknown("%s: %s" % (st, str(val)[:300]))
            obs.append(o)
            if "MachineryError" in str(val):
                merr = str(val)[:600]
    built.close()
    return obs, merr, locals()


def run(tier, only=None):
    t0 = time.time()
    obs, merr, L = run_config(tier, only=only)
    reds = L.get('reds'); skipped = L.get('skipped', [])
    return finish("C05", tier, obs, t0,
                  functions_encoded=sorted(set(fn for o in obs for fn in o.functions)),
                  bounds={"strict decoding lengths": "0, 1, L-1, L, L+1, 2L (all bytes symbolic at each length)",
                          "reducing decoding lengths": str(reds),
                          "configuration": "default features, x86_64, opt-level 3"},
                  assumptions=["LLVM IR semantics as implemented in engines/llsym (validated natively each run)",
                               "moduli / Montgomery convention in props/fields.py",
                               "decode(encode(x)) == x and encode(decode(b)) == b follow by composing the "
                               "per-function claims at the representation boundary (all admissible limb patterns)"],
                  outside=["w32 / m51 backends (C18)",
                           "Montgomery types: value of a successful strict decode (status, zero-on-failure, length rejection, encode and reducing decode are posed)",
                           "not posed (no certificate within budget): " + ", ".join(skipped),
                           "Option-returning decode() wrappers (a branch on the status word; covered by C19)"],
                  machinery_error=merr)
