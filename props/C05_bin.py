"""C05, binary fields GF(2^127) and GF(2^254) = GF(2^127)[u]: encodings are canonical, decoding is strict
(engine L, bit-vectors; no arithmetic is involved, only bit manipulation):
  encode(x)       = little-endian bytes of the reduced representative (bit 127 folded into bits 63 and 0 of each half)
  decode_ct(b[n]) = (value of b, 0xFFFFFFFF) iff n = L and the top bit of each 16-byte half is clear; else (0, 0)."""
import time
from engines.llsym.build import Driver
from engines.llsym import terms as T
from engines.llsym.llexec import ExecError
from engines.llsym.smt import BVEmitter, run_solver, parse_model, bvc
from vlib.common import Obligation
from .lhelp import sym_run, validate, rng, hexl, model_inputs

ALL1 = 0xFFFFFFFF
BIN = [("gfb127", "crate::backend::GFb127", 2, 16), ("gfb254", "crate::backend::GFb254", 4, 32)]


def drivers():
    ds = []
    for tag, ty, nw, L in BIN:
        ds.append(Driver("drv_%s_benc" % tag, [("a", "in", 8, nw), ("out", "out", 1, L)],
                         "        let x: %s = unsafe { transmute::<[u64; %d], %s>(*a) };\n        *out = x.encode();" % (ty, nw, ty)))
        for n in (0, L - 1, L, L + 1):
            ds.append(Driver("drv_%s_bdec_%d" % (tag, n), [("buf", "in", 1, n), ("out", "out", 8, nw), ("st", "out", 4, 1)],
                             "        let (x, r) = <%s>::decode_ct(&buf[..]);\n"
                             "        *out = unsafe { transmute::<%s, [u64; %d]>(x) }; st[0] = r;" % (ty, ty, nw)))
    return ds


def items():
    return [(tag, "enc", 0) for tag, _, _, _ in BIN] + [(tag, "dec", n) for tag, _, _, L in BIN for n in (0, L - 1, L, L + 1)]


def _decide(ob, built, drv, em, assume, bad, native_ok, timeout, key):
    t0 = time.time()
    v, mod, dt = run_solver(em.script(list(assume) + [bad]), "z3", timeout)
    if v == "unsat":
        return ob.ok("z3-bv", dt, 1)
    if v == "sat":
        inputs = model_inputs(parse_model(mod), built, drv)
        ok, detail = native_ok(inputs)
        if not ok:
            detail.update({"key": key, "found_by": "z3-bv model, replayed natively"})
            return ob.fail(detail, "z3-bv", time.time() - t0, 1)
        return ob.unknown("z3 model does not reproduce natively")
    return ob.unknown("solver: %s" % v)


def check(built, item, timeout, cfg="default"):
    tag, kind, n = item
    _, ty, nw, L = [b for b in BIN if b[0] == tag][0]
    r = rng("c05bin", tag, kind, n)
    if kind == "enc":
        drv = "drv_%s_benc" % tag
        ob = Obligation("%s:%s.encode" % (cfg, tag), "L", [ty + "::encode"], "all %d-bit limb patterns" % (64 * nw),
                        "bytes = little-endian reduced representative (bit 127 of each half folded into bits 63 and 0)")
        try:
            ex, ins, outs = sym_run(built, drv)
            validate(built, drv, outs, lambda it: {"a": [r.getrandbits(64) for _ in range(nw)]}, 12)
        except ExecError as e:
            return [ob.unknown("executor: %s" % e)]
        em = BVEmitter()
        diffs = []
        for h in range(nw // 2):
            lo, hi = em.ref(ins["a"][2 * h], 64), em.ref(ins["a"][2 * h + 1], 64)
            top = "((_ zero_extend 63) ((_ extract 63 63) %s))" % hi
            elo = "(bvxor %s (bvxor %s (bvshl %s (_ bv63 64))))" % (lo, top, top)
            ehi = "(bvand %s %s)" % (hi, bvc((1 << 63) - 1, 64))
            for wi, e in ((0, elo), (1, ehi)):
                bs = outs["out"][16 * h + 8 * wi:16 * h + 8 * wi + 8]
                got = em.ref(bs[0], 8) if isinstance(bs[0], T.Term) else bvc(bs[0], 8)
                for b in bs[1:]:
                    got = "(concat %s %s)" % (em.ref(b, 8) if isinstance(b, T.Term) else bvc(b, 8), got)
                diffs.append("(distinct %s %s)" % (got, e))

        def native_ok(inputs):
            nat = built.native(drv, inputs)["out"]
            exp = []
            for h in range(nw // 2):
                lo, hi = inputs["a"][2 * h], inputs["a"][2 * h + 1]
                t = hi >> 63
                lo ^= t ^ (t << 63)
                hi &= (1 << 63) - 1
                exp += list(lo.to_bytes(8, "little")) + list(hi.to_bytes(8, "little"))
            return list(nat) == exp, {"inputs": {"a": hexl(inputs["a"])}, "native": bytes(nat).hex(), "expected": bytes(exp).hex()}
        return [_decide(ob, built, drv, em, [], "(or %s)" % " ".join(diffs), native_ok, timeout, "%s.encode" % tag)]
    drv = "drv_%s_bdec_%d" % (tag, n)
    ob = Obligation("%s:%s.decode_ct[len=%d]" % (cfg, tag, n), "L", [ty + "::decode_ct / set_decode_ct"], "all %d-byte strings" % n,
                    "accepted (status 0xFFFFFFFF, value = the bytes) iff len = %d and the top bit of each 16-byte half is clear; "
                    "otherwise status 0 and the zero element" % L)
    try:
        ex, ins, outs = sym_run(built, drv)
        validate(built, drv, outs, lambda it: {"buf": [r.choice([0, 0x80, 0x7F, 0xFF, r.getrandbits(8)]) for _ in range(n)]}, 12)
    except ExecError as e:
        return [ob.unknown("executor: %s" % e)]
    em = BVEmitter()
    st = outs["st"][0]
    sts = em.ref(st, 32) if isinstance(st, T.Term) else bvc(st, 32)
    words = [em.ref(w, 64) if isinstance(w, T.Term) else bvc(w, 64) for w in outs["out"]]
    if n != L:
        bad = "(or (distinct %s %s) %s)" % (sts, bvc(0, 32), " ".join("(distinct %s %s)" % (w, bvc(0, 64)) for w in words))
    else:
        buf = ins["buf"]
        okc = "(and %s)" % " ".join("(= ((_ extract 7 7) %s) #b0)" % em.ref(buf[16 * h + 15], 8) for h in range(nw // 2))
        exp = []
        for wi in range(nw):
            bs = buf[8 * wi:8 * wi + 8]
            e = em.ref(bs[0], 8)
            for b in bs[1:]:
                e = "(concat %s %s)" % (em.ref(b, 8), e)
            exp.append(e)
        bad = "(or (distinct %s (ite %s %s %s)) %s)" % (
            sts, okc, bvc(ALL1, 32), bvc(0, 32),
            " ".join("(distinct %s (ite %s %s %s))" % (w, okc, e, bvc(0, 64)) for w, e in zip(words, exp)))

    def native_ok(inputs):
        nat = built.native(drv, inputs)
        b = inputs["buf"]
        good = n == L and all(b[16 * h + 15] < 0x80 for h in range(nw // 2))
        expw = [int.from_bytes(bytes(b[8 * i:8 * i + 8]), "little") for i in range(nw)] if good else [0] * nw
        ok = nat["st"][0] == (ALL1 if good else 0) and list(nat["out"]) == expw
        return ok, {"inputs": {"buf": bytes(b).hex()}, "native": {"st": hex(nat["st"][0]), "out": hexl(nat["out"])},
                    "expected": {"st": hex(ALL1 if good else 0), "out": hexl(expw)}}
    return [_decide(ob, built, drv, em, [], bad, native_ok, timeout, "%s.decode_ct" % tag)]
