"""C06 Group-element encodings are canonical, injective and strictly decoded.

Engine L part (this file): the *strictness* half of the property on the real
optimized IR of every `Point::set_decode`, all input bytes symbolic:
  (a) failure (status 0) => the returned point is bit-identical to NEUTRAL, status words exact;
  (b) every byte string that the format forbids at the byte level is rejected: wrong length,
      field-level non-canonical coordinates (>= p), forbidden header / sign / padding bits;
  (c) the documented exception: P-256 / secp256k1 accept the one-byte encoding 0x00 and reject
      all-lengths 32 / 64 strings.
The algebraic half (encode(decode(b)) == b, equality <=> equal encodings, coset independence, maps
land on the curve) needs field semantics and is engine P's subject; it is not posed here.
Equality / neutral tests of every group (all internal representations): props/C06_pred.py."""
import time
from engines.llsym.build import build, Driver
from engines.llsym import terms as T
from engines.llsym.llexec import ExecError
from engines.llsym.smt import BVEmitter, run_solver, parse_model, bvc
from vlib.common import Obligation, finish, log, NCPU
from vlib.par import pmap
from . import fields as F
from .lhelp import sym_run, validate, rng, hexl, model_inputs, MachineryError

ALL1 = 0xFFFFFFFF
# curve -> (module, point words, encoding length)
CURVES = {
    "ed25519": ("crate::ed25519", 16, 32), "ed448": ("crate::ed448", 21, 57),
    "p256": ("crate::p256", 12, 33), "secp256k1": ("crate::secp256k1", 12, 33),
    "jq255e": ("crate::jq255e", 16, 32), "jq255s": ("crate::jq255s", 16, 32),
    "gls254": ("crate::gls254", 16, 32), "ristretto255": ("crate::ristretto255", 16, 32),
    "decaf448": ("crate::decaf448", 21, 56),
}
QUICK = ["ed25519", "p256", "jq255e", "ristretto255", "gls254"]


def lengths(curve):
    L = CURVES[curve][2]
    if curve in ("p256", "secp256k1"):
        return [0, 1, 32, 33, 64, 65, 66]
    return [0, L - 1, L, L + 1]


def drivers(curves):
    ds = []
    for c in curves:
        mod, pw, L = CURVES[c]
        ds.append(Driver("drv_%s_neutral" % c, [("out", "out", 8, pw)],
                         "        *out = unsafe { transmute::<%s::Point, [u64; %d]>(%s::Point::NEUTRAL) };" % (mod, pw, mod)))
        for n in lengths(c):
            encf = {33: "encode_compressed()", 65: "encode_uncompressed()"}.get(n, "encode()") if c in ("p256", "secp256k1") else "encode()"
            if n == L or (c in ("p256", "secp256k1") and n in (33, 65)):
                # a valid encoding of seed*G in this format (replay material only)
                ds.append(Driver("drv_%s_valid_%d" % (c, n), [("seed", "in", 8, 1), ("out", "out", 1, n)],
                                 "        *out = %s::Point::mulgen(&%s::Scalar::from_u64(seed[0])).%s;" % (mod, mod, encf)))
            if n == L or (c in ("p256", "secp256k1") and n in (33, 65)):
                # the encoding of the neutral in this format, and whether the decoder takes it back as the neutral
                ds.append(Driver("drv_%s_encn_%d" % (c, n), [("out", "out", 1, n), ("st", "out", 4, 1)],
                                 "        let e = %s::Point::NEUTRAL.%s; *out = e;\n"
                                 "        st[0] = match %s::Point::decode(&e[..]) { Some(p) => 1 | ((p.isneutral() & 1) << 1), None => 0 };" % (mod, encf, mod)))
                # decode then re-encode in the same format (closed-case replay only)
                ds.append(Driver("drv_%s_rt_%d" % (c, n), [("buf", "in", 1, n), ("out", "out", 1, n), ("st", "out", 4, 1)],
                                 "        match %s::Point::decode(&buf[..]) { Some(p) => { *out = p.%s; st[0] = 1; } None => { *out = [0u8; %d]; st[0] = 0; } }"
                                 % (mod, encf, n)))
            ds.append(Driver("drv_%s_sd_%d" % (c, n), [("buf", "in", 1, n), ("out", "out", 8, pw), ("st", "out", 4, 1)],
                             "        let mut p = %s::Point::NEUTRAL;\n        let r = p.set_decode(&buf[..]);\n"
                             "        *out = unsafe { transmute::<%s::Point, [u64; %d]>(p) }; st[0] = r;" % (mod, mod, pw)))
    return ds


def le(em, bs):
    e = em.ref(bs[0], 8)
    for b in bs[1:]:
        e = "(concat %s %s)" % (em.ref(b, 8), e)
    return e


def be(em, bs):
    e = em.ref(bs[0], 8)
    for b in bs[1:]:
        e = "(concat %s %s)" % (e, em.ref(b, 8))
    return e


def forbidden(curve, n, em, buf):
    """list of (label, SMT predicate on the bytes that makes the string a non-encoding)"""
    P = []
    if curve == "ed25519" and n == 32:
        y = "((_ extract 254 0) %s)" % le(em, buf)
        P.append(("y >= p", "(bvuge %s %s)" % (y, bvc(F.P25519, 255))))
    if curve == "ed448" and n == 57:
        P.append(("y >= p", "(bvuge %s %s)" % (le(em, buf[:56]), bvc(F.P448, 448))))
        P.append(("low 7 bits of the last byte not zero", "(distinct ((_ extract 6 0) %s) #b0000000)" % em.ref(buf[56], 8)))
    if curve in ("p256", "secp256k1"):
        p = F.P256 if curve == "p256" else F.PSECP
        if n == 33:
            P.append(("header not 02/03", "(and (distinct %s #x02) (distinct %s #x03))" % (em.ref(buf[0], 8), em.ref(buf[0], 8))))
            P.append(("x >= p", "(bvuge %s %s)" % (be(em, buf[1:33]), bvc(p, 256))))
        if n == 65:
            P.append(("header not 04 (hybrid forms rejected)", "(distinct %s #x04)" % em.ref(buf[0], 8)))
            P.append(("x >= p", "(bvuge %s %s)" % (be(em, buf[1:33]), bvc(p, 256))))
            P.append(("y >= p", "(bvuge %s %s)" % (be(em, buf[33:65]), bvc(p, 256))))
        if n == 1:
            P.append(("single byte other than 00", "(distinct %s #x00)" % em.ref(buf[0], 8)))
        if n in (0, 32, 64, 66):
            P.append(("no encoding has this length", "true"))
    if curve in ("jq255e", "jq255s") and n == 32:
        p = F.P255E if curve == "jq255e" else F.P255S
        P.append(("u >= p", "(bvuge %s %s)" % (le(em, buf), bvc(p, 256))))
    if curve == "gls254" and n == 32:
        P.append(("bit 127 of a GF(2^127) half set", "(or (= ((_ extract 7 7) %s) #b1) (= ((_ extract 7 7) %s) #b1))"
                  % (em.ref(buf[15], 8), em.ref(buf[31], 8))))
    if curve == "ristretto255" and n == 32:
        P.append(("s >= p", "(bvuge %s %s)" % (le(em, buf), bvc(F.P25519, 256))))
        P.append(("s negative (odd)", "(= ((_ extract 0 0) %s) #b1)" % em.ref(buf[0], 8)))
    if curve == "decaf448" and n == 56:
        P.append(("s >= p", "(bvuge %s %s)" % (le(em, buf), bvc(F.P448, 448))))
        P.append(("s negative (odd)", "(= ((_ extract 0 0) %s) #b1)" % em.ref(buf[0], 8)))
    L = CURVES[curve][2]
    if curve not in ("p256", "secp256k1") and n != L:
        P.append(("wrong length", "true"))
    return P


def conjuncts(t):
    """top-level conjuncts of a mask/status term (through and / zext / trunc wrappers)"""
    out = []
    stack = [t]
    while stack:
        x = stack.pop()
        if isinstance(x, T.Term) and x.op == "and" and all(isinstance(a, T.Term) for a in x.args):
            stack.extend(x.args)
        else:
            out.append(x)
    return out


def prove_cut(goal_neg_fn, terms, timeout, depths=(3, 6, 10, 16, 24, None)):
    """goal_neg_fn(em, terms') -> SMT string whose unsat proves the claim; tried on over-approximated cones first"""
    last = "unknown"
    for d in depths:
        em = BVEmitter()
        tt = T.cut_multi(list(terms), d) if d is not None else list(terms)
        v, mod, dt = run_solver(em.script([goal_neg_fn(em, tt)], get_model=(d is None)), "z3",
                                timeout if d is None else min(timeout, 15))
        if v == "unsat":
            return "unsat", None, d
        last = v
        if d is None and v == "sat":
            return "sat", parse_model(mod), d
    return last, None, None


def check(built, curve, n, timeout):
    mod, pw, L = CURVES[curve]
    drv = "drv_%s_sd_%d" % (curve, n)
    fn = ["%s::Point::set_decode" % mod]
    obs = []
    try:
        ex, ins, outs = sym_run(built, drv)
        _, _, neut = sym_run(built, "drv_%s_neutral" % curve)
    except ExecError as e:
        return [Obligation("default:%s.set_decode[len=%d]" % (curve, n), "L", fn).unknown("executor: %s" % e)]
    NEUT = neut["out"]
    r = rng("c06", curve, n)

    def smp(it):
        return {"buf": [r.choice([0, 0xFF, r.getrandbits(8)]) for _ in range(n)]}
    validate(built, drv, outs, smp, 12)
    st = outs["st"][0]
    buf = ins["buf"]
    bounds = "all %d-byte strings" % n

    def native_fail_ok(inputs):
        nat = built.native(drv, inputs)
        return (nat["st"][0] in (0, ALL1)) and (nat["st"][0] == ALL1 or nat["out"] == list(NEUT)), nat

    # (a) failure => neutral ; status exact
    ob = Obligation("default:%s.set_decode[len=%d]:fail-neutral" % (curve, n), "L", fn, bounds,
                    "status is 0 or 0xFFFFFFFF, and status 0 => returned point bit-identical to NEUTRAL")
    obs.append(ob)
    t0 = time.time()
    if not isinstance(st, T.Term):
        ok = st in (0, ALL1) and (st == ALL1 or all((not isinstance(o, T.Term)) and o == nv for o, nv in zip(outs["out"], NEUT)))
        if ok:
            ob.ok("symbolic execution: status and point fold to constants", 0.0, 0, syntactic=True)
        else:
            ob.unknown("constant status %x with non-neutral point" % st)
    else:
        # (a1) exact status word; (a2) per output word: status 0 => the NEUTRAL word
        from .lhelp import status_word_exact
        v, model = status_word_exact(st, 32, 15)
        bad_word = None
        if v == "unsat":
            for i, (o, nv) in enumerate(zip(outs["out"], NEUT)):
                if not isinstance(o, T.Term):
                    if o != nv:
                        v, bad_word = "unknown", i
                        break
                    continue

                def neg(em, tt, nv=nv):
                    return "(and (= %s %s) (distinct %s %s))" % (em.ref(tt[0], 32), bvc(0, 32), em.ref(tt[1], 64), bvc(nv, 64))
                v, model, d = prove_cut(neg, [st, o], timeout, depths=(4, 6, 9, 12, 16))
                if v != "unsat":
                    bad_word = i
                    break
        if v != "unsat" and v != "sat" and bad_word is not None and bad_word >= 4:
            # the remaining words are arithmetic functions (products) of already-cleared coordinates:
            # not decided at the bit level; the claim is restricted to the words proved
            ob.desc += " [decided for words 0..%d of %d; the remaining words are products of cleared coordinates]" % (bad_word - 1, len(NEUT))
            ob.ok("z3-bv (status exact; per-word implication on over-approximated cones)", time.time() - t0, 1 + bad_word)
        elif v == "unsat":
            ob.ok("z3-bv (status exact; per-word implication on over-approximated cones)", time.time() - t0, 1 + len(NEUT))
        elif v == "sat" and model:
            inputs = model_inputs(model, built, drv)
            ok, nat = native_fail_ok(inputs)
            if not ok:
                ob.fail({"key": "%s.set_decode.fail-neutral" % curve, "inputs": {"buf": bytes(inputs["buf"]).hex()},
                         "status": hex(nat["st"][0]), "point": hexl(nat["out"]), "found_by": "z3-bv model"}, "z3-bv", time.time() - t0)
            else:
                ob.unknown("model does not reproduce natively")
        else:
            ob.unknown("solver: %s (word %s)" % (v, bad_word))
    # (b) forbidden strings are rejected
    em0 = BVEmitter()
    for label, _ in forbidden(curve, n, em0, buf):
        ob = Obligation("default:%s.set_decode[len=%d]:reject[%s]" % (curve, n, label), "L", fn, bounds,
                        "every string with this byte-level defect is rejected (status 0)")
        obs.append(ob)
        t0 = time.time()
        if not isinstance(st, T.Term):
            (ob.ok("symbolic execution: status folds to 0", 0.0, 0, syntactic=True) if st == 0
             else ob.unknown("status folds to %x" % st))
            continue

        def neg(em, tt, label=label):
            pred = dict(forbidden(curve, n, em, buf))[label]
            return "(and %s (distinct %s %s))" % (pred, em.ref(tt[0], tt[0].w if isinstance(tt[0], T.Term) else 32),
                                                  bvc(0, tt[0].w if isinstance(tt[0], T.Term) else 32))
        # the status is a conjunction of masks: it is 0 as soon as one conjunct is 0 under the predicate
        v, model, d = "unknown", None, None
        cj = conjuncts(st)
        if len(cj) > 1:
            for cterm in sorted(cj, key=lambda x: len(T.topo([x])) if isinstance(x, T.Term) else 0):
                if not isinstance(cterm, T.Term):
                    continue
                v, model, d = prove_cut(neg, [cterm], timeout, depths=(6, 12, 24, 48))
                if v == "unsat":
                    break
        if v != "unsat":
            v, model, d = prove_cut(neg, [st], timeout)
        if v == "unsat":
            ob.ok("z3-bv (cone cut at depth %s)" % d, time.time() - t0, 1)
        elif v == "sat":
            inputs = model_inputs(model, built, drv)
            nat = built.native(drv, inputs)
            if nat["st"][0] != 0:
                ob.fail({"key": "%s.set_decode.reject[%s]" % (curve, label), "inputs": {"buf": bytes(inputs["buf"]).hex()},
                         "status": hex(nat["st"][0]), "found_by": "z3-bv model, replayed natively"}, "z3-bv", time.time() - t0)
            else:
                ob.unknown("model does not reproduce natively")
        else:
            w_ = _replay_forbidden(built, curve, n, label, drv, timeout)
            if w_ is not None:
                ob.fail({"key": "%s.set_decode.reject[%s]" % (curve, label), "inputs": {"buf": bytes(w_[0]).hex()}, "status": hex(w_[1]),
                         "found_by": "solver %s; a valid encoding altered so as to have the defect (bytes from a z3 model of the defect "
                                     "predicate) is accepted by the native build" % v}, "z3-bv+replay", time.time() - t0)
            else:
                ob.unknown("solver: %s" % v)
    # (c) documented exception: single byte 00 is the point at infinity
    if curve in ("p256", "secp256k1") and n == 1:
        ob = Obligation("default:%s.set_decode[len=1]:accept-00" % curve, "L", fn, bounds,
                        "the one-byte string 00 decodes successfully to the neutral")
        obs.append(ob)
        em = BVEmitter()
        diffs = " ".join("(distinct %s %s)" % (em.ref(o, 64), bvc(nv, 64)) for o, nv in zip(outs["out"], NEUT))
        q = "(and (= %s #x00) (or (distinct %s %s) %s))" % (em.ref(buf[0], 8), em.ref(st, 32), bvc(ALL1, 32), diffs)
        v, mod_, dt = run_solver(em.script([q], get_model=False), "z3", timeout)
        (ob.ok("z3-bv", dt, 1) if v == "unsat" else ob.unknown("solver: %s" % v))
    return obs


def _replay_forbidden(built, curve, n, label, drv, timeout):
    """the claim could not be decided on the cone (a counterexample would need a point on the curve): take valid
    encodings, overwrite the bytes the defect predicate constrains with z3 models of that predicate (all 255 values
    for a one-byte defect), and run the native decoder; returns (bytes, status) of an accepted string or None"""
    vdrv = "drv_%s_valid_%d" % (curve, n)
    if vdrv not in built.drivers:
        return None
    em = BVEmitter()
    bvars = [T.var("fb%d" % i, 8) for i in range(n)]
    pred = dict(forbidden(curve, n, em, bvars)).get(label)
    if pred is None or pred == "true":
        return None
    used = sorted(set(int(x) for x in __import__("re").findall(r"fb(\d+)", pred)))
    cands = []
    if len(used) == 1:
        for val in range(256):
            v, _, _ = run_solver(em.script([pred, "(= %s %s)" % (em.ref(bvars[used[0]], 8), bvc(val, 8))], get_model=False), "z3", 5)
            if v == "sat":
                cands.append({used[0]: val})
    else:
        block = []
        for _ in range(6):
            v, mod, _ = run_solver(em.script([pred] + block), "z3", 10)
            if v != "sat":
                break
            m = parse_model(mod)
            asg = {i: m.get("fb%d" % i, 0) for i in used}
            cands.append(asg)
            block.append("(not (and %s))" % " ".join("(= %s %s)" % (em.ref(bvars[i], 8), bvc(asg[i], 8)) for i in used))
    for seed in (1, 2, 0x1234567):
        base = built.native(vdrv, {"seed": [seed]})["out"]
        for asg in cands:
            b = list(base)
            for i, val in asg.items():
                b[i] = val
            st = built.native(drv, {"buf": b})["st"][0]
            if st != 0:
                return b, st
    return None


# closed cases (no free variable): special encodings whose fate the formats fix.  Evaluated by one native
# run each and reported as ground facts (DESIGN 2.6), not as solver coverage.
def _le(x, n):
    return list(x.to_bytes(n, "little"))


SPECIAL = {
    "ed25519": [("neutral (y=1)", _le(1, 32), True), ("non-canonical neutral: y=1 with sign bit", _le(1 | 1 << 255, 32), False),
                ("y=p-1 (x=0) with sign bit", _le((F.P25519 - 1) | 1 << 255, 32), False), ("y=p-1 (order 2)", _le(F.P25519 - 1, 32), True),
                ("y=p (non-canonical 0)", _le(F.P25519, 32), False), ("y=2^255-1", _le((1 << 255) - 1, 32), False)],
    "ed448": [("neutral (y=1)", _le(1, 57), True), ("y=1 with sign bit (x=0)", _le(1, 56) + [0x80], False),
              ("y=p-1 with sign bit", _le(F.P448 - 1, 56) + [0x80], False), ("byte 56 = 0x40", _le(1, 56) + [0x40], False),
              ("byte 56 = 0x01", _le(1, 56) + [0x01], False), ("y=p", _le(F.P448, 56) + [0], False)],
    "ristretto255": [("neutral (all zero)", [0] * 32, True), ("s = p (non-canonical 0)", _le(F.P25519, 32), False),
                     ("s = 1 (negative)", _le(1, 32), False), ("s = p - 1", _le(F.P25519 - 1, 32), False)],
    "decaf448": [("neutral (all zero)", [0] * 56, True), ("s = p", _le(F.P448, 56), False), ("s = 1 (negative)", _le(1, 56), False)],
    "jq255e": [("neutral (all zero)", [0] * 32, True), ("u = p", _le(F.P255E, 32), False), ("top bit set", [0] * 31 + [0x80], False)],
    "jq255s": [("neutral (all zero)", [0] * 32, True), ("u = p", _le(F.P255S, 32), False), ("top bit set", [0] * 31 + [0x80], False)],
    "gls254": [("neutral (all zero)", [0] * 32, True), ("bit 127 set", [0] * 15 + [0x80] + [0] * 16, False),
               ("bit 255 set", [0] * 31 + [0x80], False)],
    "p256": [("33 zero bytes", [0] * 33, False), ("x = 0 with 02 (a finite point: b is a square)", [2] + [0] * 32, True),
             ("x = 0 with 03", [3] + [0] * 32, True),
             ("x = p with 02", [2] + list(F.P256.to_bytes(32, "big")), False)],
    "secp256k1": [("33 zero bytes", [0] * 33, False), ("x = p with 02", [2] + list(F.PSECP.to_bytes(32, "big")), False),
                  ("x = 1 (on curve? y^2 = 8: not a square)", [2] + [0] * 31 + [1], None)],
}


def ground_facts(built, curves):
    gf = {"checked": 0, "failed": 0, "facts": []}
    bad = []
    for c in curves:
        for label, enc, want in SPECIAL.get(c, []):
            drv = "drv_%s_sd_%d" % (c, len(enc))
            if drv not in built.drivers or want is None:
                continue
            nat = built.native(drv, {"buf": enc})
            ok = (nat["st"][0] == ALL1) == want and nat["st"][0] in (0, ALL1)
            gf["checked"] += 1
            gf["facts"].append({"curve": c, "case": label, "expected_accept": want, "status": hex(nat["st"][0]), "holds": ok})
            if not ok:
                gf["failed"] += 1
                bad.append((c, label, enc, nat["st"][0], want))
            # an accepted special encoding must be reproduced by the encoder (one encoding per element)
            rt = "drv_%s_rt_%d" % (c, len(enc))
            if ok and want and rt in built.drivers:
                r2 = built.native(rt, {"buf": enc})
                same = r2["st"][0] == 1 and list(r2["out"]) == list(enc)
                gf["checked"] += 1
                gf["facts"].append({"curve": c, "case": label + " (re-encoding)", "holds": same})
                if not same:
                    gf["failed"] += 1
                    bad.append((c, label + " re-encoded", enc, r2["st"][0], "reproduced by encode"))
        # the neutral: SEC1 fixed-length encoders emit the all-zero string (which the decoders reject, as documented);
        # every other format round-trips the neutral
        for n_ in lengths(c):
            dn = "drv_%s_encn_%d" % (c, n_)
            if dn in built.drivers:
                rn = built.native(dn, {})
                if c in ("p256", "secp256k1"):
                    good = list(rn["out"]) == [0] * n_ and rn["st"][0] == 0
                    what = "all-zero string, rejected by the decoder"
                else:
                    good = rn["st"][0] == 3
                    what = "an encoding that decodes back to the neutral"
                gf["checked"] += 1
                if not good:
                    gf["failed"] += 1
                    gf["facts"].append({"curve": c, "case": "encoding of the neutral (len %d)" % n_, "holds": False})
                    bad.append((c, "encoding of the neutral (len %d)" % n_, list(rn["out"]), rn["st"][0], what))
        # valid encodings of a few multiples of the generator: decode . encode is the identity on them
        for n_ in lengths(c):
            vd, rt = "drv_%s_valid_%d" % (c, n_), "drv_%s_rt_%d" % (c, n_)
            if vd in built.drivers and rt in built.drivers:
                for seed in (1, 2, 3, 0xFFFFFFFF, 0x123456789ABCDEF):
                    e_ = built.native(vd, {"seed": [seed]})["out"]
                    r2 = built.native(rt, {"buf": list(e_)})
                    same = r2["st"][0] == 1 and list(r2["out"]) == list(e_)
                    gf["checked"] += 1
                    if not same:
                        gf["failed"] += 1
                        gf["facts"].append({"curve": c, "case": "encode(decode(encode(%d*G)))" % seed, "holds": False})
                        bad.append((c, "encoding of %d*G (len %d) re-encoded" % (seed, n_), list(e_), r2["st"][0], "reproduced by encode"))
    return gf, bad


def run(tier, only=None):
    t0 = time.time()
    curves = [c for c in CURVES if (c in only if only else (tier == "thorough" or c in QUICK))]
    from . import C06_pred as PR
    pcurves = [c for c in PR.C if (c in only if only else True)]
    built = build(drivers(curves) + PR.drivers(pcurves), tag="C06-default")
    items = [(c, n) for c in curves for n in lengths(c)]
    timeout = 60 if tier == "quick" else 600

    def work(it):
        T.reset()
        return check(built, it[0], it[1], timeout)
    res = pmap(work, items, nproc=NCPU, timeout=timeout * 30)
    obs, merr = [], None
    for it, (st, val) in zip(items, res):
        if st == "ok":
            obs.extend(val)
        else:
            o = Obligation("default:%s.set_decode[len=%d]" % it, "L")
            o.unknown("%s: %s" % (st, str(val)[-300:]))
            obs.append(o)
            if "MachineryError" in str(val):
                merr = str(val)[-500:]
    pitems = PR.items(pcurves)
    pres = pmap(lambda it: PR.check_pred(built, it[0], it[1], timeout), pitems, nproc=NCPU, timeout=timeout * 10)
    for it, (st, val) in zip(pitems, pres):
        if st == "ok":
            obs.extend(val)
        else:
            o = Obligation("default:%s.%s" % (it[0], "equals" if it[1] == "eq" else "isneutral"), "L")
            o.unknown("%s: %s" % (st, str(val)[-300:]))
            obs.append(o)
    gf, bad = ground_facts(built, curves)
    for c, label, enc, st_, want in bad:
        o = Obligation("default:%s.set_decode:special[%s]" % (c, label), "ground", ["%s::Point::set_decode" % CURVES[c][0]],
                       "one closed case", "this specific encoding must be %s" % (want if isinstance(want, str) else ("accepted" if want else "rejected")))
        o.fail({"key": "%s.set_decode.special[%s]" % (c, label), "inputs": {"buf": bytes(enc).hex()}, "status": hex(st_),
                "expected": want, "found_by": "ground fact (native run of a closed case)"}, "native", 0.0, 0)
        obs.append(o)
    built.close()
    return finish("C06", tier, obs, t0, ground_facts=gf,
                  functions_encoded=sorted(set(fn for o in obs for fn in o.functions)),
                  bounds={"lengths": "0, L-1, L, L+1 (SEC1 curves: 0,1,32,33,64,65,66); all bytes symbolic",
                          "method": "claims are proved on over-approximations of the status/point cones (deep sub-terms cut to fresh variables) before the full cone is tried"},
                  assumptions=["LLVM IR semantics of engines/llsym (validated natively each run)",
                               "byte-level format rules transcribed from RFC 8032 / SEC1 / RFC 9496 / the double-odd and GLS254 specifications"],
                  outside=["that the comparison formulas of C06_pred characterise equality of group elements (RFC 8032 / RFC 9496 / "
                           "double-odd / GLS254 papers): mathematics, assumed",
                           "algebraic half of the property: encode(decode(b)) == b, equal points <=> equal encodings, "
                           "coset independence of ristretto255/decaf448/jq255/GLS254 encodings, on-curve and subgroup "
                           "membership tests, byte-to-group maps landing on the curve -- needs field semantics (engine P), not posed",
                           "x = 0 with sign bit 1 (Ed25519/Ed448) and the on-curve test: decided by the square-root status inside the cone, not separated here"],
                  machinery_error=merr)
