"""C06 (equality / neutral tests of group elements): `Point::equals` and `Point::isneutral`
of every curve and prime-order abstraction, on the real optimized IR, all coordinate limbs of
both operands symbolic (every internal representation, including non-normalised field values
and torsion-shifted representatives, is an instance).

Claim per (curve, predicate): the status word returned by the library function is identical, for
all coordinate values, to the status word of the *specified comparison formula* evaluated with the
library's field operations (whose values are C01's / C20's subject):

  ed25519, ed448, p256, secp256k1   equals: X1*Z2 == X2*Z1  and  Y1*Z2 == Y2*Z1     (projective equality)
  ristretto255 (RFC 9496 4.3.3)     equals: X1*Y2 == Y1*X2  or   Y1*Y2 == X1*X2
  decaf448   (RFC 9496 5.3.3)       equals: X1*Y2 == Y1*X2
  jq255e / jq255s                   equals: U1*E2 == U2*E1
  gls254                            equals: S1*T2 == S2*T1
  neutral tests: Edwards Y == Z; short Weierstrass Z == 0; ristretto255 X == 0 or Y == 0;
                 decaf448 X == 0; jq255 U == 0; gls254 X == 0.

Deciding step: z3 (bit-vectors) on the pair of output terms; shared sub-terms (the field
multiplications) are cut to fresh variables first (sound over-approximation of "equal for all
inputs"); a satisfying assignment of the uncut query is replayed on the native build and only a
reproduced difference is reported.  That the formulas characterise equality of group elements is
mathematics (RFC 8032 / RFC 9496 / the double-odd and GLS254 papers) and is an assumption."""
import time
from engines.llsym.build import build, Driver
from engines.llsym import terms as T
from engines.llsym.llexec import ExecError
from engines.llsym.smt import BVEmitter, run_solver, parse_model, bvc
from vlib.common import Obligation, log, NCPU
from . import fields as F
from .fields import limbs_int, int_limbs
from .lhelp import sym_run, validate, rng, hexl, model_inputs

ALL1 = 0xFFFFFFFF
FB = {f.tag: f for f in F.FIELDS}


class FakeBin:
    """GFb254: 4 words, every pattern valid"""
    tag, n, q, kind = "gfb254", 4, 0, "raw"

    def valid(self, X):
        return True


# curve -> (host file, field type (as visible in the host), field catalog tag, coordinate names,
#           constructor template, equals formula, isneutral formula)
C = {
    "ed25519": ("src/ed25519.rs", "GF25519", "gf25519", ["X", "Y", "Z", "T"], "Point { X: %s, Y: %s, Z: %s, T: %s }",
                "(X1 * Z2).equals(X2 * Z1) & (Y1 * Z2).equals(Y2 * Z1)", "Y1.equals(Z1)"),
    "ed448": ("src/ed448.rs", "GF448", "gf448", ["X", "Y", "Z"], "Point { X: %s, Y: %s, Z: %s }",
              "(X1 * Z2).equals(X2 * Z1) & (Y1 * Z2).equals(Y2 * Z1)", "Y1.equals(Z1)"),
    "p256": ("src/p256.rs", "GFp256", "gfp256", ["X", "Y", "Z"], "Point { X: %s, Y: %s, Z: %s }",
             "(X1 * Z2).equals(X2 * Z1) & (Y1 * Z2).equals(Y2 * Z1)", "Z1.iszero()"),
    "secp256k1": ("src/secp256k1.rs", "GFsecp256k1", "gfsecp256k1", ["X", "Y", "Z"], "Point { X: %s, Y: %s, Z: %s }",
                  "(X1 * Z2).equals(X2 * Z1) & (Y1 * Z2).equals(Y2 * Z1)", "Z1.iszero()"),
    "ristretto255": ("src/ristretto255.rs", "crate::backend::GF255::<19>", "gf25519", ["X", "Y", "Z", "T"],
                     "Point(crate::ed25519::Point { X: %s, Y: %s, Z: %s, T: %s })",
                     "(X1 * Y2).equals(Y1 * X2) | (Y1 * Y2).equals(X1 * X2)", "X1.iszero() | Y1.iszero()"),
    "decaf448": ("src/decaf448.rs", "crate::backend::GF448", "gf448", ["X", "Y", "Z"],
                 "Point(crate::ed448::Point { X: %s, Y: %s, Z: %s })",
                 "(X1 * Y2).equals(Y1 * X2)", "X1.iszero()"),
    "jq255e": ("src/jq255e.rs", "GF255e", "gf255e", ["E", "Z", "U", "T"], "Point { E: %s, Z: %s, U: %s, T: %s }",
               "(U1 * E2).equals(U2 * E1)", "U1.iszero()"),
    "jq255s": ("src/jq255s.rs", "GF255s", "gf255s", ["E", "Z", "U", "T"], "Point { E: %s, Z: %s, U: %s, T: %s }",
               "(U1 * E2).equals(U2 * E1)", "U1.iszero()"),
    "gls254": ("src/gls254.rs", "GFb254", "gfb254", ["X", "S", "Z", "T"], "Point { X: %s, S: %s, Z: %s, T: %s }",
               "(S1 * T2).equals(S2 * T1)", "X1.iszero()"),
}
QUICK = ["ed25519", "p256", "ristretto255", "decaf448", "jq255e", "gls254"]


def field_of(c):
    tag = C[c][2]
    return FakeBin() if tag == "gfb254" else FB[tag]


def drivers(curves):
    ds = []
    for c in curves:
        host, fty, ftag, coords, ctor, eqf, isnf = C[c]
        f = field_of(c)
        n, k = f.n, len(coords)
        W = n * k

        def unpack(arr, sfx):
            s = ""
            for i, cn in enumerate(coords):
                s += ("        let %s%s: %s = unsafe { transmute::<[u64; %d], %s>([%s]) };\n"
                      % (cn, sfx, fty, n, fty, ", ".join("%s[%d]" % (arr, i * n + j) for j in range(n))))
            return s
        mk1 = ctor % tuple("%s1" % cn for cn in coords)
        mk2 = ctor % tuple("%s2" % cn for cn in coords)
        P2 = [("a", "in", 8, W), ("b", "in", 8, W), ("st", "out", 4, 1)]
        P1 = [("a", "in", 8, W), ("st", "out", 4, 1)]
        ds.append(Driver("drv_%s_peq" % c, P2, unpack("a", "1") + unpack("b", "2") +
                         "        let p = %s; let q = %s;\n        st[0] = p.equals(q);" % (mk1, mk2), host))
        ds.append(Driver("drv_%s_peq_ref" % c, P2, unpack("a", "1") + unpack("b", "2") +
                         "        st[0] = %s;" % eqf, host))
        ds.append(Driver("drv_%s_pisn" % c, P1, unpack("a", "1") +
                         "        let p = %s;\n        st[0] = p.isneutral();" % mk1, host))
        ds.append(Driver("drv_%s_pisn_ref" % c, P1, unpack("a", "1") + "        st[0] = %s;" % isnf, host))
    return ds


def boundary(f, r):
    if f.tag == "gfb254":
        return [0, 1, (1 << 127) - 1, 1 << 127, 1 << 128, (1 << 256) - 1] + [r.getrandbits(256) for _ in range(6)]
    lim = 1 << (64 * f.n)
    vs = [0, 1, 2, f.q - 1, f.q, f.q + 1, 2 * f.q, 2 * f.q + 1, lim - 1, lim - f.q] + [r.getrandbits(64 * f.n) for _ in range(6)]
    return [v for v in vs if 0 <= v < lim and f.valid(v)]


def check_pred(built, c, pred, timeout):
    host, fty, ftag, coords, ctor, eqf, isnf = C[c]
    f = field_of(c)
    n, k = f.n, len(coords)
    drv, ref = "drv_%s_p%s" % (c, pred), "drv_%s_p%s_ref" % (c, pred)
    fn = "%s::Point::%s" % (host[4:-3], "equals" if pred == "eq" else "isneutral")
    formula = eqf if pred == "eq" else isnf
    ob = Obligation("default:%s.%s" % (c, "equals" if pred == "eq" else "isneutral"), "L", [fn],
                    "all %d-bit coordinate patterns of %s%s" % (64 * n, "both operands" if pred == "eq" else "the operand",
                                                               "" if f.kind == "raw" else " (field invariant: below the modulus)"),
                    "status word identical to the specified formula  %s  (0xFFFFFFFF / 0x00000000)" % formula)
    t0 = time.time()
    names = ["a", "b"] if pred == "eq" else ["a"]
    try:
        T.reset()
        ex1, ins1, o1 = sym_run(built, drv)
        ex2, ins2, o2 = sym_run(built, ref)
    except ExecError as e:
        return [ob.unknown("executor: %s" % e)]
    r = rng("pred", c, pred)
    bv = boundary(f, r)

    def smp(it):
        return {nm: [w for _ in range(k) for w in int_limbs(r.choice(bv), n)] for nm in names}
    validate(built, drv, o1, smp, 16)
    validate(built, ref, o2, smp, 16)
    x, y = o1["st"][0], o2["st"][0]
    if x is y:
        return [ob.ok("terms identical after folding (hash-consed DAG of both drivers)", time.time() - t0, 0, syntactic=True)]

    def differs(inputs):
        a = built.native(drv, inputs)["st"][0]
        b = built.native(ref, inputs)["st"][0]
        return a != b, a, b

    def viol(inputs, a, b, how, nq):
        return [ob.fail({"key": "%s.%s" % (c, "equals" if pred == "eq" else "isneutral"),
                         "inputs": {nm: hexl(inputs[nm]) for nm in names}, "coordinates": coords,
                         "library_status": hex(a), "formula_status": hex(b), "formula": formula,
                         "found_by": how}, "z3-bv", time.time() - t0, nq)]
    # the inputs of the two runs are the same variables (same names => same hash-consed vars)
    nq = 0
    assume = []

    def script_goal(em, tt):
        g = ["(distinct %s %s)" % (em.ref(tt[0], 32), em.ref(tt[1], 32))]
        if f.kind != "raw":
            for nm in names:
                for ci in range(k):
                    ws = ins1[nm][ci * n:(ci + 1) * n]
                    A = em.ref(ws[0], 64)
                    for w in ws[1:]:
                        A = "(concat %s %s)" % (em.ref(w, 64), A)
                    g.append("(bvult %s %s)" % (A, bvc(f.q, 64 * n)))
        return g
    last = "unknown"
    for d in (4, 8, 12, 20, 32, None):
        em = BVEmitter()
        tt = T.cut_multi([x, y], d) if d is not None else [x, y]
        v, mod, dt = run_solver(em.script(script_goal(em, tt), get_model=(d is None)), "z3",
                                min(timeout, 20) if d is not None else timeout)
        nq += 1
        if v == "unsat":
            return [ob.ok("z3-bv on the two status cones, shared sub-terms below depth %s cut to fresh variables" % d,
                          time.time() - t0, nq)]
        last = v
        if d is None and v == "sat":
            inputs = model_inputs(parse_model(mod), built, drv)
            df, a, b = differs(inputs)
            if df:
                return viol(inputs, a, b, "z3-bv model of the full query, replayed natively", nq)
            return [ob.unknown("z3 model does not reproduce natively (translator defect?)")]
    # undecided by the solver: boundary replay (native), only to turn an open query into a witness
    for it in range(4000):
        inputs = smp(it)
        df, a, b = differs(inputs)
        if df:
            return viol(inputs, a, b, "solver undecided (%s); boundary-value replay on the native build" % last, nq)
    return [ob.unknown("solver: %s on the full query; no native witness in 4000 boundary replays" % last)]


def items(curves):
    return [(c, p) for c in curves for p in ("eq", "isn")]
