"""C07 Ed25519 verification equals the strict cofactored RFC 8032 predicate
(engine L with contract stubs at cut-point functions; see props/glue.py).

Decided here, for all public keys / signatures / messages of the lengths in
the bound: the byte-level *glue* of `PublicKey::decode` + `verify_raw /
verify_ctx / verify_ph`:
   accept  <=>  len(sig) = 64  /\\  A decodes  /\\  R = decode(sig[0..32]) succeeds
                /\\  int(sig[32..64]) < L  /\\  helper(A, R, S, k)
   with S = sig[32..64] as a scalar and k = SHA-512(dom2(F,C) || R_enc || A_enc || M) mod L
where `Point::set_decode`, `Scalar::decode_reduce`, the SHA-512 compression
function and `verify_helper_vartime` are contract stubs (fresh results,
recorded arguments).  What the stubs stand for is decided elsewhere: point
decoding C06/C19, scalar codecs C05, hash C17, helper = cofactored equation
C10/C03."""
import time
from engines.llsym.build import build, Driver
from engines.llsym import terms as T
from engines.llsym.llexec import Ptr, ExecError, PanicReached
from engines.llsym.smt import BVEmitter, run_solver, parse_model, bvc
from vlib.common import Obligation, finish, log, NCPU
from vlib.par import pmap
from . import fields as F
from . import glue
from .lhelp import explore, sym_run, rng, hexl, model_inputs, _feasible, native_crashes

ALL1 = 0xFFFFFFFF
L25519 = F.L25519
DOM2 = bytes([0x53, 0x69, 0x67, 0x45, 0x64, 0x32, 0x35, 0x35, 0x31, 0x39, 0x20, 0x6E, 0x6F, 0x20, 0x45, 0x64,
              0x32, 0x35, 0x35, 0x31, 0x39, 0x20, 0x63, 0x6F, 0x6C, 0x6C, 0x69, 0x73, 0x69, 0x6F, 0x6E, 0x73])


def drivers(shapes):
    ds = []
    for variant, siglen, ctxlen, msglen in shapes:
        nm = "drv_ed25519_v%s_%d_%d_%d" % (variant, siglen, ctxlen, msglen)
        params = [("pk", "in", 1, 32), ("sig", "in", 1, siglen), ("ctx", "in", 1, ctxlen), ("msg", "in", 1, msglen),
                  ("st", "out", 4, 1)]
        call = {"raw": "k.verify_raw(&sig[..], &msg[..])",
                "ctx": "k.verify_ctx(&sig[..], &ctx[..], &msg[..])",
                "ph": "k.verify_ph(&sig[..], &ctx[..], &msg[..])"}[variant]
        body = ("        let k = match crate::ed25519::PublicKey::decode(&pk[..]) { Some(k) => k, None => { st[0] = 2; return; } };\n"
                "        st[0] = %s as u32;" % call)
        ds.append(Driver(nm, params, body))
    # reference for the strict scalar decoder (real code, same module)
    ds.append(Driver("drv_ed25519_sdec32", [("buf", "in", 1, 32), ("out", "out", 8, 4), ("st", "out", 4, 1)],
                     "        let (s, ok) = crate::ed25519::Scalar::decode32(&buf[..]);\n"
                     "        *out = unsafe { transmute::<crate::ed25519::Scalar, [u64; 4]>(s) }; st[0] = ok;"))
    return ds


class Hooks:
    def __init__(self, built):
        self.built = built
        self.lay = glue.sha2_layout(built.module, big=True)

    def install(self, ex, rec):
        if self.lay is None:
            raise ExecError("SHA-512 compression function not found / layout not discovered")
        glue.install_sha2_uf(ex, self.lay, rec, "sha512")

        def h_setdecode(ex_, name, argv, rty):
            self_p, buf_p = argv[0], argv[1]
            data = ex_.read_bytes(buf_p, 32)
            ok = rec.fresh("pdec_ok", 1)
            pt = [rec.fresh("pt", 64) for _ in range(16)]
            for i, w in enumerate(pt):
                ex_.store(Ptr(self_p.obj, self_p.off + 8 * i), 8, w)
            rec.calls.append(("set_decode", {"bytes": data, "ok": ok, "point": pt}))
            return T.t_sub(0, T.t_zext(ok, 32), 32)     # 0 or 0xFFFFFFFF
        ex.add_call_hook(r"ed25519.*Point.*set_decode", h_setdecode)

        def h_reduce(ex_, name, argv, rty):
            self_p, buf_p = argv[0], argv[1]
            n = argv[2] if len(argv) > 2 else 64
            if isinstance(n, T.Term):
                raise ExecError("symbolic length to decode_reduce")
            data = ex_.read_bytes(buf_p, n)
            sc = [rec.fresh("kred", 64) for _ in range(4)]
            for i, w in enumerate(sc):
                ex_.store(Ptr(self_p.obj, self_p.off + 8 * i), 8, w)
            rec.calls.append(("decode_reduce", {"bytes": data, "scalar": sc}))
            return None
        ex.add_call_hook(r"modint.*ModInt256.*set_decode_reduce", h_reduce)

        def h_helper(ex_, name, argv, rty):
            a = ex_.read_words(argv[0], 16, 8)
            r_ = ex_.read_words(argv[1], 16, 8)
            s = ex_.read_words(argv[2], 4, 8)
            k = ex_.read_words(argv[3], 4, 8)
            res = rec.fresh("helper", 1)
            rec.calls.append(("helper", {"A": a, "R": r_, "S": s, "k": k, "res": res}))
            return res
        ex.add_call_hook(r"ed25519.*Point.*verify_helper_vartime", h_helper)


def check_shape(built, hooks, shape, timeout):
    variant, siglen, ctxlen, msglen = shape
    drv = "drv_ed25519_v%s_%d_%d_%d" % shape
    name = "default:ed25519.verify_%s[sig=%d,ctx=%d,msg=%d]" % shape
    fn = ["ed25519::PublicKey::decode", "ed25519::PublicKey::verify_%s / verify_inner" % variant]
    ob = Obligation(name, "L", fn, "all key, signature, context and message bytes at these lengths",
                    "accept <=> strict RFC 8032 glue predicate over the stubs (see module doc)")
    t0 = time.time()
    nq = 0
    # explore with hooks: every path gets its own recorder
    results = []
    work = [[]]
    from .lhelp import Path
    import props.lhelp as LH
    recs = {}

    def setup_factory():
        rec = glue.Recorder()

        def setup(ex):
            hooks.install(ex, rec)
        return rec, setup
    # explore() calls sym_run with executor_setup=...; we need the recorder per path: wrap
    paths = []
    decisions_work = [[]]
    while decisions_work and len(paths) < 40:
        dec = decisions_work.pop()
        rec, hk = setup_factory()
        path = Path()
        pos = [0]

        def policy(ex_, c, where, dec=dec, path=path, pos=pos):
            nonlocal nq
            i = pos[0]
            pos[0] += 1
            if i < len(dec):
                path.conds.append((c, dec[i]))
                return dec[i]
            sides = []
            for val in (1, 0):
                st, _ = _feasible(path.conds + [(c, val)], 20)
                nq += 1
                if st != "unsat":
                    sides.append(val)
            if not sides:
                raise ExecError("both sides infeasible at %s" % where)
            if len(sides) == 2:
                decisions_work.append(dec[:i] + [sides[1]])
            dec.append(sides[0])
            path.conds.append((c, sides[0]))
            return sides[0]

        def setup(ex, hk=hk):
            hk(ex)
            ex.branch_policy = policy
        try:
            ex, ins, outs = sym_run(built, drv, executor_setup=setup)
            path.outcome, path.ins, path.outs = "ret", ins, outs
        except PanicReached as e:
            path.outcome, path.info = "panic", {"callee": e.callee, "where": e.where}
        except ExecError as e:
            path.outcome, path.info = "error", {"msg": str(e)}
        path.rec = rec
        paths.append(path)
    if decisions_work:
        return [ob.unknown("path budget exhausted")]
    for p in paths:
        if p.outcome == "error":
            return [ob.unknown("executor: %s" % p.info["msg"][:300])]
        if p.outcome == "panic":
            st, model = _feasible(p.conds, timeout)
            if st == "unsat":
                continue
            return [ob.unknown("a panic path is reachable in the stubbed model: %s" % p.info["callee"][:80])]
    rets = [p for p in paths if p.outcome == "ret"]
    ins = rets[0].ins
    pk, sig, ctx, msg = ins["pk"], ins["sig"], ins.get("ctx", []), ins["msg"]
    # reference strict scalar decode of sig[32..64]
    sref = None
    if siglen == 64:
        _, _, so = sym_run(built, "drv_ed25519_sdec32", concrete={"buf": sig[32:64]})
        sref = so
    problems = []
    accepted_seen = False
    for p in rets:
        st = p.outs["st"][0]
        calls = p.rec.calls
        sd = [c for t, c in calls if t == "set_decode"]
        hp = [c for t, c in calls if t == "helper"]
        dr = [c for t, c in calls if t == "decode_reduce"]
        if not sd or not glue.same_terms(sd[0]["bytes"], pk):
            problems.append("first point decoding is not applied to the 32 key bytes")
            continue
        em = BVEmitter()
        pc = ["(= %s %s)" % (em.ref(c, 1), "#b1" if v else "#b0") for c, v in p.conds]
        a_ok = "(= %s #b1)" % em.ref(sd[0]["ok"], 1)
        st_s = em.ref(st, 32)
        c0, c1, c2 = bvc(0, 32), bvc(1, 32), bvc(2, 32)
        if siglen != 64:
            if hp:
                problems.append("helper called for a wrong-length signature")
            exp = "(ite %s %s %s)" % (a_ok, c0, c2)
            v, _, _ = run_solver(em.script(pc + ["(distinct %s %s)" % (st_s, exp)], get_model=False), "z3", timeout)
            nq += 1
            if v != "unsat":
                problems.append("signature of length %d not rejected (solver: %s)" % (siglen, v))
            continue
        Sint = em.ref(sig[32], 8)
        for b in sig[33:64]:
            Sint = "(concat %s %s)" % (em.ref(b, 8), Sint)
        canon = "(bvult %s %s)" % (Sint, bvc(L25519, 256))
        r_dec = sd[1] if len(sd) >= 2 else None
        if r_dec is not None and not glue.same_terms(r_dec["bytes"], sig[0:32]):
            problems.append("R is not decoded from sig[0..32]")
            continue
        if not hp:
            # rejected before the helper: only legitimate when A, R or S is bad
            exp = "(ite %s %s %s)" % (a_ok, c0, c2)
            bad = ["(not %s)" % a_ok, "(not %s)" % canon]
            if r_dec is not None:
                bad.append("(= %s #b0)" % em.ref(r_dec["ok"], 1))
            v, _, _ = run_solver(em.script(pc + ["(or (distinct %s %s) (not (or %s)))" % (st_s, exp, " ".join(bad))],
                                           get_model=False), "z3", timeout)
            nq += 1
            if v != "unsat":
                problems.append("a path rejects without calling the helper although A, R and S are acceptable (or returns a wrong value): solver %s" % v)
            continue
        h = hp[0]
        accepted_seen = True
        if r_dec is None:
            problems.append("helper reached without decoding R")
            continue
        if not glue.same_terms(h["A"], sd[0]["point"]):
            problems.append("helper's A is not the decoded public key")
        if not glue.same_terms(h["R"], r_dec["point"]):
            problems.append("helper's R is not the decoded sig[0..32]")
        if sref is not None and not glue.same_terms(h["S"], sref["out"]):
            em2 = BVEmitter()
            diffs = ["(distinct %s %s)" % (em2.ref(x, 64), em2.ref(y, 64)) for x, y in zip(h["S"], sref["out"])
                     if x is not y]
            v = "unsat"
            if diffs:
                v, _, _ = run_solver(em2.script(["(or %s)" % " ".join(diffs)] if len(diffs) > 1 else diffs,
                                                get_model=False), "z3", timeout)
                nq += 1
            if v != "unsat":
                problems.append("helper's S is not Scalar::decode32(sig[32..64])")
        if not dr or not glue.same_terms(h["k"], dr[-1]["scalar"]):
            problems.append("helper's k is not the reduced hash")
        else:
            head = []
            if variant != "raw":
                head = list(DOM2) + [1 if variant == "ph" else 0, ctxlen] + list(ctx)
            expect = glue.sha2_uf_spec(head + list(sig[0:32]) + list(pk) + list(msg), "sha512", big=True)
            if not glue.same_terms(dr[-1]["bytes"], expect):
                problems.append("hash input is not dom2 || R || A || M (or padding/chaining differs)")
        # path condition == (A ok, R ok, S < L) and result == helper verdict
        want = "(and %s (= %s #b1) %s)" % (a_ok, em.ref(r_dec["ok"], 1), canon)
        exp = "((_ zero_extend 31) %s)" % em.ref(h["res"], 1)
        v, _, _ = run_solver(em.script(["(or (distinct (and %s) %s) (and %s (distinct %s %s)))"
                                        % (" ".join(pc) if pc else "true", want, " ".join(pc) if pc else "true", st_s, exp)],
                                       get_model=False), "z3", timeout)
        nq += 1
        if v != "unsat":
            problems.append("the helper is not reached exactly when (A ok, R ok, S < L), or its verdict is not what is returned: solver %s" % v)
    if siglen == 64 and not accepted_seen:
        problems.append("no path reaches the helper (vacuous)")
    if problems:
        return [_confirm(ob, built, drv, shape, problems, time.time() - t0, nq)]
    return [ob.ok("path-forking symbolic execution with contract stubs; z3-bv x%d; %d paths" % (nq, len(paths)),
                  time.time() - t0, nq)]


def _implies(conds, bit, val):
    """path condition implies bit == val"""
    st, _ = _feasible(list(conds) + [(bit, 1 - val)], 30)
    return st == "unsat"


def _confirm(ob, built, drv, shape, problems, secs, nq):
    """a structural mismatch is a violation candidate; confirm natively on concrete inputs with a
    reference implementation of the strict verifier"""
    from . import ed25519_ref as REF
    variant, siglen, ctxlen, msglen = shape
    r = rng("c07", drv)
    for it in range(40):
        inp = REF.adversarial_case(r, variant, siglen, ctxlen, msglen, it)
        nat = built.native(drv, inp)["st"][0]
        exp = REF.expected(inp, variant)
        if nat != exp:
            return ob.fail({"key": "ed25519.verify_%s" % variant, "problems": problems,
                            "inputs": {k: bytes(v).hex() for k, v in inp.items()}, "native": nat, "expected": exp,
                            "found_by": "structural mismatch in the stubbed model, confirmed natively against a reference verifier"},
                           "z3-bv+replay", secs, nq)
    return ob.unknown("structural mismatch (%s) not confirmed natively on the adversarial corpus" % "; ".join(problems)[:300])


QUICK = [("raw", 64, 0, 16), ("raw", 63, 0, 4), ("raw", 65, 0, 4), ("raw", 0, 0, 0), ("raw", 64, 0, 0),
         ("raw", 64, 0, 64), ("raw", 64, 0, 65), ("ctx", 64, 3, 8), ("ctx", 64, 0, 8), ("ph", 64, 2, 64)]
THOROUGH = QUICK + [("raw", 64, 0, n) for n in (1, 47, 48, 111, 112, 128, 200)] + \
    [("ctx", 64, c, 5) for c in (1, 32, 255)] + [("ph", 64, 0, 64), ("ph", 64, 255, 64), ("ctx", 63, 1, 1), ("ph", 65, 1, 64)]


def run(tier, only=None):
    from . import C07_ed448 as E4
    t0 = time.time()
    shapes = (QUICK if tier == "quick" else THOROUGH) if (not only or "ed25519" in only) else []
    shapes4 = (E4.QUICK if tier == "quick" else E4.THOROUGH) if (not only or "ed448" in only) else []
    from . import C07_sign as SG
    sshapes = (SG.QUICK if tier == "quick" else SG.THOROUGH) if (not only or "ed25519" in only or "sign" in only) else []
    from . import C07_sign448 as S4
    sshapes4 = (S4.QUICK if tier == "quick" else S4.THOROUGH) if (not only or "ed448" in only or "sign" in only) else []
    built = build(drivers(shapes) + E4.drivers(shapes4) + E4.replay_drivers() + (SG.drivers(sshapes) if sshapes else []) +
                  (S4.drivers(sshapes4) if sshapes4 else []), tag="C07-cut", cut=True)
    hooks = Hooks(built) if shapes else None
    shooks = SG.Hooks(built) if sshapes else None
    shooks4 = S4.Hooks(built) if sshapes4 else None
    timeout = 60 if tier == "quick" else 300
    items = [("25519", s) for s in shapes] + [("448", s) for s in shapes4] + [("sign", s) for s in sshapes] + \
        ([("seed", None)] if sshapes else []) + [("448.sign", s) for s in sshapes4] + ([("448.seed", None)] if sshapes4 else [])

    def work(it):
        T.reset()
        if it[0] == "25519":
            return check_shape(built, hooks, it[1], timeout)
        if it[0] == "sign":
            return SG.check_sign(built, shooks, it[1], timeout)
        if it[0] == "seed":
            return SG.check_fromseed(built, shooks, timeout)
        if it[0] == "448.sign":
            return S4.check_sign(built, shooks4, it[1], timeout)
        if it[0] == "448.seed":
            return S4.check_fromseed(built, shooks4, timeout)
        return E4.check_shape(built, it[1], timeout)
    res = pmap(work, items, nproc=NCPU, timeout=timeout * 20)
    obs = []
    for it, (st, val) in zip(items, res):
        if st == "ok":
            obs.extend(val)
        else:
            o = Obligation("default:ed%s.%s" % (it[0], str(it[1])), "L")
            o.unknown("%s: %s" % (st, str(val)[-400:]))
            obs.append(o)
    built.close()
    shapes = list(shapes) + list(shapes4)
    return finish("C07", tier, obs, t0,
                  functions_encoded=sorted(set(fn for o in obs for fn in o.functions)),
                  bounds={"shapes": [list(s) for s in shapes],
                          "sign_shapes(variant, ctx len, msg len)": [list(s) for s in sshapes],
                          "ed448_sign_shapes(variant, ctx len, msg len)": [list(s) for s in sshapes4],
                          "build": "optimized IR with --cfg pornin_crrl_verif_cut (cut-point functions kept out of line)"},
                  stubs={"ed25519::Point::set_decode": "fresh point + status bit (C06/C19)",
                         "ModInt256::set_decode_reduce": "fresh scalar (C05)",
                         "SHA2Big::process": "uninterpreted compression function (C17)",
                         "Point::verify_helper_vartime": "fresh verdict = cofactored equation (C10/C03)",
                         "ed25519::Point::set_mulgen (signing side)": "fresh point = [n]B (C04)",
                         "ed25519::Point::encode (signing side)": "fresh 32 bytes (C06)",
                         "sha3::KeccakState::process (Ed448, both sides)": "uninterpreted Keccak-f[1600] permutation; SHAKE256 = FIPS 202 sponge over it (C17)",
                         "ed448::Scalar::set_decode_reduce (both sides)": "fresh scalar (C05)",
                         "ed448::Point::set_mulgen (signing side)": "fresh point = [n]B (C04)",
                         "ed448::Point::encode (signing side)": "fresh 57 bytes (C06)"},
                  assumptions=["the stubs' contracts are decided by the checks named in `stubs`",
                               "message/context lengths beyond the listed shapes follow the same code path (lengths only drive the hash buffering: C17)"],
                  outside=["signing side (both curves): the (r + k*s).encode() arithmetic is compared with the same library operations in a reference driver, "
                           "its value mod L is C01/C05's subject; PrivateKey::generate / decode / encode (thin wrappers around from_seed) are not posed",
                           "Ed448ph: the caller's 64-byte SHAKE256 pre-hash of the message is not part of sign_ph (the pre-hashed bytes are the symbolic input)",
                           "that a signature so produced is accepted: follows from the two glue claims plus the stubs' contracts, not separately decided",
                           "that the helper implements the cofactored equation (C10) and low-order handling (C03)"])
