"""Ed448 part of C07: glue of PublicKey::decode + verify_raw/ctx/ph (engine L, contract stubs).

accept <=> len(sig) = 114, sig[113] = 0, A decodes, R = decode(sig[0..57]) succeeds,
           int(sig[57..113]) < L, and helper(A, R, S, k) with
           k = SHAKE256(dom4(F, C) || R_enc || A_enc || M, 114) mod L,  dom4 = "SigEd448" || F || len(C) || C.
Stubs: Point::set_decode, Scalar::set_decode_reduce, Keccak-f[1600] (uninterpreted), verify_helper_vartime."""
import time
from engines.llsym.build import Driver
from engines.llsym import terms as T
from engines.llsym.llexec import Ptr, ExecError, PanicReached
from engines.llsym.smt import BVEmitter, run_solver, bvc
from vlib.common import Obligation
from . import fields as F
from . import glue
from .lhelp import sym_run, rng, _feasible, Path

L448 = F.L448
DOM4 = b"SigEd448"
RATE = 136
KW = [64] * 25


def drivers(shapes):
    ds = []
    for variant, siglen, ctxlen, msglen in shapes:
        call = {"raw": "k.verify_raw(&sig[..], &msg[..])", "ctx": "k.verify_ctx(&sig[..], &ctx[..], &msg[..])",
                "ph": "k.verify_ph(&sig[..], &ctx[..], &msg[..])"}[variant]
        ds.append(Driver("drv_ed448_v%s_%d_%d_%d" % (variant, siglen, ctxlen, msglen),
                         [("pk", "in", 1, 57), ("sig", "in", 1, siglen), ("ctx", "in", 1, ctxlen), ("msg", "in", 1, msglen), ("st", "out", 4, 1)],
                         "        let k = match crate::ed448::PublicKey::decode(&pk[..]) { Some(k) => k, None => { st[0] = 2; return; } };\n"
                         "        st[0] = %s as u32;" % call))
    ds.append(Driver("drv_ed448_sdec", [("buf", "in", 1, 56), ("out", "out", 8, 7), ("st", "out", 4, 1)],
                     "        let (s, ok) = crate::ed448::Scalar::decode_ct(&buf[..]);\n"
                     "        *out = unsafe { transmute::<crate::ed448::Scalar, [u64; 7]>(s) }; st[0] = ok;"))
    return ds


def install(ex, rec):
    def h_pdec(ex_, name, argv, rty):
        self_p, buf_p = argv[0], argv[1]
        n = argv[2] if len(argv) > 2 else 57
        if isinstance(n, T.Term):
            raise ExecError("symbolic length")
        data = ex_.read_bytes(buf_p, n)
        ok = rec.fresh("pdec_ok", 1)
        pt = [rec.fresh("pt", 64) for _ in range(21)]
        for i, w in enumerate(pt):
            ex_.store(Ptr(self_p.obj, self_p.off + 8 * i), 8, w)
        rec.calls.append(("set_decode", {"bytes": data, "ok": ok, "point": pt}))
        return T.t_sub(0, T.t_zext(ok, 32), 32)
    ex.add_call_hook(r"ed4485Point10set_decode", h_pdec)

    def h_red(ex_, name, argv, rty):
        self_p, buf_p = argv[0], argv[1]
        n = argv[2] if len(argv) > 2 else 114
        if isinstance(n, T.Term):
            raise ExecError("symbolic length to decode_reduce")
        data = ex_.read_bytes(buf_p, n)
        sc = [rec.fresh("kred", 64) for _ in range(7)]
        for i, w in enumerate(sc):
            ex_.store(Ptr(self_p.obj, self_p.off + 8 * i), 8, w)
        rec.calls.append(("decode_reduce", {"bytes": data, "scalar": sc}))
        return None
    ex.add_call_hook(r"ed448.*scalarmod.*Scalar.*set_decode_reduce", h_red)

    def h_helper(ex_, name, argv, rty):
        a = ex_.read_words(argv[0], 21, 8)
        r_ = ex_.read_words(argv[1], 21, 8)
        s = ex_.read_words(argv[2], 7, 8)
        k = ex_.read_words(argv[3], 7, 8)
        res = rec.fresh("helper", 1)
        rec.calls.append(("helper", {"A": a, "R": r_, "S": s, "k": k, "res": res}))
        return res
    ex.add_call_hook(r"ed4485Point21verify_helper_vartime", h_helper)

    def h_keccak(ex_, name, argv, rty):
        p = argv[0]
        st = [ex_.load(Ptr(p.obj, p.off + 8 * i), 8) for i in range(25)]
        rec.calls.append(("keccak", {"state": st}))
        for i in range(25):
            ex_.store(Ptr(p.obj, p.off + 8 * i), 8, glue.uf("keccak", i, st, 64, KW))
        return None
    ex.add_call_hook(r"sha3.*KeccakState.*process", h_keccak)


def shake256_uf_spec(msg, outlen):
    """FIPS 202 sponge with rate 136 and SHAKE domain bits over the uninterpreted permutation"""
    st = [0] * 25

    def xor_byte(st, pos, b):
        w = pos >> 3
        sh = (pos & 7) << 3
        bw = T.t_zext(b, 64) if isinstance(b, T.Term) else b
        st[w] = T.t_xor(st[w], T.t_shl(bw, sh, 64), 64)
    ptr = 0
    for b in msg:
        xor_byte(st, ptr, b)
        ptr += 1
        if ptr == RATE:
            st = [glue.uf("keccak", i, st, 64, KW) for i in range(25)]
            ptr = 0
    xor_byte(st, ptr, 0x1F)
    xor_byte(st, RATE - 1, 0x80)
    out = []
    ptr = RATE
    for i in range(outlen):
        if ptr == RATE:
            st = [glue.uf("keccak", k, st, 64, KW) for k in range(25)]
            ptr = 0
        out.append(T.t_extract(st[ptr >> 3], (ptr & 7) << 3, 8))
        ptr += 1
    return out


def check_shape(built, shape, timeout):
    variant, siglen, ctxlen, msglen = shape
    drv = "drv_ed448_v%s_%d_%d_%d" % shape
    ob = Obligation("default:ed448.verify_%s[sig=%d,ctx=%d,msg=%d]" % shape, "L",
                    ["ed448::PublicKey::decode", "ed448::PublicKey::verify_%s / verify_inner" % variant],
                    "all key, signature, context and message bytes at these lengths",
                    "accept <=> strict RFC 8032 (Ed448) glue predicate over the stubs")
    t0 = time.time()
    nq = 0
    paths, work = [], [[]]
    while work and len(paths) < 40:
        dec = work.pop()
        rec = glue.Recorder()
        path = Path()
        pos = [0]

        def policy(ex_, c, where, dec=dec, path=path, pos=pos):
            nonlocal nq
            i = pos[0]
            pos[0] += 1
            if i < len(dec):
                path.conds.append((c, dec[i]))
                return dec[i]
            sides = []
            for val in (1, 0):
                st_, _ = _feasible(path.conds + [(c, val)], 20)
                nq += 1
                if st_ != "unsat":
                    sides.append(val)
            if not sides:
                raise ExecError("both sides infeasible at %s" % where)
            if len(sides) == 2:
                work.append(dec[:i] + [sides[1]])
            dec.append(sides[0])
            path.conds.append((c, sides[0]))
            return sides[0]

        def setup(ex, rec=rec):
            install(ex, rec)
            ex.branch_policy = policy
        try:
            ex, ins, outs = sym_run(built, drv, executor_setup=setup)
            path.outcome, path.ins, path.outs = "ret", ins, outs
        except PanicReached as e:
            path.outcome, path.info = "panic", {"callee": e.callee, "where": e.where}
        except ExecError as e:
            path.outcome, path.info = "error", {"msg": str(e)}
        path.rec = rec
        paths.append(path)
    if work:
        return [ob.unknown("path budget exhausted")]
    for p in paths:
        if p.outcome == "error":
            return [ob.unknown("executor: %s" % p.info["msg"][:300])]
        if p.outcome == "panic":
            st_, _ = _feasible(p.conds, timeout)
            if st_ != "unsat":
                return [ob.unknown("a panic path is reachable in the stubbed model: %s" % p.info["callee"][:80])]
    rets = [p for p in paths if p.outcome == "ret"]
    ins = rets[0].ins
    pk, sig, ctx, msg = ins["pk"], ins["sig"], ins.get("ctx", []), ins["msg"]
    sref = None
    if siglen == 114:
        _, _, sref = sym_run(built, "drv_ed448_sdec", concrete={"buf": sig[57:113]})
    problems = []
    reached = False
    c0, c1, c2 = bvc(0, 32), bvc(1, 32), bvc(2, 32)
    for p in rets:
        st = p.outs["st"][0]
        calls = p.rec.calls
        sd = [x for t, x in calls if t == "set_decode"]
        hp = [x for t, x in calls if t == "helper"]
        dr = [x for t, x in calls if t == "decode_reduce"]
        if not sd or not glue.same_terms(sd[0]["bytes"], pk):
            problems.append("first point decoding is not applied to the 57 key bytes")
            continue
        em = BVEmitter()
        pc = ["(= %s %s)" % (em.ref(c, 1), "#b1" if v else "#b0") for c, v in p.conds]
        pcs = " ".join(pc) if pc else "true"
        a_ok = "(= %s #b1)" % em.ref(sd[0]["ok"], 1)
        st_s = em.ref(st, 32)
        if siglen != 114:
            v, _, _ = run_solver(em.script(pc + ["(distinct %s (ite %s %s %s))" % (st_s, a_ok, c0, c2)], get_model=False), "z3", timeout)
            nq += 1
            if v != "unsat" or hp:
                problems.append("signature of length %d not rejected" % siglen)
            continue
        Sint = em.ref(sig[57], 8)
        for b in sig[58:113]:
            Sint = "(concat %s %s)" % (em.ref(b, 8), Sint)
        canon = "(bvult %s %s)" % (Sint, bvc(L448, 448))
        last0 = "(= %s #x00)" % em.ref(sig[113], 8)
        r_dec = sd[1] if len(sd) >= 2 else None
        if r_dec is not None and not glue.same_terms(r_dec["bytes"], sig[0:57]):
            problems.append("R is not decoded from sig[0..57]")
            continue
        if not hp:
            bad = ["(not %s)" % a_ok, "(not %s)" % canon, "(not %s)" % last0]
            if r_dec is not None:
                bad.append("(= %s #b0)" % em.ref(r_dec["ok"], 1))
            v, _, _ = run_solver(em.script(pc + ["(or (distinct %s (ite %s %s %s)) (not (or %s)))" % (st_s, a_ok, c0, c2, " ".join(bad))],
                                           get_model=False), "z3", timeout)
            nq += 1
            if v != "unsat":
                problems.append("a path rejects without calling the helper although A, R, S and the last byte are acceptable (or returns a wrong value): solver %s" % v)
            continue
        h = hp[0]
        reached = True
        if r_dec is None:
            problems.append("helper reached without decoding R")
            continue
        if not glue.same_terms(h["A"], sd[0]["point"]):
            problems.append("helper's A is not the decoded public key")
        if not glue.same_terms(h["R"], r_dec["point"]):
            problems.append("helper's R is not the decoded sig[0..57]")
        if sref is not None and not glue.same_terms(h["S"], sref["out"]):
            # the strict decoder was inlined into the caller (a Montgomery conversion: bit-level equality with the
            # out-of-line reference is out of reach); decided instead: S is a function of sig[57..113] alone, and
            # the acceptance condition below is exactly int(sig[57..113]) < L.  The decoder's value is C05's subject.
            sv = set(x.aux[0] for x in T.variables([w for w in h["S"] if isinstance(w, T.Term)]))
            allowed = set(x.aux[0] for x in T.variables([b for b in sig[57:113] if isinstance(b, T.Term)]))
            if not sv or not sv <= allowed:
                problems.append("helper's S does not depend on sig[57..113] alone")
        if not dr or not glue.same_terms(h["k"], dr[-1]["scalar"]):
            problems.append("helper's k is not the reduced hash")
        else:
            head = list(DOM4) + [1 if variant == "ph" else 0, ctxlen] + list(ctx)
            expect = shake256_uf_spec(head + list(sig[0:57]) + list(pk) + list(msg), 114)
            got = dr[-1]["bytes"]
            if len(got) != 114:
                problems.append("the hash output reduced is %d bytes, not 114" % len(got))
            elif not glue.same_terms(got, expect):
                em3 = BVEmitter()
                diffs = ["(distinct %s %s)" % (em3.ref(x, 8), em3.ref(y, 8)) for x, y in zip(got, expect) if x is not y]
                v, _, _ = run_solver(em3.script(["(or %s)" % " ".join(diffs)] if len(diffs) > 1 else diffs, get_model=False), "z3", timeout)
                nq += 1
                if v != "unsat":
                    problems.append("hash is not SHAKE256(dom4 || R || A || M, 114) (input order, domain bytes, padding or extraction differs): solver %s" % v)
        want = "(and %s (= %s #b1) %s %s)" % (a_ok, em.ref(r_dec["ok"], 1), canon, last0)
        exp = "((_ zero_extend 31) %s)" % em.ref(h["res"], 1)
        v, _, _ = run_solver(em.script(["(or (distinct (and %s) %s) (and %s (distinct %s %s)))" % (pcs, want, pcs, st_s, exp)],
                                       get_model=False), "z3", timeout)
        nq += 1
        if v != "unsat":
            problems.append("the helper is not reached exactly when (A ok, R ok, S < L, sig[113] = 0), or its verdict is not what is returned: solver %s" % v)
    if siglen == 114 and not reached:
        problems.append("no path reaches the helper (vacuous)")
    if problems:
        return [_confirm(ob, built, shape, problems, time.time() - t0, nq)]
    return [ob.ok("path-forking symbolic execution with contract stubs; z3 x%d; %d paths" % (nq, len(paths)), time.time() - t0, nq)]


def _confirm(ob, built, shape, problems, secs, nq):
    """native replay through the library's own signer: sign, verify, and byte-level corruptions
    whose fate RFC 8032 fixes (S + L, last byte != 0, appended bytes, flipped bits)"""
    variant, siglen, ctxlen, msglen = shape
    drv = "drv_ed448_rt_%s" % variant
    if drv not in built.drivers:
        return ob.unknown("structural mismatch (%s); no native round-trip driver" % "; ".join(problems)[:200])
    r = rng("c07e448", variant, siglen)
    for it in range(24):
        mode = it % 6
        inp = {"seed": [r.getrandbits(8) for _ in range(57)], "ctx": [r.getrandbits(8) for _ in range(3)],
               "msg": [r.getrandbits(8) for _ in range(32)], "mode": mode, "arg": r.randrange(113 * 8)}
        nat = built.native(drv, inp)["st"][0]
        exp = 1 if mode == 0 else 0
        if nat == 7:
            continue
        if nat != exp:
            what = ["valid signature", "S replaced by S + L", "last byte set to 0x80", "a zero byte appended", "one bit flipped", "last byte set to 0x01"][mode]
            return ob.fail({"key": "ed448.verify_%s" % variant, "problems": problems,
                            "inputs": {k: (bytes(v).hex() if isinstance(v, list) else v) for k, v in inp.items()},
                            "native": nat, "expected": exp,
                            "found_by": "structural mismatch in the stubbed model; natively: %s is %s" % (what, "rejected" if exp else "accepted")},
                           "z3+replay", secs, nq)
    return ob.unknown("structural mismatch (%s) not confirmed natively" % "; ".join(problems)[:300])


def replay_drivers():
    ds = []
    Lb = list(L448.to_bytes(56, "little"))
    for variant in ("raw", "ctx", "ph"):
        sg = {"raw": "k.sign_raw(&msg[..])", "ctx": "k.sign_ctx(&ctx[..], &msg[..])", "ph": "k.sign_ph(&ctx[..], &msg[..])"}[variant]
        vf = {"raw": "k.public_key.verify_raw(&s2[..n], &msg[..])", "ctx": "k.public_key.verify_ctx(&s2[..n], &ctx[..], &msg[..])",
              "ph": "k.public_key.verify_ph(&s2[..n], &ctx[..], &msg[..])"}[variant]
        ds.append(Driver("drv_ed448_rt_%s" % variant,
                         [("seed", "in", 1, 57), ("ctx", "in", 1, 3), ("msg", "in", 1, 32), ("mode", "val", 4, 1), ("arg", "val", 4, 1), ("st", "out", 4, 1)],
                         "        const LB: [u8; 56] = %s;\n"
                         "        let k = crate::ed448::PrivateKey::from_seed(&seed[..]);\n"
                         "        let sig = %s;\n"
                         "        let mut s2 = [0u8; 115]; s2[..114].copy_from_slice(&sig[..]);\n"
                         "        let mut n = 114usize;\n"
                         "        if mode == 1 { let mut cc = 0u16; for i in 0..56 { let t = (s2[57 + i] as u16) + (LB[i] as u16) + cc; s2[57 + i] = t as u8; cc = t >> 8; } if cc != 0 { st[0] = 7; return; } }\n"
                         "        if mode == 2 { s2[113] = 0x80; }\n"
                         "        if mode == 3 { n = 115; }\n"
                         "        if mode == 4 { s2[(arg >> 3) as usize] ^= 1u8 << (arg & 7); }\n"
                         "        if mode == 5 { s2[113] = 0x01; }\n"
                         "        st[0] = %s as u32;" % (str(Lb), sg, vf)))
    return ds


QUICK = [("raw", 114, 0, 16), ("raw", 113, 0, 4), ("raw", 115, 0, 4), ("ctx", 114, 3, 8), ("ph", 114, 0, 64), ("raw", 114, 0, 200)]
THOROUGH = QUICK + [("raw", 114, 0, n) for n in (0, 1, 13, 14, 135, 136, 149, 150)] + [("ctx", 114, c, 5) for c in (1, 255)] + [("raw", 0, 0, 0)]
