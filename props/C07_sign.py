"""C07, signing side (Ed25519): the byte-level glue of `PrivateKey::from_seed` and
`sign_raw / sign_ctx / sign_ph` is the deterministic RFC 8032 procedure, for all seeds / key
states / contexts / messages at the listed lengths (engine L, contract stubs, see props/glue.py).

  from_seed(seed):  hh = SHA-512(seed);  s = reduce(clamp(hh[0..32]));  h = hh[32..64];
                    A_enc = encode(mulgen(s))                                   (RFC 8032 5.1.5)
  sign(F, C, M):    r = reduce(SHA-512(dom2(F,C) || h || M));  R_enc = encode(mulgen(r));
                    k = reduce(SHA-512(dom2(F,C) || R_enc || A_enc || M));
                    sig = R_enc || encode_scalar(r + k*s)                       (RFC 8032 5.1.6)

Stubs: SHA-512 compression function (uninterpreted), `Scalar::set_decode_reduce` (fresh scalar),
`Point::set_mulgen` (fresh point), `Point::encode` (fresh bytes).  The last line's scalar
arithmetic is the real code: bytes 32..64 must be term-identical (else z3) to the real
`(r + k*s).encode()` of a reference driver applied to the stub outputs (field semantics: C01/C05).
A library-made signature is also round-tripped natively through the verifier stack (replay only)."""
import time
from engines.llsym.build import build, Driver
from engines.llsym import terms as T
from engines.llsym.llexec import Ptr, ExecError, PanicReached
from engines.llsym.smt import BVEmitter, run_solver, bvc
from vlib.common import Obligation, log
from . import glue
from .lhelp import sym_run, rng
from .C07 import DOM2

HOST = "src/ed25519.rs"


def nm_sign(shape):
    return "drv_ed25519_s%s_%d_%d" % shape


def drivers(shapes):
    ds = []
    for variant, ctxlen, msglen in shapes:
        params = [("s", "in", 8, 4), ("h", "in", 1, 32), ("pke", "in", 1, 32), ("ctx", "in", 1, ctxlen),
                  ("msg", "in", 1, msglen), ("sig", "out", 1, 64)]
        call = {"raw": "sk.sign_raw(&msg[..])", "ctx": "sk.sign_ctx(&ctx[..], &msg[..])",
                "ph": "sk.sign_ph(&ctx[..], &msg[..])"}[variant]
        body = ("        let sk = PrivateKey { s: unsafe { transmute::<[u64; 4], Scalar>(*s) }, seed: [0u8; 32], h: *h,\n"
                "            public_key: PublicKey { point: Point::NEUTRAL, encoded: *pke } };\n"
                "        *sig = %s;" % call)
        ds.append(Driver(nm_sign((variant, ctxlen, msglen)), params, body, HOST))
    ds.append(Driver("drv_ed25519_fromseed", [("seed", "in", 1, 32), ("s", "out", 8, 4), ("h", "out", 1, 32),
                                              ("pke", "out", 1, 32), ("pt", "out", 8, 16), ("sd", "out", 1, 32)],
                     "        let sk = PrivateKey::from_seed(&seed[..]);\n"
                     "        *s = unsafe { transmute::<Scalar, [u64; 4]>(sk.s) }; *h = sk.h; *pke = sk.public_key.encoded;\n"
                     "        *pt = unsafe { transmute::<Point, [u64; 16]>(sk.public_key.point) }; *sd = sk.seed;", HOST))
    ds.append(Driver("drv_ed25519_sref", [("r", "in", 8, 4), ("k", "in", 8, 4), ("s", "in", 8, 4), ("out", "out", 1, 32)],
                     "        let r_ = unsafe { transmute::<[u64; 4], Scalar>(*r) }; let k_ = unsafe { transmute::<[u64; 4], Scalar>(*k) };\n"
                     "        let s_ = unsafe { transmute::<[u64; 4], Scalar>(*s) };\n        *out = (r_ + k_ * s_).encode();", HOST))
    # native replay: sign with a seed-derived key, verify with the library and return the parts
    ds.append(Driver("drv_ed25519_signrt", [("seed", "in", 1, 32), ("msg", "in", 1, 16), ("sig", "out", 1, 64),
                                            ("pk", "out", 1, 32), ("st", "out", 4, 1)],
                     "        let sk = PrivateKey::from_seed(&seed[..]);\n        *sig = sk.sign_raw(&msg[..]); *pk = sk.public_key.encoded;\n"
                     "        st[0] = sk.public_key.verify_raw(&sig[..], &msg[..]) as u32;", HOST))
    ds.append(Driver("drv_ed25519_signrt2", [("seed", "in", 1, 32), ("msg", "in", 1, 16), ("ctx", "in", 1, 8), ("cl", "val", 4, 1), ("variant", "val", 4, 1),
                                             ("sig", "out", 1, 64), ("pk", "out", 1, 32), ("st", "out", 4, 1)],
                     "        let sk = PrivateKey::from_seed(&seed[..]); let c = &ctx[..cl as usize];\n"
                     "        *sig = match variant { 0 => sk.sign_raw(&msg[..]), 1 => sk.sign_ctx(c, &msg[..]), _ => sk.sign_ph(c, &msg[..]) }; *pk = sk.public_key.encoded;\n"
                     "        st[0] = (match variant { 0 => sk.public_key.verify_raw(&sig[..], &msg[..]), 1 => sk.public_key.verify_ctx(&sig[..], c, &msg[..]), "
                     "_ => sk.public_key.verify_ph(&sig[..], c, &msg[..]) }) as u32;", HOST))
    return ds


class Hooks:
    def __init__(self, built):
        self.lay = glue.sha2_layout(built.module, big=True)

    def install(self, ex, rec):
        if self.lay is None:
            raise ExecError("SHA-512 compression function not found / layout not discovered")
        glue.install_sha2_uf(ex, self.lay, rec, "sha512")

        def h_reduce(ex_, name, argv, rty):
            self_p, buf_p = argv[0], argv[1]
            n = argv[2] if len(argv) > 2 else 64
            if isinstance(n, T.Term):
                raise ExecError("symbolic length to decode_reduce")
            data = ex_.read_bytes(buf_p, n)
            sc = [rec.fresh("red", 64) for _ in range(4)]
            for i, w in enumerate(sc):
                ex_.store(Ptr(self_p.obj, self_p.off + 8 * i), 8, w)
            rec.calls.append(("reduce", {"bytes": data, "scalar": sc}))
            return None
        ex.add_call_hook(r"modint.*ModInt256.*set_decode_reduce", h_reduce)

        def h_mulgen(ex_, name, argv, rty):
            sc = ex_.read_words(argv[1], 4, 8)
            pt = [rec.fresh("mg", 64) for _ in range(16)]
            for i, w in enumerate(pt):
                ex_.store(Ptr(argv[0].obj, argv[0].off + 8 * i), 8, w)
            rec.calls.append(("mulgen", {"scalar": sc, "point": pt}))
            return None
        ex.add_call_hook(r"ed25519.*Point.*set_mulgen", h_mulgen)

        def h_enc(ex_, name, argv, rty):
            pt = ex_.read_words(argv[1], 16, 8)
            out = [rec.fresh("encb", 8) for _ in range(32)]
            for i, b in enumerate(out):
                ex_.store(Ptr(argv[0].obj, argv[0].off + i), 1, b)
            rec.calls.append(("enc", {"P": pt, "bytes": out}))
            return None
        ex.add_call_hook(r"ed255195Point6encode", h_enc)


def _run(built, hooks, drv):
    rec = glue.Recorder()

    def setup(ex):
        hooks.install(ex, rec)
    ex, ins, outs = sym_run(built, drv, executor_setup=setup)
    return rec, ins, outs


def _bytes_equal(xs, ys, timeout):
    """term identity, else z3 on the differing bytes; returns (verdict, queries)"""
    if glue.same_terms(xs, ys):
        return "unsat", 0
    em = BVEmitter()
    diffs = ["(distinct %s %s)" % (em.ref(x, 8) if isinstance(x, T.Term) else bvc(x, 8),
                                   em.ref(y, 8) if isinstance(y, T.Term) else bvc(y, 8))
             for x, y in zip(xs, ys) if x is not y]
    v, _, _ = run_solver(em.script(["(or %s)" % " ".join(diffs)] if len(diffs) > 1 else diffs, get_model=False), "z3", timeout)
    return v, 1


def check_sign(built, hooks, shape, timeout):
    variant, ctxlen, msglen = shape
    drv = nm_sign(shape)
    ob = Obligation("default:ed25519.sign_%s[ctx=%d,msg=%d]" % shape, "L",
                    ["ed25519::PrivateKey::sign_%s / sign_inner" % variant],
                    "all key states (s, h, encoded public key), context and message bytes at these lengths",
                    "sig = encode(mulgen(r)) || encode_scalar(r + k*s), r and k the reduced RFC 8032 hashes (see module doc)")
    t0 = time.time()
    nq = 0
    try:
        rec, ins, outs = _run(built, hooks, drv)
    except PanicReached as e:
        # the lengths are concrete: a panic on this path is a panic for inputs of this shape; reproduce natively (child process)
        from .lhelp import native_crashes
        r_ = rng("signpanic", drv)
        d_ = built.drivers[drv]
        inp = {}
        for name_, kind_, eb_, cnt_ in d_.params:
            if kind_ == "in":
                inp[name_] = [r_.getrandbits(8 * eb_) for _ in range(cnt_)]
        crashed, err = native_crashes(built, drv, inp)
        if crashed:
            return [ob.fail({"key": "%s.sign.panic" % "ed25519", "inputs": {k_: [hex(x) for x in v_][:8] for k_, v_ in inp.items()}, "shape": list(shape),
                             "panic": {"callee": e.callee, "where": e.where}, "native_stderr": err[-300:],
                             "found_by": "panic reached on the single path of this shape; reproduced natively"}, "replay", time.time() - t0, 0)]
        return [ob.unknown("panic reached in the stubbed model: %s (not reproduced natively)" % e.callee[:80])]
    except ExecError as e:
        return [ob.unknown("executor: %s" % str(e)[:300])]
    s, h, pke, ctx, msg = ins["s"], ins["h"], ins["pke"], ins.get("ctx", []), ins["msg"]
    sig = outs["sig"]
    red = [c for t, c in rec.calls if t == "reduce"]
    mg = [c for t, c in rec.calls if t == "mulgen"]
    enc = [c for t, c in rec.calls if t == "enc"]
    problems = []
    head = []
    if variant != "raw":
        head = list(DOM2) + [1 if variant == "ph" else 0, ctxlen] + list(ctx)
    if len(red) != 2 or len(mg) != 1 or len(enc) != 1:
        problems.append("unexpected call structure: %d reductions, %d mulgen, %d point encodings" % (len(red), len(mg), len(enc)))
    else:
        e1 = glue.sha2_uf_spec(head + list(h) + list(msg), "sha512", big=True)
        if not glue.same_terms(red[0]["bytes"], e1):
            problems.append("nonce hash input is not dom2 || h || M (or padding/chaining differs)")
        if not glue.same_terms(mg[0]["scalar"], red[0]["scalar"]):
            problems.append("R is not mulgen(r) for the reduced nonce hash r")
        if not glue.same_terms(enc[0]["P"], mg[0]["point"]):
            problems.append("the encoded point is not R")
        e2 = glue.sha2_uf_spec(head + list(enc[0]["bytes"]) + list(pke) + list(msg), "sha512", big=True)
        if not glue.same_terms(red[1]["bytes"], e2):
            problems.append("challenge hash input is not dom2 || R_enc || A_enc || M (or padding/chaining differs)")
        if not glue.same_terms(list(sig[0:32]), enc[0]["bytes"]):
            problems.append("sig[0..32] is not encode(R)")
        _, _, so = sym_run(built, "drv_ed25519_sref", concrete={"r": red[0]["scalar"], "k": red[1]["scalar"], "s": list(s)})
        v, q = _bytes_equal(list(sig[32:64]), so["out"], timeout)
        nq += q
        if v != "unsat":
            problems.append("sig[32..64] is not encode_scalar(r + k*s) (solver: %s)" % v)
    if problems:
        return [_confirm(ob, built, shape, problems, time.time() - t0, nq)]
    return [ob.ok("symbolic execution with contract stubs; hash inputs / wiring by term identity%s"
                  % ("; z3-bv x%d" % nq if nq else ""), time.time() - t0, max(nq, 1), syntactic=(nq == 0))]


def check_fromseed(built, hooks, timeout):
    ob = Obligation("default:ed25519.from_seed", "L", ["ed25519::PrivateKey::from_seed"], "all 32-byte seeds",
                    "s = reduce(clamp(SHA-512(seed)[0..32])), h = SHA-512(seed)[32..64], A_enc = encode(mulgen(s)), seed kept")
    t0 = time.time()
    try:
        rec, ins, outs = _run(built, hooks, "drv_ed25519_fromseed")
    except PanicReached as e:
        return [ob.unknown("panic reached in the stubbed model: %s" % e.callee[:80])]
    except ExecError as e:
        return [ob.unknown("executor: %s" % str(e)[:300])]
    seed = ins["seed"]
    red = [c for t, c in rec.calls if t == "reduce"]
    mg = [c for t, c in rec.calls if t == "mulgen"]
    enc = [c for t, c in rec.calls if t == "enc"]
    problems = []
    nq = 0
    if len(red) != 1 or len(mg) != 1 or len(enc) != 1:
        problems.append("unexpected call structure: %d reductions, %d mulgen, %d encodings" % (len(red), len(mg), len(enc)))
    else:
        hh = glue.sha2_uf_spec(list(seed), "sha512", big=True)
        cl = list(hh[0:32])
        cl[0] = T.t_and(cl[0], 0xF8, 8)
        cl[31] = T.t_or(T.t_and(cl[31], 0x7F, 8), 0x40, 8)
        v, q = _bytes_equal(list(red[0]["bytes"]), cl, timeout)
        nq += q
        if len(red[0]["bytes"]) != 32 or v != "unsat":
            problems.append("secret scalar is not reduce(clamp(SHA-512(seed)[0..32]))")
        if not glue.same_terms(list(outs["s"]), red[0]["scalar"]):
            problems.append("stored s is not the reduced clamped half")
        if not glue.same_terms(list(outs["h"]), list(hh[32:64])):
            problems.append("stored h is not SHA-512(seed)[32..64]")
        if not glue.same_terms(mg[0]["scalar"], red[0]["scalar"]):
            problems.append("public point is not mulgen(s)")
        if not glue.same_terms(list(outs["pt"]), mg[0]["point"]) or not glue.same_terms(enc[0]["P"], mg[0]["point"]):
            problems.append("public key point / encoded point is not mulgen(s)")
        if not glue.same_terms(list(outs["pke"]), enc[0]["bytes"]):
            problems.append("encoded public key is not encode(mulgen(s))")
        if not glue.same_terms(list(outs["sd"]), list(seed)):
            problems.append("seed is not kept")
    if problems:
        return [_confirm(ob, built, None, problems, time.time() - t0, nq)]
    return [ob.ok("symbolic execution with contract stubs; term identity%s" % ("; z3-bv x%d" % nq if nq else ""),
                  time.time() - t0, max(nq, 1), syntactic=(nq == 0))]


def _confirm(ob, built, shape, problems, secs, nq):
    """structural mismatch: confirm natively that library signatures differ from the RFC 8032 reference
    (pure Python) on seed-derived keys"""
    from . import ed25519_ref as REF
    r = rng("c07s", str(shape))
    variant, cl = "raw", 0
    if shape is not None:
        variant, cl = shape[0], min(shape[1], 8)
    vnum = {"raw": 0, "ctx": 1, "ph": 2}[variant]
    for it in range(24):
        seed = [r.getrandbits(8) for _ in range(32)]
        msg = [r.getrandbits(8) for _ in range(16)]
        ctx = [r.getrandbits(8) for _ in range(8)]
        nat = built.native("drv_ed25519_signrt2", {"seed": seed, "msg": msg, "ctx": ctx, "cl": cl, "variant": vnum})
        want_pk, want_sig = REF.sign(bytes(seed), bytes(msg), variant, bytes(ctx[:cl]))
        if bytes(nat["pk"]) != want_pk or bytes(nat["sig"]) != want_sig or nat["st"][0] != 1:
            return ob.fail({"key": ob.name.split(":", 1)[1].split("[")[0], "problems": problems,
                            "inputs": {"seed": bytes(seed).hex(), "msg": bytes(msg).hex(), "variant": variant, "ctx": bytes(ctx[:cl]).hex()},
                            "native": {"pk": bytes(nat["pk"]).hex(), "sig": bytes(nat["sig"]).hex(), "verify": nat["st"][0]},
                            "expected": {"pk": want_pk.hex(), "sig": want_sig.hex()},
                            "found_by": "structural mismatch in the stubbed model, confirmed natively against an RFC 8032 reference signer"},
                           "z3-bv+replay", secs, nq)
    return ob.unknown("structural mismatch (%s) not confirmed natively (this variant, context of at most 8 bytes, 16-byte messages, 24 seeds)" % "; ".join(problems)[:300])


QUICK = [("raw", 0, 0), ("raw", 0, 16), ("raw", 0, 64), ("raw", 0, 65), ("ctx", 3, 8), ("ctx", 0, 8), ("ph", 2, 64), ("ctx", 255, 1), ("ph", 255, 64)]
THOROUGH = QUICK + [("raw", 0, n) for n in (1, 47, 48, 95, 96, 111, 112, 128, 200)] + \
    [("ctx", c, 5) for c in (1, 32, 254)] + [("ph", 0, 64), ("ph", 254, 64)]
