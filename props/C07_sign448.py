"""C07, signing side (Ed448): the byte-level glue of `ed448::PrivateKey::from_seed` and
`sign_raw / sign_ctx / sign_ph` is the deterministic RFC 8032 procedure, for all seeds / key
states / contexts / messages at the listed lengths (engine L, contract stubs, see props/glue.py).

  from_seed(seed):  hh = SHAKE256(seed, 114);  c = hh[0..57] with c[0] &= 0xFC, c[55] |= 0x80, c[56] = 0;
                    s = reduce(c);  h = hh[57..114];  A_enc = encode(mulgen(s))            (RFC 8032 5.2.5)
  sign(F, C, M):    r = reduce(SHAKE256(dom4(F,C) || h || M, 114));  R_enc = encode(mulgen(r));
                    k = reduce(SHAKE256(dom4(F,C) || R_enc || A_enc || M, 114));
                    sig = R_enc || encode_scalar(r + k*s) || 0x00                          (RFC 8032 5.2.6)
  dom4(F, C) = "SigEd448" || F || len(C) || C   (always present, also in the raw variant: F = 0, C empty)

Stubs: Keccak-f[1600] (uninterpreted permutation; the sponge of props/C07_ed448.py is the SHAKE256
spec), `Scalar::set_decode_reduce` (fresh scalar), `Point::set_mulgen` (fresh point), `Point::encode`
(fresh 57 bytes).  The last line's scalar arithmetic is the real (inlined) code: bytes 57..113 must be
term-identical (else z3) to the real `(r + k*s).encode()` of a reference driver applied to the stub
outputs (field semantics: C01/C05); byte 113 must be the constant 0.
Candidates are confirmed natively against an independent pure-Python Ed448 signer (hashlib.shake_256 +
Edwards448 arithmetic below) on seed-derived keys, plus library sign -> library verify."""
import hashlib, time
from engines.llsym.build import Driver
from engines.llsym import terms as T
from engines.llsym.llexec import Ptr, ExecError, PanicReached
from engines.llsym.smt import BVEmitter, run_solver, bvc
from vlib.common import Obligation
from . import glue
from .lhelp import sym_run, rng
from . import C07_ed448 as E4
from .C07_ed448 import DOM4, L448, shake256_uf_spec

HOST = "src/ed448.rs"
NL = 7          # 64-bit limbs of a scalar
NP = 21         # 64-bit words of a Point (X, Y, Z)
MAXC, MAXM = 255, 512


def nm_sign(shape):
    return "drv_ed448_s%s_%d_%d" % shape


def drivers(shapes):
    ds = []
    mk = ("        let sk = PrivateKey { s: unsafe { transmute::<[u64; 7], Scalar>(*s) }, seed: [0u8; 57], h: *h,\n"
          "            public_key: PublicKey { point: Point::NEUTRAL, encoded: *pke } };\n")
    for variant, ctxlen, msglen in shapes:
        params = [("s", "in", 8, NL), ("h", "in", 1, 57), ("pke", "in", 1, 57), ("ctx", "in", 1, ctxlen),
                  ("msg", "in", 1, msglen), ("sig", "out", 1, 114)]
        call = {"raw": "sk.sign_raw(&msg[..])", "ctx": "sk.sign_ctx(&ctx[..], &msg[..])",
                "ph": "sk.sign_ph(&ctx[..], &msg[..])"}[variant]
        ds.append(Driver(nm_sign((variant, ctxlen, msglen)), params, mk + "        *sig = %s;" % call, HOST))
    ds.append(Driver("drv_ed448_fromseed", [("seed", "in", 1, 57), ("s", "out", 8, NL), ("h", "out", 1, 57),
                                            ("pke", "out", 1, 57), ("pt", "out", 8, NP), ("sd", "out", 1, 57)],
                     "        let sk = PrivateKey::from_seed(&seed[..]);\n"
                     "        *s = unsafe { transmute::<Scalar, [u64; 7]>(sk.s) }; *h = sk.h; *pke = sk.public_key.encoded;\n"
                     "        *pt = unsafe { transmute::<Point, [u64; 21]>(sk.public_key.point) }; *sd = sk.seed;", HOST))
    ds.append(Driver("drv_ed448_sref", [("r", "in", 8, NL), ("k", "in", 8, NL), ("s", "in", 8, NL), ("out", "out", 1, 56)],
                     "        let r_ = unsafe { transmute::<[u64; 7], Scalar>(*r) }; let k_ = unsafe { transmute::<[u64; 7], Scalar>(*k) };\n"
                     "        let s_ = unsafe { transmute::<[u64; 7], Scalar>(*s) };\n        *out = (r_ + k_ * s_).encode();", HOST))
    # native replay only: sign with a seed-derived key at any (variant, ctx len, msg len), verify with the library
    ds.append(Driver("drv_ed448_signrt", [("seed", "in", 1, 57), ("ctx", "in", 1, MAXC), ("msg", "in", 1, MAXM),
                                          ("variant", "val", 4, 1), ("clen", "val", 4, 1), ("mlen", "val", 4, 1),
                                          ("sig", "out", 1, 114), ("pk", "out", 1, 57), ("st", "out", 4, 1)],
                     "        let sk = PrivateKey::from_seed(&seed[..]);\n"
                     "        let c = &ctx[..(clen as usize)]; let m = &msg[..(mlen as usize)];\n"
                     "        *sig = match variant { 0 => sk.sign_raw(m), 1 => sk.sign_ctx(c, m), _ => sk.sign_ph(c, m) };\n"
                     "        *pk = sk.public_key.encoded;\n"
                     "        st[0] = (match variant { 0 => sk.public_key.verify_raw(&sig[..], m), 1 => sk.public_key.verify_ctx(&sig[..], c, m),\n"
                     "                                 _ => sk.public_key.verify_ph(&sig[..], c, m) }) as u32;", HOST))
    return ds


class Hooks:
    """Keccak-f and set_decode_reduce as in the verification side (props/C07_ed448.install), plus the
    two signing-side cut points"""

    def __init__(self, built):
        m = built.module
        self.missing = [what for what, pat in (("Keccak-f", r"sha3.*KeccakState.*process"),
                                               ("Scalar::set_decode_reduce", r"ed448.*scalarmod.*Scalar.*set_decode_reduce"),
                                               ("Point::set_mulgen", r"ed4485Point10set_mulgen"),
                                               ("Point::encode", r"ed4485Point6encode"))
                        if not m.find_functions(pat)]

    def install(self, ex, rec):
        if self.missing:
            raise ExecError("cut-point function(s) not found in the IR: %s" % ", ".join(self.missing))
        E4.install(ex, rec)

        def h_mulgen(ex_, name, argv, rty):
            sc = ex_.read_words(argv[1], NL, 8)
            pt = [rec.fresh("mg", 64) for _ in range(NP)]
            for i, w in enumerate(pt):
                ex_.store(Ptr(argv[0].obj, argv[0].off + 8 * i), 8, w)
            rec.calls.append(("mulgen", {"scalar": sc, "point": pt}))
            return None
        ex.add_call_hook(r"ed4485Point10set_mulgen", h_mulgen)

        def h_enc(ex_, name, argv, rty):
            pt = ex_.read_words(argv[1], NP, 8)
            out = [rec.fresh("encb", 8) for _ in range(57)]
            for i, b in enumerate(out):
                ex_.store(Ptr(argv[0].obj, argv[0].off + i), 1, b)
            rec.calls.append(("enc", {"P": pt, "bytes": out}))
            return None
        ex.add_call_hook(r"ed4485Point6encode", h_enc)


def _run(built, hooks, drv):
    rec = glue.Recorder()

    def setup(ex):
        hooks.install(ex, rec)
    ex, ins, outs = sym_run(built, drv, executor_setup=setup)
    return rec, ins, outs


def _simulate_differs(xs, ys, tag):
    """cheap refutation before the solver: evaluate both sides on a few random assignments (only when
    no uninterpreted function is involved).  True = a concrete assignment separates them."""
    ts = [t for t in list(xs) + list(ys) if isinstance(t, T.Term)]
    try:
        vs = T.variables(ts)
        r = rng("c07s448sim", tag)
        for it in range(4):
            env = {v.aux[0]: r.getrandbits(v.w) for v in vs}
            if T.evaluate(list(xs), env) != T.evaluate(list(ys), env):
                return True
    except (ValueError, KeyError, ZeroDivisionError):
        pass
    return False


def _bytes_equal(xs, ys, timeout, simulate=None):
    """term identity, else (optionally) random simulation, else z3 on the differing bytes;
    returns (verdict, queries)"""
    if len(xs) != len(ys):
        return "length", 0
    if glue.same_terms(xs, ys):
        return "unsat", 0
    if simulate is not None and _simulate_differs(xs, ys, simulate):
        return "sat (concrete assignment of the stub outputs)", 0
    em = BVEmitter()
    diffs = ["(distinct %s %s)" % (em.ref(x, 8) if isinstance(x, T.Term) else bvc(x, 8),
                                   em.ref(y, 8) if isinstance(y, T.Term) else bvc(y, 8))
             for x, y in zip(xs, ys) if x is not y]
    v, _, _ = run_solver(em.script(["(or %s)" % " ".join(diffs)] if len(diffs) > 1 else diffs, get_model=False), "z3", timeout)
    return v, 1


def _calls(rec):
    return ([c for t, c in rec.calls if t == "decode_reduce"], [c for t, c in rec.calls if t == "mulgen"],
            [c for t, c in rec.calls if t == "enc"])


def check_sign(built, hooks, shape, timeout):
    variant, ctxlen, msglen = shape
    drv = nm_sign(shape)
    ob = Obligation("default:ed448.sign_%s[ctx=%d,msg=%d]" % shape, "L",
                    ["ed448::PrivateKey::sign_%s / sign_inner" % variant],
                    "all key states (s, h, encoded public key), context and message bytes at these lengths",
                    "sig = encode(mulgen(r)) || encode_scalar(r + k*s) || 0, r and k the reduced RFC 8032 SHAKE256 hashes with dom4 (see module doc)")
    t0 = time.time()
    nq = 0
    try:
        rec, ins, outs = _run(built, hooks, drv)
    except PanicReached as e:
        # the lengths are concrete: a panic on this path is a panic for inputs of this shape; reproduce natively (child process)
        from .lhelp import native_crashes
        r_ = rng("signpanic", drv)
        d_ = built.drivers[drv]
        inp = {}
        for name_, kind_, eb_, cnt_ in d_.params:
            if kind_ == "in":
                inp[name_] = [r_.getrandbits(8 * eb_) for _ in range(cnt_)]
        crashed, err = native_crashes(built, drv, inp)
        if crashed:
            return [ob.fail({"key": "%s.sign.panic" % "ed448", "inputs": {k_: [hex(x) for x in v_][:8] for k_, v_ in inp.items()}, "shape": list(shape),
                             "panic": {"callee": e.callee, "where": e.where}, "native_stderr": err[-300:],
                             "found_by": "panic reached on the single path of this shape; reproduced natively"}, "replay", time.time() - t0, 0)]
        return [ob.unknown("panic reached in the stubbed model: %s (not reproduced natively)" % e.callee[:80])]
    except ExecError as e:
        return [ob.unknown("executor: %s" % str(e)[:300])]
    s, h, pke, ctx, msg = ins["s"], ins["h"], ins["pke"], ins.get("ctx", []), ins["msg"]
    sig = outs["sig"]
    red, mg, enc = _calls(rec)
    problems = []
    head = list(DOM4) + [1 if variant == "ph" else 0, ctxlen] + list(ctx)
    if sig is None:
        problems.append("the signature buffer is not fully written")
    elif len(red) != 2 or len(mg) != 1 or len(enc) != 1:
        problems.append("unexpected call structure: %d reductions, %d mulgen, %d point encodings" % (len(red), len(mg), len(enc)))
    else:
        e1 = shake256_uf_spec(head + list(h) + list(msg), 114)
        v, q = _bytes_equal(list(red[0]["bytes"]), e1, timeout)
        nq += q
        if v != "unsat":
            problems.append("nonce hash is not SHAKE256(dom4 || h || M, 114) (input, domain bytes, padding or extraction differs: %s)" % v)
        if not glue.same_terms(mg[0]["scalar"], red[0]["scalar"]):
            problems.append("R is not mulgen(r) for the reduced nonce hash r")
        if not glue.same_terms(enc[0]["P"], mg[0]["point"]):
            problems.append("the encoded point is not R")
        e2 = shake256_uf_spec(head + list(enc[0]["bytes"]) + list(pke) + list(msg), 114)
        v, q = _bytes_equal(list(red[1]["bytes"]), e2, timeout)
        nq += q
        if v != "unsat":
            problems.append("challenge hash is not SHAKE256(dom4 || R_enc || A_enc || M, 114) (input order, domain bytes, padding or extraction differs: %s)" % v)
        if not glue.same_terms(list(sig[0:57]), enc[0]["bytes"]):
            problems.append("sig[0..57] is not encode(R)")
        _, _, so = sym_run(built, "drv_ed448_sref", concrete={"r": red[0]["scalar"], "k": red[1]["scalar"], "s": list(s)})
        v, q = _bytes_equal(list(sig[57:113]), so["out"], timeout, simulate=str(shape))
        nq += q
        if v != "unsat":
            problems.append("sig[57..113] is not encode_scalar(r + k*s) (solver: %s)" % v)
        v, q = _bytes_equal([sig[113]], [0], timeout)
        nq += q
        if v != "unsat":
            problems.append("sig[113] is not 0")
    if problems:
        return [_confirm(ob, built, shape, problems, time.time() - t0, nq)]
    return [ob.ok("symbolic execution with contract stubs; hash inputs / wiring by term identity%s"
                  % ("; z3-bv x%d" % nq if nq else ""), time.time() - t0, max(nq, 1), syntactic=(nq == 0))]


def check_fromseed(built, hooks, timeout):
    ob = Obligation("default:ed448.from_seed", "L", ["ed448::PrivateKey::from_seed"], "all 57-byte seeds",
                    "s = reduce(clamp(SHAKE256(seed, 114)[0..57])), h = SHAKE256(seed, 114)[57..114], A_enc = encode(mulgen(s)), seed kept")
    t0 = time.time()
    try:
        rec, ins, outs = _run(built, hooks, "drv_ed448_fromseed")
    except PanicReached as e:
        return [ob.unknown("panic reached in the stubbed model: %s" % e.callee[:80])]
    except ExecError as e:
        return [ob.unknown("executor: %s" % str(e)[:300])]
    seed = ins["seed"]
    red, mg, enc = _calls(rec)
    problems = []
    nq = 0
    if any(outs[k] is None for k in ("s", "h", "pke", "pt", "sd")):
        problems.append("a key field is not fully written")
    elif len(red) != 1 or len(mg) != 1 or len(enc) != 1:
        problems.append("unexpected call structure: %d reductions, %d mulgen, %d encodings" % (len(red), len(mg), len(enc)))
    else:
        hh = shake256_uf_spec(list(seed), 114)
        cl = list(hh[0:57])
        cl[0] = T.t_and(cl[0], 0xFC, 8)
        cl[55] = T.t_or(cl[55], 0x80, 8)
        cl[56] = 0
        v, q = _bytes_equal(list(red[0]["bytes"]), cl, timeout)
        nq += q
        if v != "unsat":
            problems.append("secret scalar is not reduce(clamp(SHAKE256(seed, 114)[0..57])) (%s)" % v)
        if not glue.same_terms(list(outs["s"]), red[0]["scalar"]):
            problems.append("stored s is not the reduced clamped half")
        v, q = _bytes_equal(list(outs["h"]), list(hh[57:114]), timeout)
        nq += q
        if v != "unsat":
            problems.append("stored h is not SHAKE256(seed, 114)[57..114] (%s)" % v)
        if not glue.same_terms(mg[0]["scalar"], red[0]["scalar"]):
            problems.append("public point is not mulgen(s)")
        if not glue.same_terms(list(outs["pt"]), mg[0]["point"]) or not glue.same_terms(enc[0]["P"], mg[0]["point"]):
            problems.append("public key point / encoded point is not mulgen(s)")
        if not glue.same_terms(list(outs["pke"]), enc[0]["bytes"]):
            problems.append("encoded public key is not encode(mulgen(s))")
        if not glue.same_terms(list(outs["sd"]), list(seed)):
            problems.append("seed is not kept")
    if problems:
        return [_confirm(ob, built, None, problems, time.time() - t0, nq)]
    return [ob.ok("symbolic execution with contract stubs; term identity%s" % ("; z3-bv x%d" % nq if nq else ""),
                  time.time() - t0, max(nq, 1), syntactic=(nq == 0))]


# ---------------------------------------------------------------------------
# independent reference signer (RFC 8032 section 5.2, pure Python)

P448 = 2**448 - 2**224 - 1
D448 = (-39081) % P448
B448 = (224580040295924300187604334099896036246789641632564134246125461686950415467406032909029192869357953282578032075146446173674602635247710,
        298819210078481492676017930443930673437544040154080242095928241372331506189835876003536878655418784733982303233503462500531545062832660, 1)


def _padd(P, Q):
    x1, y1, z1 = P
    x2, y2, z2 = Q
    xcp, ycp, zcp = x1 * x2 % P448, y1 * y2 % P448, z1 * z2 % P448
    b = zcp * zcp % P448
    e = D448 * xcp % P448 * ycp % P448
    f, g = (b - e) % P448, (b + e) % P448
    return (zcp * f % P448 * (((x1 + y1) * (x2 + y2) - xcp - ycp) % P448) % P448,
            zcp * g % P448 * ((ycp - xcp) % P448) % P448, f * g % P448)


def _pmul(n, P):
    Q = (0, 1, 1)
    while n:
        if n & 1:
            Q = _padd(Q, P)
        P = _padd(P, P)
        n >>= 1
    return Q


def _penc(P):
    zi = pow(P[2], P448 - 2, P448)
    x, y = P[0] * zi % P448, P[1] * zi % P448
    return (y | ((x & 1) << 455)).to_bytes(57, "little")


def ref_keypair(seed):
    hh = bytearray(hashlib.shake_256(bytes(seed)).digest(114))
    a = bytearray(hh[:57])
    a[0] &= 0xFC
    a[55] |= 0x80
    a[56] = 0
    s = int.from_bytes(a, "little")
    return s, bytes(hh[57:]), _penc(_pmul(s % L448, B448))


def ref_sign(seed, phflag, ctx, msg):
    """-> (A_enc, signature); msg is PH(M) already when phflag = 1"""
    s, h, A = ref_keypair(seed)
    dom = bytes(DOM4) + bytes([phflag, len(ctx)]) + bytes(ctx)
    r = int.from_bytes(hashlib.shake_256(dom + h + bytes(msg)).digest(114), "little") % L448
    R = _penc(_pmul(r, B448))
    k = int.from_bytes(hashlib.shake_256(dom + R + A + bytes(msg)).digest(114), "little") % L448
    return A, R + ((r + k * s) % L448).to_bytes(57, "little")


RFC8032_SEED = bytes.fromhex("6c82a562cb808d10d632be89c8513ebf6c929f34ddfa8c9f63c9960ef6e348a3528c8a3fcc2f044e39a3fc5b94492f8f032e7549a20098f95b")
RFC8032_PK = bytes.fromhex("5fd7449b59b461fd2ce787ec616ad46a1da1342485a70e1f8a0ea75d80e96778edf124769b46c7061bd6783df1e50f6cd1fa1abeafe8256180")
RFC8032_SIG = bytes.fromhex("533a37f6bbe457251f023c0d88f976ae2dfb504a843e34d2074fd823d41a591f2b233f034f628281f2fd7a22ddd47d7828c59bd0a21bfd3980"
                            "ff0d2028d4b18a9df63e006c5d1c2d345b925d8dc00b4104852db99ac5c7cdda8530a113a0f4dbb61149f05a7363268c71d95808ff2e652600")


def _confirm(ob, built, shape, problems, secs, nq):
    """structural mismatch: confirm natively that library keys / signatures differ from the RFC 8032
    reference on seed-derived keys (at the obligation's own lengths and a few around the SHAKE256 rate),
    or that the library's verifier rejects the library's signature"""
    if ref_sign(RFC8032_SEED, 0, b"", b"") != (RFC8032_PK, RFC8032_SIG):
        return ob.unknown("structural mismatch (%s); the Python reference signer fails its RFC 8032 self-test" % "; ".join(problems)[:200])
    r = rng("c07s448", str(shape))
    vi = {"raw": 0, "ctx": 1, "ph": 2}
    if shape is None:
        cases = [("raw", 0, 16), ("raw", 0, 0), ("ctx", 3, 8)]
    else:
        v0, c0, m0 = shape
        cases = [(v0, c0, m0), (v0, c0, m0 + 1), (v0, c0, 16), (v0, c0, 200)]
    for it in range(16):
        variant, clen, mlen = cases[it % len(cases)]
        seed = [r.getrandbits(8) for _ in range(57)]
        ctx = [r.getrandbits(8) for _ in range(clen)]
        msg = [r.getrandbits(8) for _ in range(mlen)]
        nat = built.native("drv_ed448_signrt", {"seed": seed, "ctx": ctx + [0] * (MAXC - clen), "msg": msg + [0] * (MAXM - mlen),
                                                "variant": vi[variant], "clen": clen, "mlen": mlen})
        want_pk, want_sig = ref_sign(bytes(seed), 1 if variant == "ph" else 0, bytes(ctx), bytes(msg))
        if bytes(nat["pk"]) != want_pk or bytes(nat["sig"]) != want_sig or nat["st"][0] != 1:
            return ob.fail({"key": ob.name.split(":", 1)[1].split("[")[0], "problems": problems,
                            "inputs": {"seed": bytes(seed).hex(), "variant": variant, "ctx": bytes(ctx).hex(), "msg": bytes(msg).hex()},
                            "native": {"pk": bytes(nat["pk"]).hex(), "sig": bytes(nat["sig"]).hex(), "verify": nat["st"][0]},
                            "expected": {"pk": want_pk.hex(), "sig": want_sig.hex(), "verify": 1},
                            "found_by": "structural mismatch in the stubbed model, confirmed natively against an RFC 8032 (Ed448) reference signer"},
                           "z3-bv+replay", secs, nq)
    return ob.unknown("structural mismatch (%s) not confirmed natively (seed-derived keys, 16 cases at and around these lengths)"
                      % "; ".join(problems)[:300])


# message lengths around the SHAKE256 rate (136): the nonce hash absorbs 10 + ctx + 57 + msg bytes, the
# challenge hash 10 + ctx + 114 + msg bytes
QUICK = [("raw", 0, 0), ("raw", 0, 11), ("raw", 0, 12), ("raw", 0, 69), ("ctx", 3, 8), ("ctx", 0, 68), ("ph", 2, 64), ("ctx", 255, 1), ("ph", 255, 64)]
THOROUGH = QUICK + [("raw", 0, n) for n in (1, 13, 16, 68, 70, 136, 147, 148, 205, 300)] + \
    [("ctx", c, 5) for c in (1, 32, 254)] + [("ph", 0, 64), ("ph", 254, 64)]
