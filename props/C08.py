"""C08 ECDSA (P-256, secp256k1); signing side: props/C08_sign.py.  Verification: byte-level glue of
`PublicKey::decode` + `verify_hash` on the real optimized IR with contract
stubs at the cut-point functions (engine L; see props/glue.py, props/C07.py).

accept <=> sig has even length, surplus leading bytes of both halves are zero,
           r, s strictly decode (big-endian) below n and are non-zero,
           and r == x(R) mod n   where   R = [u]Q + [v]G  with u = r*w, v = h*w, w = 1/s,
           h = big-endian first 32 bytes of hv (left-padded if shorter) reduced mod n.
Stubs: Point::set_decode, Scalar::set_decode32, set_decode_reduce, set_div,
Point::set_mul_add_mulgen_vartime, Point::encode_compressed."""
import time
from engines.llsym.build import build, Driver
from engines.llsym import terms as T
from engines.llsym.llexec import Ptr, ExecError, PanicReached
from engines.llsym.smt import BVEmitter, run_solver, parse_model, bvc
from vlib.common import Obligation, finish, log, NCPU
from vlib.par import pmap
from . import fields as F
from . import glue
from .lhelp import sym_run, rng, hexl, _feasible, Path

CURVES = {"p256": ("crate::p256", F.N256, "scp256"), "secp256k1": ("crate::secp256k1", F.NSECP, "scsecp256k1")}


def drivers(shapes):
    ds = []
    seen = set()
    for curve, pklen, siglen, hvlen in shapes:
        mod = CURVES[curve][0]
        ds.append(Driver("drv_%s_vh_%d_%d_%d" % (curve, pklen, siglen, hvlen),
                         [("pk", "in", 1, pklen), ("sig", "in", 1, siglen), ("hv", "in", 1, hvlen), ("st", "out", 4, 1)],
                         "        let k = match %s::PublicKey::decode(&pk[..]) { Some(k) => k, None => { st[0] = 2; return; } };\n"
                         "        st[0] = k.verify_hash(&sig[..], &hv[..]) as u32;" % mod))
        if curve not in seen:
            seen.add(curve)
            sc = mod + "::Scalar"
            ds.append(Driver("drv_%s_scmul" % curve, [("a", "in", 8, 4), ("b", "in", 8, 4), ("out", "out", 8, 4)],
                             "        let x: %s = unsafe { transmute::<[u64; 4], %s>(*a) }; let y: %s = unsafe { transmute::<[u64; 4], %s>(*b) };\n"
                             "        *out = unsafe { transmute::<%s, [u64; 4]>(x * y) };" % (sc, sc, sc, sc, sc)))
    return ds


def install(ex, rec, curve, pklen):
    def h_pdec(ex_, name, argv, rty):
        self_p, buf_p = argv[0], argv[1]
        n = argv[2] if len(argv) > 2 else pklen
        if isinstance(n, T.Term):
            raise ExecError("symbolic length to Point::set_decode")
        data = ex_.read_bytes(buf_p, n)
        ok = rec.fresh("pdec_ok", 1)
        pt = [rec.fresh("pt", 64) for _ in range(12)]
        for i, w in enumerate(pt):
            ex_.store(Ptr(self_p.obj, self_p.off + 8 * i), 8, w)
        rec.calls.append(("pdec", {"bytes": data, "ok": ok, "point": pt}))
        return T.t_sub(0, T.t_zext(ok, 32), 32)
    ex.add_call_hook(r"%s.*Point.*set_decode" % curve, h_pdec)

    def h_sdec(ex_, name, argv, rty):
        self_p, buf_p = argv[0], argv[1]
        data = ex_.read_bytes(buf_p, 32)
        ok = rec.fresh("sdec_ok", 1)
        sc = [rec.fresh("sc", 64) for _ in range(4)]
        for i, w in enumerate(sc):
            ex_.store(Ptr(self_p.obj, self_p.off + 8 * i), 8, w)
        rec.calls.append(("sdec", {"bytes": data, "ok": ok, "scalar": sc, "nc": len(rec.path.conds)}))
        return T.t_sub(0, T.t_zext(ok, 32), 32)
    ex.add_call_hook(r"modint.*ModInt256.*set_decode32$|modint.*ModInt256.*set_decode3217h", h_sdec)

    def h_red(ex_, name, argv, rty):
        self_p, buf_p = argv[0], argv[1]
        n = argv[2] if len(argv) > 2 else 32
        if isinstance(n, T.Term):
            raise ExecError("symbolic length to decode_reduce")
        data = ex_.read_bytes(buf_p, n)
        sc = [rec.fresh("red", 64) for _ in range(4)]
        for i, w in enumerate(sc):
            ex_.store(Ptr(self_p.obj, self_p.off + 8 * i), 8, w)
        rec.calls.append(("red", {"bytes": data, "scalar": sc}))
        return None
    ex.add_call_hook(r"modint.*ModInt256.*set_decode_reduce", h_red)

    def h_div(ex_, name, argv, rty):
        x = ex_.read_words(argv[0], 4, 8)
        y = ex_.read_words(argv[1], 4, 8)
        q = [rec.fresh("quo", 64) for _ in range(4)]
        for i, w in enumerate(q):
            ex_.store(Ptr(argv[0].obj, argv[0].off + 8 * i), 8, w)
        rec.calls.append(("div", {"x": x, "y": y, "q": q}))
        return None
    ex.add_call_hook(r"modint.*ModInt256.*set_div", h_div)

    def h_mm(ex_, name, argv, rty):
        pt = ex_.read_words(argv[0], 12, 8)
        u = ex_.read_words(argv[1], 4, 8)
        v = ex_.read_words(argv[2], 4, 8)
        res = [rec.fresh("mm", 64) for _ in range(12)]
        for i, w in enumerate(res):
            ex_.store(Ptr(argv[0].obj, argv[0].off + 8 * i), 8, w)
        rec.calls.append(("mulmul", {"P": pt, "u": u, "v": v, "res": res}))
        return None
    ex.add_call_hook(r"%s.*Point.*set_mul_add_mulgen_vartime" % curve, h_mm)

    def h_enc(ex_, name, argv, rty):
        pt = ex_.read_words(argv[1], 12, 8)
        out = [rec.fresh("encb", 8) for _ in range(33)]
        for i, b in enumerate(out):
            ex_.store(Ptr(argv[0].obj, argv[0].off + i), 1, b)
        rec.calls.append(("enc", {"P": pt, "bytes": out}))
        return None
    ex.add_call_hook(r"%s.*Point.*encode_compressed" % curve, h_enc)


def run_paths(built, drv, curve, pklen, max_paths=64):
    paths = []
    work = [[]]
    nq = [0]
    while work and len(paths) < max_paths:
        dec = work.pop()
        rec = glue.Recorder()
        path = Path()
        rec.path = path
        pos = [0]

        def policy(ex_, c, where, dec=dec, path=path, pos=pos):
            i = pos[0]
            pos[0] += 1
            if i < len(dec):
                path.conds.append((c, dec[i]))
                return dec[i]
            sides = []
            for val in (1, 0):
                st, _ = _feasible(path.conds + [(c, val)], 20)
                nq[0] += 1
                if st != "unsat":
                    sides.append(val)
            if not sides:
                raise ExecError("both sides infeasible at %s" % where)
            if len(sides) == 2:
                work.append(dec[:i] + [sides[1]])
            dec.append(sides[0])
            path.conds.append((c, sides[0]))
            return sides[0]

        def setup(ex):
            install(ex, rec, curve, pklen)
            ex.branch_policy = policy
        try:
            ex, ins, outs = sym_run(built, drv, executor_setup=setup)
            path.outcome, path.ins, path.outs = "ret", ins, outs
        except PanicReached as e:
            path.outcome, path.info = "panic", {"callee": e.callee, "where": e.where}
        except ExecError as e:
            path.outcome, path.info = "error", {"msg": str(e)}
        path.rec = rec
        paths.append(path)
    return paths, nq[0], bool(work)


def be_int(em, bs):
    """SMT bit-vector of a big-endian byte list"""
    e = em.ref(bs[0], 8)
    for b in bs[1:]:
        e = "(concat %s %s)" % (e, em.ref(b, 8))
    return e


def limbs_bv(em, ws):
    e = em.ref(ws[0], 64)
    for w in ws[1:]:
        e = "(concat %s %s)" % (em.ref(w, 64), e)
    return e


def check_shape(built, shape, timeout):
    curve, pklen, siglen, hvlen = shape
    mod, n_, ftag = CURVES[curve]
    f = F.BYTAG[ftag]
    drv = "drv_%s_vh_%d_%d_%d" % shape
    name = "default:%s.verify_hash[pk=%d,sig=%d,hv=%d]" % shape
    ob = Obligation(name, "L", ["%s::PublicKey::decode" % mod, "%s::PublicKey::verify_hash" % mod],
                    "all key, signature and hash bytes at these lengths",
                    "accept <=> the standard ECDSA glue predicate over the stubs (see module doc)")
    t0 = time.time()
    paths, nq, trunc = run_paths(built, drv, curve, pklen)
    if trunc:
        return [ob.unknown("path budget exhausted")]
    for p in paths:
        if p.outcome == "error":
            return [ob.unknown("executor: %s" % p.info["msg"][:300])]
        if p.outcome == "panic":
            st, pmodel = _feasible(p.conds, timeout)
            if st != "unsat":
                # candidate: replay in a child process (a panic aborts it): the solver's signature / hash bytes for this
                # path under valid keys of the adversarial corpus (the stubbed key decoding accepts any bytes), then the corpus
                from . import ecdsa_ref as REF
                from .lhelp import native_crashes, model_inputs
                rr = rng("c08panic", drv)
                cands = []
                if pmodel:
                    mi = model_inputs(pmodel, built, drv)
                    cands.append(mi)
                    for it in range(3):
                        c_ = REF.adversarial_case(rr, curve, pklen, siglen, hvlen, it)
                        cands.append({"pk": list(c_["pk"]), "sig": list(mi["sig"]), "hv": list(mi["hv"])})
                cands += [REF.adversarial_case(rr, curve, pklen, siglen, hvlen, it) for it in range(8)]
                for inp in cands:
                    crashed, err = native_crashes(built, drv, {k: list(v) for k, v in inp.items()})
                    if crashed:
                        return [ob.fail({"key": "%s.verify_hash.panic" % curve, "inputs": {k: bytes(v).hex() for k, v in inp.items()},
                                         "panic": p.info, "native_stderr": err[-300:],
                                         "found_by": "panic path feasible in the stubbed model, reproduced natively on the adversarial corpus"},
                                        "z3-bv+replay", time.time() - t0, nq)]
                return [ob.unknown("a panic path is reachable in the stubbed model: %s (not reproduced natively on the corpus)" % p.info["callee"][:80])]
    rets = [p for p in paths if p.outcome == "ret"]
    ins = rets[0].ins
    pk, sig, hv = ins["pk"], ins["sig"], ins["hv"]
    even = siglen % 2 == 0
    rlen = siglen // 2
    if even:
        if rlen > 32:
            lead = list(sig[0:rlen - 32]) + list(sig[rlen:rlen + rlen - 32])
            rb = list(sig[rlen - 32:rlen])
            sb = list(sig[siglen - 32:siglen])
        else:
            lead = []
            rb = [0] * (32 - rlen) + list(sig[:rlen])
            sb = [0] * (32 - rlen) + list(sig[rlen:])
    tmp = list(hv[:32]) if hvlen >= 32 else [0] * (32 - hvlen) + list(hv)
    ONE = F.int_limbs(f.R % n_, 4)
    problems = []
    reached = False
    for p in rets:
        st = p.outs["st"][0]
        c = p.rec.calls
        pd = [x for t, x in c if t == "pdec"]
        sd = [x for t, x in c if t == "sdec"]
        rd = [x for t, x in c if t == "red"]
        dv = [x for t, x in c if t == "div"]
        mm = [x for t, x in c if t == "mulmul"]
        en = [x for t, x in c if t == "enc"]
        if not pd or not glue.same_terms(pd[0]["bytes"], pk):
            problems.append("public key not decoded from the key bytes")
            continue
        em = BVEmitter()
        pc = ["(= %s %s)" % (em.ref(cc, 1), "#b1" if v else "#b0") for cc, v in p.conds]
        st_s = em.ref(st, 32)
        c0, c1, c2 = bvc(0, 32), bvc(1, 32), bvc(2, 32)
        if even and not isinstance(st, T.Term) and st == 2:
            continue        # key rejected by PublicKey::decode (its rule is C06's subject)
        # "key accepted" = the path conditions evaluated before verification proper starts
        nk = sd[0]["nc"] if sd else len(p.conds)
        a_ok = "(and true %s)" % " ".join(pc[:nk])
        if not even:
            # never accepted (the driver reports 0 = rejected or 2 = key rejected)
            v, _, _ = run_solver(em.script(pc + ["(= %s %s)" % (st_s, c1)], get_model=False), "z3", timeout)
            nq += 1
            if v != "unsat" or mm:
                problems.append("odd-length signature not rejected")
            continue
        # conditions available on this path
        conds = [a_ok]
        if lead:
            conds.append("(and %s)" % " ".join("(= %s #x00)" % em.ref(b, 8) for b in lead))
        known = True
        if len(sd) >= 1:
            if not glue.same_terms(sd[0]["bytes"], rb[::-1]):
                problems.append("r is not decoded from the big-endian first half (with zero padding / truncation)")
                continue
            conds.append("(= %s #b1)" % em.ref(sd[0]["ok"], 1))
            conds.append("(distinct %s %s)" % (limbs_bv(em, sd[0]["scalar"]), bvc(0, 256)))
        else:
            known = False
        if len(sd) >= 2:
            if not glue.same_terms(sd[1]["bytes"], sb[::-1]):
                problems.append("s is not decoded from the big-endian second half")
                continue
            conds.append("(= %s #b1)" % em.ref(sd[1]["ok"], 1))
            conds.append("(distinct %s %s)" % (limbs_bv(em, sd[1]["scalar"]), bvc(0, 256)))
        else:
            known = False
        if not mm:
            # rejected early: result 0/2 and some acceptance condition must be false (those not yet evaluated count as possibly false)
            exp = "(ite %s %s %s)" % (a_ok, c0, c2)
            q = "(or (distinct %s %s) %s)" % (st_s, exp, "false" if not known else "(and %s)" % " ".join(conds))
            v, _, _ = run_solver(em.script(pc + [q], get_model=False), "z3", timeout)
            nq += 1
            if v != "unsat":
                problems.append("a path rejects although key, r and s are acceptable (or returns a wrong value): solver %s" % v)
            continue
        reached = True
        r_sc, s_sc = sd[0]["scalar"], sd[1]["scalar"]
        if not rd or not glue.same_terms(rd[0]["bytes"], tmp[::-1]):
            problems.append("h is not the big-endian first 32 hash bytes (left-padded when shorter)")
        if not dv or not glue.same_terms(dv[0]["x"], ONE) or not glue.same_terms(dv[0]["y"], s_sc):
            problems.append("w is not 1/s")
        else:
            w = dv[0]["q"]
            for nm, lhs, a in (("u", mm[0]["u"], r_sc), ("v", mm[0]["v"], rd[0]["scalar"] if rd else None)):
                if a is None:
                    continue
                _, _, ro = sym_run(built, "drv_%s_scmul" % curve, concrete={"a": a, "b": w})
                if not glue.same_terms(lhs, ro["out"]):
                    em2 = BVEmitter()
                    diffs = ["(distinct %s %s)" % (em2.ref(x, 64), em2.ref(y, 64)) for x, y in zip(lhs, ro["out"]) if x is not y]
                    v, _, _ = run_solver(em2.script(["(or %s)" % " ".join(diffs)] if len(diffs) > 1 else diffs, get_model=False), "z3", timeout)
                    nq += 1
                    if v != "unsat":
                        problems.append("%s is not %s*w (library scalar multiplication of the expected operands)" % (nm, "r" if nm == "u" else "h"))
        if not glue.same_terms(mm[0]["P"], pd[0]["point"]):
            problems.append("the point multiplied is not the decoded public key")
        if not en or not glue.same_terms(en[0]["P"], mm[0]["res"]):
            problems.append("the encoded point is not the result of [u]Q + [v]G")
        elif len(rd) < 2 or not glue.same_terms(rd[1]["bytes"], en[0]["bytes"][1:33][::-1]):
            problems.append("x(R) is not taken from bytes 1..33 of the compressed encoding (big-endian)")
        else:
            rr = rd[1]["scalar"]
            eq = "(= %s %s)" % (limbs_bv(em, r_sc), limbs_bv(em, rr))
            want = "(and %s)" % " ".join(conds)
            exp = "(ite %s %s %s)" % (eq, c1, c0)
            pcs = " ".join(pc) if pc else "true"
            v, _, _ = run_solver(em.script(["(or (distinct (and %s) %s) (and %s (distinct %s %s)))"
                                            % (pcs, want, pcs, st_s, exp)], get_model=False), "z3", timeout)
            nq += 1
            if v != "unsat":
                problems.append("the final comparison is not reached exactly when all range checks pass, or the result is not [r == x(R) mod n]: solver %s" % v)
    if even and not reached:
        problems.append("no path reaches the point multiplication (vacuous)")
    if problems:
        return [_confirm(ob, built, drv, shape, problems, time.time() - t0, nq)]
    return [ob.ok("path-forking symbolic execution with contract stubs; z3-bv x%d; %d paths" % (nq, len(paths)),
                  time.time() - t0, nq)]


def _confirm(ob, built, drv, shape, problems, secs, nq):
    from . import ecdsa_ref as REF
    curve, pklen, siglen, hvlen = shape
    r = rng("c08", drv)
    for it in range(40):
        inp = REF.adversarial_case(r, curve, pklen, siglen, hvlen, it)
        nat = built.native(drv, inp)["st"][0]
        exp = REF.expected(inp, curve)
        if nat != exp:
            return ob.fail({"key": "%s.verify_hash" % curve, "problems": problems,
                            "inputs": {k: bytes(v).hex() for k, v in inp.items()}, "native": nat, "expected": exp,
                            "found_by": "structural mismatch in the stubbed model, confirmed natively against a reference verifier"},
                           "z3-bv+replay", secs, nq)
    return ob.unknown("structural mismatch (%s) not confirmed natively on the adversarial corpus" % "; ".join(problems)[:300])


QUICK = [("p256", 65, 64, 32), ("p256", 65, 64, 20), ("secp256k1", 65, 64, 31), ("p256", 33, 64, 32), ("p256", 65, 63, 32), ("p256", 65, 66, 32), ("p256", 65, 62, 20),
         ("p256", 65, 0, 32), ("p256", 65, 64, 48), ("p256", 65, 64, 0),
         ("secp256k1", 65, 64, 32), ("secp256k1", 33, 66, 31), ("secp256k1", 65, 65, 32)]
THOROUGH = QUICK + [("p256", 65, s, h) for s in (2, 60, 68, 70) for h in (1, 31, 33, 64)] + \
    [("secp256k1", 65, s, h) for s in (0, 62, 64, 68) for h in (0, 20, 32, 40)]
THOROUGH = list(dict.fromkeys(THOROUGH))


def run(tier, only=None):
    from . import C08_sign as SG
    t0 = time.time()
    shapes = [s for s in (QUICK if tier == "quick" else THOROUGH) if not only or s[0] in only]
    sshapes = [s for s in (SG.QUICK if tier == "quick" else SG.THOROUGH) if not only or "sign" in only or s[0] in only]
    from . import C08_key as KY
    kitems = [it for it in KY.items() if not only or "key" in only or it[0] in only]
    # the verify drivers are always compiled in: with fewer call sites LLVM inlines Scalar::set_decode32 (the stub point)
    built = build(drivers(shapes if shapes else QUICK[:4]) + (SG.drivers(sshapes) if sshapes else []) + (KY.drivers() if kitems else []),
                  tag="C08-cut", cut=True)
    shooks = SG.Hooks(built) if sshapes else None
    timeout = 60 if tier == "quick" else 300
    items = [("verify", s) for s in shapes] + [("sign", s) for s in sshapes] + [("key", it) for it in kitems]

    def work(it):
        T.reset()
        if it[0] == "sign":
            return SG.check_sign(built, shooks, it[1], timeout)
        if it[0] == "key":
            return KY.check(built, it[1][0], it[1][1], timeout)
        return check_shape(built, it[1], timeout)
    res = pmap(work, items, nproc=NCPU, timeout=timeout * 20)
    obs = []
    for it, (st, val) in zip(items, res):
        if st == "ok":
            obs.extend(val)
        else:
            o = Obligation(SG.ob_name(it[1]) if it[0] == "sign" else ("default:%s.PrivateKey.decode[len=%d]" % it[1] if it[0] == "key"
                                                                     else "default:%s.verify_hash[pk=%d,sig=%d,hv=%d]" % it[1]), "L")
            o.unknown("%s: %s" % (st, str(val)[-400:]))
            obs.append(o)
    built.close()
    return finish("C08", tier, obs, t0,
                  functions_encoded=sorted(set(fn for o in obs for fn in o.functions)),
                  bounds={"shapes (curve, key length, signature length, hash length)": [list(s) for s in shapes],
                          "sign_shapes (curve, hash length, extra-randomness length)": [list(s) for s in sshapes],
                          "sign_hash retry loop": "first iteration; every rejection path is followed until it asks for the second nonce candidate",
                          "build": "optimized IR with --cfg pornin_crrl_verif_cut"},
                  stubs={"Point::set_decode": "fresh point + status bit (C06/C19)",
                         "ModInt256::set_decode32 / set_decode_reduce": "fresh scalar (+ status bit) (C05)",
                         "ModInt256::set_div": "fresh quotient (C12)",
                         "Point::set_mul_add_mulgen_vartime": "fresh point = [u]Q + [v]G (C10)",
                         "Point::encode_compressed": "fresh 33 bytes (C06)",
                         "Point::set_mulgen (signing side)": "fresh point = [k]G (C04)",
                         "SHA2Small::process / SHA2Big::process (signing side)": "uninterpreted compression functions (C17)"},
                  assumptions=["the stubs' contracts are decided by the checks named in `stubs`",
                               "scalar multiplication r*w, h*w is the library's own Montgomery multiplication (C01)",
                               "signing side: h + x*r, the scalar encodings and the 0 -> 1 replacement are the library's own scalar "
                               "operations (reference drivers applied to the stub outputs; field semantics: C01/C05)"],
                  outside=["sign_hash: second and later iterations of the retry loop (the first rejection is followed up to "
                           "the request for the next candidate, which is the documented one)",
                           "sign_hash: hash / extra-randomness lengths beyond the listed shapes (lengths only drive the hash buffering: C17)",
                           "that a signature so produced is accepted by verify_hash: follows from the two glue claims plus the "
                           "stubs' contracts, not separately decided",
                           "PrivateKey::decode / from_seed (the signing key is taken as any scalar value in memory)",
                           "signature lengths beyond the listed shapes"])
