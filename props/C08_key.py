"""C08: ECDSA private keys (P-256, secp256k1): `PrivateKey::decode` accepts exactly the 32-byte big-endian encodings of
the integers 1..n-1 (any other length or value: None), and `encode(decode(b)) = b`.  Engine L, all bytes symbolic at
lengths 0, 31, 32, 33; path forking; z3 bit-vectors.  The stored scalar is compared, through the real `encode`, with the
input bytes (the Montgomery representation itself is C05's subject)."""
import time
from engines.llsym.build import Driver
from engines.llsym import terms as T
from engines.llsym.smt import BVEmitter, run_solver, parse_model, bvc
from vlib.common import Obligation
from . import fields as F
from .lhelp import explore, model_inputs, native_crashes, _feasible

CUR = {"p256": ("crate::p256", F.N256), "secp256k1": ("crate::secp256k1", F.NSECP)}
LENS = [0, 31, 32, 33]


def drivers():
    ds = []
    for c, (mod, n) in CUR.items():
        for ln in LENS:
            ds.append(Driver("drv_%s_skdec_%d" % (c, ln), [("buf", "in", 1, ln), ("out", "out", 1, 32), ("st", "out", 4, 1)],
                             "        match %s::PrivateKey::decode(&buf[..]) { Some(k) => { *out = k.encode(); st[0] = 1; } None => { *out = [0u8; 32]; st[0] = 0; } }" % mod))
    for c, (mod, n) in CUR.items():
        ds.append(Driver("drv_%s_skenc" % c, [("a", "in", 8, 4), ("out", "out", 1, 32)],
                         "        let x: %s::Scalar = unsafe { transmute::<[u64; 4], %s::Scalar>(*a) };\n        *out = x.encode();" % (mod, mod)))
    return ds


def check(built, c, ln, timeout):
    """contract stub at Scalar::set_decode32 (fresh scalar + ok bit; its contract -- ok iff value < n, value as decoded -- is
    C05's) and at nothing else: decode = Some iff len = 32, ok, and the stored scalar is non-zero; the bytes handed to the
    scalar decoder are the input reversed; encode() of the result is the reversed Scalar::encode of that scalar."""
    from engines.llsym.llexec import Ptr, ExecError, PanicReached
    from .lhelp import sym_run, Path
    from . import glue
    mod, n = CUR[c]
    drv = "drv_%s_skdec_%d" % (c, ln)
    ob = Obligation("default:%s.PrivateKey.decode[len=%d]" % (c, ln), "L", ["%s::PrivateKey::decode" % c, "%s::PrivateKey::encode" % c],
                    "all %d-byte strings" % ln,
                    "Some(key) iff len = 32, the strict scalar decoder accepts the reversed bytes and the scalar is non-zero "
                    "[i.e. 0 < big-endian value < n by C05]; encode(key) is the byte-reversed Scalar::encode of that scalar")
    t0 = time.time()
    nq = 0
    paths, work = [], [[]]
    while work and len(paths) < 16:
        dec = work.pop()
        rec = glue.Recorder()
        path = Path()
        pos = [0]

        def hook(ex_, name, argv, rty, rec=rec):
            data = ex_.read_bytes(argv[1], 32)
            ok = rec.fresh("ok", 1)
            sc = [rec.fresh("sc", 64) for _ in range(4)]
            for i, w in enumerate(sc):
                ex_.store(Ptr(argv[0].obj, argv[0].off + 8 * i), 8, w)
            rec.calls.append(("sdec", {"bytes": data, "ok": ok, "scalar": sc}))
            return T.t_sub(0, T.t_zext(ok, 32), 32)

        def policy(ex_, cnd, where, dec=dec, path=path, pos=pos):
            nonlocal nq
            i = pos[0]
            pos[0] += 1
            if i < len(dec):
                path.conds.append((cnd, dec[i]))
                return dec[i]
            sides = []
            for val in (1, 0):
                st_, _ = _feasible(path.conds + [(cnd, val)], 20)
                nq += 1
                if st_ != "unsat":
                    sides.append(val)
            if not sides:
                raise ExecError("both sides infeasible at %s" % where)
            if len(sides) == 2:
                work.append(dec[:i] + [sides[1]])
            dec.append(sides[0])
            path.conds.append((cnd, sides[0]))
            return sides[0]

        def setup(ex, hook=hook, policy=policy):
            ex.add_call_hook(r"modint.*ModInt256.*set_decode32$|modint.*ModInt256.*set_decode3217h", hook)
            ex.branch_policy = policy
        try:
            ex, ins, outs = sym_run(built, drv, executor_setup=setup)
            path.outcome, path.ins, path.outs = "ret", ins, outs
        except PanicReached as e:
            path.outcome, path.info = "panic", {"callee": e.callee, "where": e.where}
        except ExecError as e:
            return [ob.unknown("executor: %s" % str(e)[:300])]
        path.rec = rec
        paths.append(path)
    if work:
        return [ob.unknown("path budget exhausted")]
    seen_some = False
    for p in paths:
        if p.outcome == "panic":
            st_, model = _feasible(p.conds, timeout)
            if st_ != "unsat":
                return [ob.unknown("a panic path is reachable in the stubbed model: %s" % p.info["callee"][:60])]
            continue
        em = BVEmitter()
        pc = ["(= %s %s)" % (em.ref(cd, 1), "#b1" if v else "#b0") for cd, v in p.conds]
        st = p.outs["st"][0]
        sts = em.ref(st, 32) if isinstance(st, T.Term) else bvc(st, 32)
        sd = [cc for t_, cc in p.rec.calls if t_ == "sdec"]
        if ln != 32:
            if isinstance(st, T.Term) or st != 0:
                v, _, _ = run_solver(em.script(pc + ["(distinct %s %s)" % (sts, bvc(0, 32))], get_model=False), "z3", timeout)
                nq += 1
                if v != "unsat":
                    return [_replay(ob, built, drv, c, ln, n, "a string of length %d is accepted" % ln, t0, nq)]
            continue
        if not sd:
            return [_replay(ob, built, drv, c, ln, n, "a 32-byte string is decided without the strict scalar decoder", t0, nq)]
        buf = p.ins["buf"]
        if not glue.same_terms(list(sd[0]["bytes"]), list(reversed(buf))):
            return [_replay(ob, built, drv, c, ln, n, "the scalar decoder is not applied to the reversed input bytes", t0, nq)]
        nz = "(or %s)" % " ".join("(distinct %s %s)" % (em.ref(w, 64), bvc(0, 64)) for w in sd[0]["scalar"])
        okc = "(and (= %s #b1) %s)" % (em.ref(sd[0]["ok"], 1), nz)
        v, _, _ = run_solver(em.script(pc + ["(distinct %s (ite %s %s %s))" % (sts, okc, bvc(1, 32), bvc(0, 32))], get_model=False), "z3", timeout)
        nq += 1
        if v != "unsat":
            return [_replay(ob, built, drv, c, ln, n, "acceptance is not (scalar decoder ok and scalar non-zero): solver %s" % v, t0, nq)]
        # on accepting paths: encode(key) == reverse(Scalar::encode(scalar)) -- compared with a reference run of the real encode
        v2, _, _ = run_solver(em.script(pc + ["(= %s %s)" % (sts, bvc(1, 32))], get_model=False), "z3", timeout)
        nq += 1
        if v2 == "unsat":
            continue
        seen_some = True
        _, _, eo = sym_run(built, "drv_%s_skenc" % c, concrete={"a": sd[0]["scalar"]})
        if not glue.same_terms(list(p.outs["out"]), list(reversed(eo["out"]))):
            em2 = BVEmitter()
            dif = ["(distinct %s %s)" % (em2.ref(x, 8) if isinstance(x, T.Term) else bvc(x, 8), em2.ref(y, 8) if isinstance(y, T.Term) else bvc(y, 8))
                   for x, y in zip(p.outs["out"], reversed(eo["out"])) if x is not y]
            v3, _, _ = run_solver(em2.script(["(or %s)" % " ".join(dif)] if len(dif) > 1 else dif, get_model=False), "z3", timeout)
            nq += 1
            if v3 != "unsat":
                return [_replay(ob, built, drv, c, ln, n, "encode(key) is not the byte-reversed Scalar::encode of the decoded scalar (solver %s)" % v3, t0, nq)]
    if ln == 32 and not seen_some:
        return [ob.unknown("no accepting path (vacuous)")]
    return [ob.ok("path-forking symbolic execution with a contract stub at the scalar decoder, %d paths; z3-bv x%d" % (len(paths), nq), time.time() - t0, nq)]


def _replay(ob, built, drv, c, ln, n, why, t0, nq):
    """structural mismatch: confirm natively on boundary values"""
    cands = []
    if ln == 32:
        for x in (0, 1, 2, n - 1, n, n + 1, (1 << 256) - 1, 1 << 255, n // 2):
            cands.append(list(x.to_bytes(32, "big")))
    else:
        cands = [[0] * ln, [1] * ln, [0xFF] * ln]
    for b in cands:
        crashed, err = native_crashes(built, drv, {"buf": b})
        if crashed:
            return ob.fail({"key": "%s.PrivateKey.decode.panic" % c, "inputs": {"buf": bytes(b).hex()}, "native_stderr": err[-300:],
                            "found_by": "%s; native replay of boundary values" % why}, "z3-bv+replay", time.time() - t0, nq)
        nat = built.native(drv, {"buf": b})
        x = int.from_bytes(bytes(b), "big")
        good = ln == 32 and 0 < x < n
        if nat["st"][0] != (1 if good else 0) or (good and bytes(nat["out"]) != bytes(b)):
            return ob.fail({"key": "%s.PrivateKey.decode" % c, "inputs": {"buf": bytes(b).hex()}, "native": {"st": nat["st"][0], "out": bytes(nat["out"]).hex()},
                            "expected_accept": good, "found_by": "%s; native replay of boundary values" % why}, "z3-bv+replay", time.time() - t0, nq)
    return ob.unknown("%s (not reproduced natively on boundary values)" % why)


def items():
    return [(c, ln) for c in CUR for ln in LENS]
