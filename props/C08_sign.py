"""C08, signing side: the byte-level glue of `p256::PrivateKey::sign_hash` and
`secp256k1::PrivateKey::sign_hash` is the documented deterministic procedure, for all key scalars
(limbs), hash bytes and extra-randomness bytes at the listed (hash length, extra length) shapes
(engine L, contract stubs, see props/glue.py).

  common:     h  = reduce(big-endian first 32 bytes of hv, left-padded with zeros when shorter)
              R  = mulgen(k);  r = reduce(x(R)) (bytes 1..33 of the compressed encoding, big-endian)
              s  = (h + x*r) / k;   accepted iff r != 0 and s != 0;   sig = be32(r) || be32(s)
  P-256:      RFC 6979 section 3.2 with HMAC-SHA-256:  xb = be32(x), hb = be32(h) (bits2octets),
              K1 = HMAC_0(V0 || 00 || xb || hb || extra), V1 = HMAC_K1(V0), K2 = HMAC_K1(V1 || 01 || xb || hb || extra),
              V2 = HMAC_K2(V1), T = HMAC_K2(V2), k = strict decode of T (big-endian), accepted iff T < n and k != 0;
              on any rejection K3 = HMAC_K2(T || 00), V3 = HMAC_K3(T), and the next candidate is HMAC_K3(V3)
  secp256k1:  k = reduce(SHA-512(le32(x) || le32(h) || extra)) with 0 replaced by 1; on rejection k+1 (0 -> 1)

Stubs: SHA-256 / SHA-512 compression functions (uninterpreted), `Scalar::set_decode_reduce` (fresh
scalar), `Scalar::set_decode32` (fresh scalar + status bit), `Scalar::set_div` (fresh quotient),
`Point::set_mulgen` (fresh point), `Point::encode_compressed` (fresh 33 bytes).  The scalar
arithmetic that is inlined (h + x*r, scalar encodings, byte swaps, the 0 -> 1 replacement) is real
code: it must be term-identical (else z3) to reference drivers that apply the same library
operations to the stub outputs.  HMAC is a Python spec over the uninterpreted compression
function (ipad/opad XOR terms).  The retry loop is followed for one iteration: every rejection
path must re-enter the generator with the documented next candidate."""
import time
from engines.llsym.build import Driver
from engines.llsym import terms as T
from engines.llsym.llexec import Ptr, ExecError, PanicReached
from engines.llsym.smt import BVEmitter, run_solver, bvc
from vlib.common import Obligation
from . import glue
from .lhelp import sym_run, rng, _feasible, Path

HOSTS = {"p256": "src/p256.rs", "secp256k1": "src/secp256k1.rs"}
NPT = 12        # limbs of a projective point (both curves)


class Reentered(Exception):
    """the retry loop came back to its head (second nonce candidate); carries what it was given"""

    def __init__(self, kind, data):
        Exception.__init__(self, kind)
        self.kind, self.data = kind, data


def nm_sign(shape):
    return "drv_%s_sh_%d_%d" % shape


def drivers(shapes):
    ds = []
    S = "transmute::<[u64; 4], Scalar>"
    for curve in sorted(set(s[0] for s in shapes)):
        host = HOSTS[curve]
        for c, hvlen, erlen in shapes:
            if c == curve:
                ds.append(Driver(nm_sign((c, hvlen, erlen)),
                                 [("x", "in", 8, 4), ("hv", "in", 1, hvlen), ("er", "in", 1, erlen), ("sig", "out", 1, 64)],
                                 "        let sk = PrivateKey { x: unsafe { %s(*x) } };\n"
                                 "        *sig = sk.sign_hash(&hv[..], &er[..]);" % S, host))
        # reference drivers: the library's own scalar operations applied to given limbs
        ds.append(Driver("drv_%s_s_encbe" % curve, [("a", "in", 8, 4), ("out", "out", 1, 32)],
                         "        *out = bswap32(&unsafe { %s(*a) }.encode());" % S, host))
        ds.append(Driver("drv_%s_s_encle" % curve, [("a", "in", 8, 4), ("out", "out", 1, 32)],
                         "        *out = unsafe { %s(*a) }.encode();" % S, host))
        ds.append(Driver("drv_%s_s_num" % curve, [("h", "in", 8, 4), ("x", "in", 8, 4), ("r", "in", 8, 4), ("out", "out", 8, 4)],
                         "        let h_ = unsafe { %s(*h) }; let x_ = unsafe { %s(*x) }; let r_ = unsafe { %s(*r) };\n"
                         "        *out = unsafe { transmute::<Scalar, [u64; 4]>(h_ + x_ * r_) };" % (S, S, S), host))
        if curve == "p256":
            # two more call sites of Scalar::decode32 (as in the full C08 build, where verify_hash has them):
            # keeps it a call in sign_hash instead of being inlined as a function with a single caller
            ds.append(Driver("drv_p256_s_keep", [("a", "in", 1, 32), ("b", "in", 1, 32), ("out", "out", 8, 8), ("st", "out", 4, 2)],
                             "        let (u, cu) = Scalar::decode32(&a[..]); let (v, cv) = Scalar::decode32(&b[..]);\n"
                             "        let uu = unsafe { transmute::<Scalar, [u64; 4]>(u) }; let vv = unsafe { transmute::<Scalar, [u64; 4]>(v) };\n"
                             "        out[..4].copy_from_slice(&uu); out[4..].copy_from_slice(&vv); st[0] = cu; st[1] = cv;", host))
        else:
            ds.append(Driver("drv_secp256k1_s_kfix", [("k", "in", 8, 4), ("out", "out", 8, 4)],
                             "        let mut k_ = unsafe { %s(*k) }; k_.set_cond(&Scalar::ONE, k_.iszero());\n"
                             "        *out = unsafe { transmute::<Scalar, [u64; 4]>(k_) };" % S, host))
            ds.append(Driver("drv_secp256k1_s_knext", [("k", "in", 8, 4), ("out", "out", 8, 4)],
                             "        let mut k_ = unsafe { %s(*k) }; k_ += Scalar::ONE; k_.set_cond(&Scalar::ONE, k_.iszero());\n"
                             "        *out = unsafe { transmute::<Scalar, [u64; 4]>(k_) };" % S, host))
    return ds


class Hooks:
    def __init__(self, built):
        self.lay256 = glue.sha2_layout(built.module, big=False)
        self.lay512 = glue.sha2_layout(built.module, big=True)

    def install(self, ex, rec, curve):
        if curve == "p256":
            if self.lay256 is None:
                raise ExecError("SHA-256 compression function not found / layout not discovered")
            glue.install_sha2_uf(ex, self.lay256, rec, "sha256")
        else:
            if self.lay512 is None:
                raise ExecError("SHA-512 compression function not found / layout not discovered")
            glue.install_sha2_uf(ex, self.lay512, rec, "sha512")

        def put(ex_, p, ws):
            for i, w in enumerate(ws):
                ex_.store(Ptr(p.obj, p.off + 8 * i), 8, w)

        def h_sdec(ex_, name, argv, rty):
            if len(argv) > 2 and argv[2] != 32:
                raise ExecError("Scalar::set_decode32 on a length that is not the constant 32")
            data = ex_.read_bytes(argv[1], 32)
            if any(t == "sdec" for t, _ in rec.calls):
                raise Reentered("sdec", {"bytes": data})
            ok = rec.fresh("sdec_ok", 1)
            sc = [rec.fresh("sc", 64) for _ in range(4)]
            put(ex_, argv[0], sc)
            rec.calls.append(("sdec", {"bytes": data, "ok": ok, "scalar": sc}))
            return T.t_sub(0, T.t_zext(ok, 32), 32)
        ex.add_call_hook(SDEC_PAT, h_sdec)

        def h_red(ex_, name, argv, rty):
            n = argv[2] if len(argv) > 2 else 32
            if isinstance(n, T.Term):
                raise ExecError("symbolic length to decode_reduce")
            data = ex_.read_bytes(argv[1], n)
            sc = [rec.fresh("red", 64) for _ in range(4)]
            put(ex_, argv[0], sc)
            rec.calls.append(("red", {"bytes": data, "scalar": sc}))
            return None
        ex.add_call_hook(r"modint.*ModInt256.*set_decode_reduce", h_red)

        def h_div(ex_, name, argv, rty):
            x = ex_.read_words(argv[0], 4, 8)
            y = ex_.read_words(argv[1], 4, 8)
            q = [rec.fresh("quo", 64) for _ in range(4)]
            put(ex_, argv[0], q)
            rec.calls.append(("div", {"x": x, "y": y, "q": q}))
            return None
        ex.add_call_hook(r"modint.*ModInt256.*set_div", h_div)

        def h_mulgen(ex_, name, argv, rty):
            sc = ex_.read_words(argv[1], 4, 8)
            if any(t == "mulgen" for t, _ in rec.calls):
                raise Reentered("mulgen", {"scalar": sc})
            pt = [rec.fresh("mg", 64) for _ in range(NPT)]
            put(ex_, argv[0], pt)
            rec.calls.append(("mulgen", {"scalar": sc, "point": pt}))
            return None
        ex.add_call_hook(r"%s.*Point.*set_mulgen" % curve, h_mulgen)

        def h_enc(ex_, name, argv, rty):
            pt = ex_.read_words(argv[1], NPT, 8)
            out = [rec.fresh("encb", 8) for _ in range(33)]
            for i, b in enumerate(out):
                ex_.store(Ptr(argv[0].obj, argv[0].off + i), 1, b)
            rec.calls.append(("enc", {"P": pt, "bytes": out}))
            return None
        ex.add_call_hook(r"%s.*Point.*encode_compressed" % curve, h_enc)


SDEC_PAT = r"modint.*ModInt256.*set_decode32$|modint.*ModInt256.*set_decode3217h"
STUB_PAT = r"set_decode_reduce|set_div|set_mulgen|encode_compressed|SHA2Small.*process|SHA2Big.*process"


def calls_reachable(module, root, pattern):
    """is a function matching `pattern` called (directly, or through callees that are not stubbed) from `root`?
    Static scan of the IR text: the path exploration is only bounded if the rejection loop meets a stub."""
    import re
    pat, stop = re.compile(pattern), re.compile(STUB_PAT)
    ref = re.compile(r'@("(?:[^"\\]|\\.)*"|[-a-zA-Z$._0-9]+)')
    seen, work = set(), [module.resolve(root)]
    while work:
        f = work.pop()
        if f in seen or f not in module.fpos:
            continue
        seen.add(f)
        fn = module.function(f)
        for lines in fn.blocks.values():
            for ln in lines:
                if "call " not in ln and "invoke " not in ln:
                    continue
                for m in ref.finditer(ln):
                    n = m.group(1)
                    n = module.resolve(n[1:-1] if n.startswith('"') else n)
                    if pat.search(n):
                        return True
                    if n in module.fpos and not stop.search(n):
                        work.append(n)
    return False


def run_paths(built, hooks, drv, curve, max_paths=16):
    """all paths through the data-dependent branches (status checks), one recorder per path; a path ends
    at the return or when the retry loop asks for its second candidate (Reentered)"""
    paths = []
    work = [[]]
    nq = [0]
    while work and len(paths) < max_paths:
        dec = work.pop()
        rec = glue.Recorder()
        path = Path()
        pos = [0]

        def policy(ex_, c, where, dec=dec, path=path, pos=pos):
            i = pos[0]
            pos[0] += 1
            if i < len(dec):
                path.conds.append((c, dec[i]))
                return dec[i]
            sides = []
            for val in (1, 0):
                st, _ = _feasible(path.conds + [(c, val)], 20)
                nq[0] += 1
                if st != "unsat":
                    sides.append(val)
            if not sides:
                raise ExecError("both sides infeasible at %s" % where)
            if len(sides) == 2:
                work.append(dec[:i] + [sides[1]])
            dec.append(sides[0])
            path.conds.append((c, sides[0]))
            return sides[0]

        def setup(ex, rec=rec):
            hooks.install(ex, rec, curve)
            ex.branch_policy = policy
        try:
            ex, ins, outs = sym_run(built, drv, executor_setup=setup)
            path.outcome, path.ins, path.outs = "ret", ins, outs
        except Reentered as e:
            path.outcome, path.info = "reenter", {"kind": e.kind, "data": e.data}
        except PanicReached as e:
            path.outcome, path.info = "panic", {"callee": e.callee, "where": e.where}
        except ExecError as e:
            path.outcome, path.info = "error", {"msg": str(e)}
        path.rec = rec
        paths.append(path)
    return paths, nq[0], bool(work)


def _ref(built, drv, **kw):
    _, _, o = sym_run(built, drv, concrete={k: list(v) for k, v in kw.items()})
    return list(o["out"])


def _equal(xs, ys, w, timeout):
    """term identity, else z3 on the differing elements; returns (verdict, queries)"""
    xs, ys = list(xs), list(ys)
    if len(xs) != len(ys):
        return "length", 0
    if glue.same_terms(xs, ys):
        return "unsat", 0
    em = BVEmitter()
    diffs = ["(distinct %s %s)" % (em.ref(x, w) if isinstance(x, T.Term) else bvc(x, w),
                                   em.ref(y, w) if isinstance(y, T.Term) else bvc(y, w))
             for x, y in zip(xs, ys) if not (x is y or (not isinstance(x, T.Term) and not isinstance(y, T.Term) and x == y))]
    v, _, _ = run_solver(em.script(["(or %s)" % " ".join(diffs)] if len(diffs) > 1 else diffs, get_model=False), "z3", timeout)
    return v, 1


def _limbs_bv(em, ws):
    e = em.ref(ws[0], 64) if isinstance(ws[0], T.Term) else bvc(ws[0], 64)
    for w in ws[1:]:
        e = "(concat %s %s)" % (em.ref(w, 64) if isinstance(w, T.Term) else bvc(w, 64), e)
    return e


def _sha(msg, curve):
    return glue.sha2_uf_spec(msg, "sha256", big=False) if curve == "p256" else glue.sha2_uf_spec(msg, "sha512", big=True)


def _hmac(key, msg):
    """HMAC-SHA-256 with a 32-byte key over the uninterpreted compression function"""
    ik = [T.t_xor(k, 0x36, 8) for k in key] + [0x36] * 32
    ok = [T.t_xor(k, 0x5C, 8) for k in key] + [0x5C] * 32
    return glue.sha2_uf_spec(ok + glue.sha2_uf_spec(ik + list(msg), "sha256", big=False), "sha256", big=False)


def _calls(p, tag):
    return [c for t, c in p.rec.calls if t == tag]


DESC = {"p256": "RFC 6979 HMAC-SHA-256 nonce (extra randomness appended in both keying steps), s = (h + x*r)/k, "
                "sig = be(r) || be(s), nonzero r and s; rejections re-enter the generator (see module doc)",
        "secp256k1": "k = reduce(SHA-512(le(x) || le(h) || extra)) with 0 -> 1, s = (h + x*r)/k, sig = be(r) || be(s), "
                     "nonzero r and s; rejections retry with k+1 (see module doc)"}


def ob_name(shape):
    return "default:%s.sign_hash[hv=%d,extra=%d]" % shape


def check_sign(built, hooks, shape, timeout):
    curve, hvlen, erlen = shape
    drv = nm_sign(shape)
    ob = Obligation(ob_name(shape), "L", ["%s::PrivateKey::sign_hash" % curve],
                    "all key scalar limbs, hash and extra-randomness bytes at these lengths; retry loop: first iteration",
                    DESC[curve])
    t0 = time.time()
    if curve == "p256" and not calls_reachable(built.module, drv, SDEC_PAT):
        return [ob.unknown("Scalar::set_decode32 is not a call in this build of sign_hash (inlined): the stub model does not "
                           "apply and the retry loop would not be bounded")]
    try:
        paths, nq, trunc = run_paths(built, hooks, drv, curve)
    except ExecError as e:
        return [ob.unknown("executor: %s" % str(e)[:300])]
    if trunc:
        return [ob.unknown("path budget exhausted")]
    for p in paths:
        if p.outcome == "error":
            return [ob.unknown("executor: %s" % p.info["msg"][:300])]
        if p.outcome == "panic":
            st, _ = _feasible(p.conds, timeout)
            nq += 1
            if st != "unsat":
                return [ob.unknown("a panic path is reachable in the stubbed model: %s" % p.info["callee"][:80])]
    rets = [p for p in paths if p.outcome == "ret"]
    again = [p for p in paths if p.outcome == "reenter"]
    if not rets:
        return [ob.unknown("no path returns a signature in the stubbed model (retry loop not bounded by the stubs?)")]
    ins = rets[0].ins
    x, hv, er = list(ins["x"]), list(ins["hv"]), list(ins.get("er", []))
    tmp = hv[:32] if hvlen >= 32 else [0] * (32 - hvlen) + hv
    problems = []
    HT = min(timeout, 20)     # hash-chain comparisons are term identities on the unchanged code; z3 only gets what differs

    def eq(a, b, w, what, tmo=None):
        nonlocal nq
        v, q = _equal(a, b, w, tmo or min(timeout, 60))
        nq += q
        if v != "unsat":
            problems.append(what + ("" if v in ("sat", "length") else " (solver: %s)" % v))
        return v == "unsat"

    # ---- the nonce, from the first path that got as far as asking for it
    def nonce_spec(p):
        """returns (h scalar, candidate record, expected next candidate) or None after recording a problem"""
        red = _calls(p, "red")
        if not red or not eq(red[0]["bytes"], tmp[::-1], 8,
                             "h is not reduce(big-endian first 32 hash bytes, left-padded when shorter)"):
            if not red:
                problems.append("no scalar reduction of the hash value")
            return None
        h = red[0]["scalar"]
        if curve == "p256":
            sd = _calls(p, "sdec")
            if not sd:
                problems.append("no nonce candidate is decoded")
                return None
            xb = _ref(built, "drv_p256_s_encbe", a=x)
            hb = _ref(built, "drv_p256_s_encbe", a=h)
            V0, K0 = [1] * 32, [0] * 32
            K1 = _hmac(K0, V0 + [0] + xb + hb + er)
            V1 = _hmac(K1, V0)
            K2 = _hmac(K1, V1 + [1] + xb + hb + er)
            V2 = _hmac(K2, V1)
            T1 = _hmac(K2, V2)
            if not eq(sd[0]["bytes"], T1[::-1], 8,
                      "the nonce candidate is not the RFC 6979 HMAC-SHA-256 output for (be(x), be(h) = bits2octets, extra)", HT):
                return None
            K3 = _hmac(K2, T1 + [0])
            V3 = _hmac(K3, T1)
            return h, sd[0], _hmac(K3, V3)[::-1]
        if len(red) < 2:
            problems.append("no reduction of the nonce hash")
            return None
        xl = _ref(built, "drv_secp256k1_s_encle", a=x)
        hl = _ref(built, "drv_secp256k1_s_encle", a=h)
        if not eq(red[1]["bytes"], _sha(xl + hl + er, curve), 8,
                  "the nonce is not reduce(SHA-512(le(x) || le(h) || extra))", HT):
            return None
        k = _ref(built, "drv_secp256k1_s_kfix", k=red[1]["scalar"])
        mg = _calls(p, "mulgen")
        if not mg or not eq(mg[0]["scalar"], k, 64, "R is not mulgen(k) for the derived nonce k (0 replaced by 1)"):
            if not mg:
                problems.append("no point multiplication by the nonce")
            return None
        # the successor is computed from the library's own form of k (just shown equal to the reference form)
        return h, {"scalar": k}, _ref(built, "drv_secp256k1_s_knext", k=mg[0]["scalar"])

    reached = False
    for p in rets:
        spec = nonce_spec(p)
        if spec is None:
            break
        h, cand, _ = spec
        k = cand["scalar"]
        red, mg, en, dv = _calls(p, "red"), _calls(p, "mulgen"), _calls(p, "enc"), _calls(p, "div")
        ir = 1 if curve == "p256" else 2
        if len(mg) != 1 or len(en) != 1 or len(dv) != 1 or len(red) != ir + 1:
            problems.append("unexpected call structure on a returning path: %d mulgen, %d encodings, %d divisions, %d reductions"
                            % (len(mg), len(en), len(dv), len(red)))
            break
        reached = True
        eq(mg[0]["scalar"], k, 64, "R is not mulgen(k) for the derived nonce k")
        eq(en[0]["P"], mg[0]["point"], 64, "the encoded point is not R")
        eq(red[ir]["bytes"], en[0]["bytes"][1:33][::-1], 8, "r is not reduce(x(R)) (bytes 1..33 of the compressed encoding, big-endian)")
        r = red[ir]["scalar"]
        eq(dv[0]["x"], _ref(built, "drv_%s_s_num" % curve, h=h, x=x, r=r), 64, "the numerator of s is not h + x*r")
        eq(dv[0]["y"], k, 64, "the denominator of s is not k")
        q = dv[0]["q"]
        sig = p.outs["sig"]
        if sig is None:
            problems.append("the signature is not fully written")
            break
        eq(sig[0:32], _ref(built, "drv_%s_s_encbe" % curve, a=r), 8, "sig[0..32] is not the big-endian encoding of r")
        eq(sig[32:64], _ref(built, "drv_%s_s_encbe" % curve, a=q), 8, "sig[32..64] is not the big-endian encoding of s")
        # returned exactly when every acceptance condition holds
        em = BVEmitter()
        pc = ["(= %s %s)" % (em.ref(c, 1), "#b1" if v else "#b0") for c, v in p.conds]
        want = ["(distinct %s %s)" % (_limbs_bv(em, r), bvc(0, 256)), "(distinct %s %s)" % (_limbs_bv(em, q), bvc(0, 256))]
        if curve == "p256":
            want += ["(= %s #b1)" % em.ref(cand["ok"], 1), "(distinct %s %s)" % (_limbs_bv(em, k), bvc(0, 256))]
        v, _, _ = run_solver(em.script(["(distinct (and true %s) (and %s))" % (" ".join(pc), " ".join(want))], get_model=False),
                             "z3", timeout)
        nq += 1
        if v != "unsat":
            problems.append("a signature is not returned exactly when %s (solver: %s)"
                            % ("T < n, k != 0, r != 0 and s != 0" if curve == "p256" else "r != 0 and s != 0", v))
    if not problems and len(rets) != 1:
        problems.append("%d distinct returning paths (expected one)" % len(rets))
    # ---- rejections re-enter the generator with the documented next candidate
    if not problems:
        if not again:
            problems.append("no rejection path re-enters the nonce generator")
        for p in again:
            spec = nonce_spec(p)
            if spec is None:
                break
            nxt = spec[2]
            if curve == "p256":
                if p.info["kind"] != "sdec" or not eq(p.info["data"]["bytes"], nxt, 8,
                                                      "after a rejection the next candidate is not HMAC_K'(V') with K' = HMAC_K(T || 00), V' = HMAC_K'(T)", HT):
                    if p.info["kind"] != "sdec":
                        problems.append("a rejection path computes a second point before a second candidate")
                    break
            else:
                if p.info["kind"] != "mulgen" or not eq(p.info["data"]["scalar"], nxt, 64, "after a rejection the next nonce is not k+1 (0 -> 1)"):
                    break
    if problems:
        return [_confirm(ob, built, shape, problems, time.time() - t0, nq)]
    return [ob.ok("path-forking symbolic execution with contract stubs; hash inputs / wiring by term identity; z3-bv x%d; %d paths"
                  % (nq, len(paths)), time.time() - t0, nq)]


def native_sign(built, shape, x, hv, extra):
    from . import ecdsa_ref as REF
    return bytes(built.native(nm_sign(shape), {"x": REF.mont_limbs(shape[0], x), "hv": list(hv), "er": list(extra)})["sig"])


def _confirm(ob, built, shape, problems, secs, nq):
    """structural mismatch: confirm natively that library signatures differ from the reference signer
    (pure Python, hashlib/hmac) on concrete keys and hashes, including hashes >= n and short hashes"""
    from . import ecdsa_ref as REF
    curve, hvlen, erlen = shape
    for xk, hv, extra in REF.sign_cases(rng("c08s", shape), curve, hvlen, erlen):
        nat = native_sign(built, shape, xk, hv, extra)
        want = REF.sign_hash(curve, xk, hv, extra)
        if nat != want:
            return ob.fail({"key": "%s.sign_hash" % curve, "problems": problems,
                            "inputs": {"x": "%064x" % xk, "hv": hv.hex(), "extra_rand": extra.hex()},
                            "native": nat.hex(), "expected": want.hex(),
                            "found_by": "structural mismatch in the stubbed model, confirmed natively against a reference signer (%s)"
                                        % ("RFC 6979" if curve == "p256" else "documented SHA-512 nonce")},
                           "z3-bv+replay", secs, nq)
    return ob.unknown("structural mismatch (%s) not confirmed natively (reference signer agrees on the boundary corpus at this shape)"
                      % "; ".join(problems)[:300])


QUICK = [("p256", 32, 0), ("p256", 20, 0), ("p256", 0, 0), ("p256", 33, 1), ("p256", 64, 32), ("p256", 32, 32),
         ("secp256k1", 32, 0), ("secp256k1", 20, 1), ("secp256k1", 0, 0), ("secp256k1", 64, 32), ("secp256k1", 33, 0)]
THOROUGH = QUICK + [("p256", h, e) for h in (1, 31, 48) for e in (0, 16)] + [("p256", 32, e) for e in (1, 22, 23, 64, 100)] + \
    [("secp256k1", h, e) for h in (1, 31, 48) for e in (0, 16)] + [("secp256k1", 32, e) for e in (32, 47, 48, 64, 200)]
