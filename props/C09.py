"""C09 jq255e / jq255s / GLS254 Schnorr verification glue on the real optimized IR with
contract stubs at cut-point functions (engine L; see props/glue.py, C07).

accept <=> len(sig) = 48, s = sig[16..48] is a canonical scalar, and
           BLAKE2s256(encode(R) || pk_enc || tag || data)[0..16] == sig[0..16]
           with R = [s]B - [c]Q computed as (-Q).mul128_add_mulgen_vartime(c, s),
           c = little-endian u128 of sig[0..16] (GLS254: the two 64-bit halves c0, c1 of c0 + c1*mu), tag = 0x52 (raw data) or 0x48 || name || 0x00.
Stubs: Point::set_decode, Scalar::set_decode32, set_mul128_add_mulgen_vartime,
Point::encode, BLAKE2s compression function (uninterpreted).
Key exchange: props/C09_ecdh.py.  Signing side (sign / sign_seeded / sign_randomized produce
cb || encode(k + d*c') with the same challenge spec function, and the real verifier run on the
signer's symbolic output returns true): props/C09_sign.py (`--only sign`)."""
import time
from engines.llsym.build import build, Driver
from engines.llsym import terms as T
from engines.llsym.llexec import Ptr, ExecError, PanicReached
from engines.llsym.smt import BVEmitter, run_solver, parse_model, bvc
from vlib.common import Obligation, finish, log, NCPU
from vlib.par import pmap
from . import fields as F
from . import glue
from .lhelp import sym_run, rng, hexl, _feasible, Path

CURVES = {"jq255e": "crate::jq255e", "jq255s": "crate::jq255s", "gls254": "crate::gls254"}
MMFN = {"jq255e": "set_mul128_add_mulgen_vartime", "jq255s": "set_mul128_add_mulgen_vartime", "gls254": "set_mul64mu_add_mulgen_vartime"}
RORD = {"jq255e": F.RJQE, "jq255s": F.RJQS, "gls254": F.RGLS}
B2S_W = [32] * 8 + [8] * 64 + [64, 8]
B2S_IV = [0x6A09E667, 0xBB67AE85, 0x3C6EF372, 0xA54FF53A, 0x510E527F, 0x9B05688C, 0x1F83D9AB, 0x5BE0CD19]


def drivers(shapes):
    ds = []
    for curve, siglen, namelen, datalen in shapes:
        mod = CURVES[curve]
        nm = "drv_%s_vf_%d_%d_%d" % (curve, siglen, namelen, datalen)
        hn = "unsafe { core::str::from_utf8_unchecked(&name[..]) }" if namelen else "\"\""
        ds.append(Driver(nm, [("pk", "in", 1, 32), ("sig", "in", 1, siglen), ("name", "in", 1, namelen),
                              ("data", "in", 1, datalen), ("st", "out", 4, 1)],
                         "        let k = match %s::PublicKey::decode(&pk[..]) { Some(k) => k, None => { st[0] = 2; return; } };\n"
                         "        st[0] = k.verify(&sig[..], %s, &data[..]) as u32;" % (mod, hn)))
    for curve in sorted(set(c for c, _, _, _ in shapes)):
        sc = CURVES[curve] + "::Scalar"
        ds.append(Driver("drv_%s_sdec32" % curve, [("buf", "in", 1, 32), ("out", "out", 8, 4), ("st", "out", 4, 1)],
                         "        let (s, ok) = <%s>::decode32(&buf[..]);\n"
                         "        *out = unsafe { transmute::<%s, [u64; 4]>(s) }; st[0] = ok;" % (sc, sc)))
    for curve in sorted(set(c for c, _, _, _ in shapes)):
        mod = CURVES[curve]
        for nl in (0, 3):
            hn = "unsafe { core::str::from_utf8_unchecked(&name[..]) }" if nl else "\"\""
            ds.append(Driver("drv_%s_rt%d" % (curve, nl),
                             [("seed", "in", 1, 32), ("name", "in", 1, nl), ("data", "in", 1, 24), ("flip", "val", 4, 1), ("st", "out", 4, 1)],
                             "        let mut sc = <%s::Scalar>::decode_reduce(&seed[..]);\n"
                             "        sc.set_cond(&<%s::Scalar>::ONE, sc.iszero());\n"
                             "        let k = %s::PrivateKey::from_scalar(&sc);\n"
                             "        let mut sig = k.sign_seeded(&[], %s, &data[..]);\n"
                             "        if flip < 384 { sig[(flip >> 3) as usize] ^= 1u8 << (flip & 7); }\n"
                             "        if flip == 2000 {\n"
                             "            // s + r when it fits in 256 bits: same residue, non-canonical encoding\n"
                             "            let mut cc = 0u16;\n"
                             "            for i in 0..32 { let t = (sig[16 + i] as u16) + (RORD[i] as u16) + cc; sig[16 + i] = t as u8; cc = t >> 8; }\n"
                             "            if cc != 0 { st[0] = 7; return; }\n"
                             "        }\n"
                             "        st[0] = k.public_key.verify(&sig[..], %s, &data[..]) as u32;" % (mod, mod, mod, hn, hn)))
            ds[-1].body = ("        const RORD: [u8; 32] = %s;\n" % str(list(RORD[curve].to_bytes(32, "little")))) + ds[-1].body
            ds.append(Driver("drv_%s_parts%d" % (curve, nl),
                             [("seed", "in", 1, 32), ("name", "in", 1, nl), ("data", "in", 1, 24),
                              ("pk", "out", 1, 32), ("sig", "out", 1, 48), ("renc", "out", 1, 32)],
                             "        let mut sc = <%s::Scalar>::decode_reduce(&seed[..]);\n"
                             "        sc.set_cond(&<%s::Scalar>::ONE, sc.iszero());\n"
                             "        let k = %s::PrivateKey::from_scalar(&sc);\n"
                             "        let sg = k.sign_seeded(&[], %s, &data[..]);\n"
                             "        let mut cb = [0u8; 16]; cb.copy_from_slice(&sg[0..16]);\n        let c = u128::from_le_bytes(cb);\n"
                             "        let (s, _) = <%s::Scalar>::decode32(&sg[16..48]);\n"
                             "        let r = %s;\n"
                             "        *pk = k.public_key.encode(); *sig = sg; *renc = r.encode();"
                             % (mod, mod, mod, hn, mod,
                                "(-k.public_key.point).mul64mu_add_mulgen_vartime(c as u64, (c >> 64) as u64, &s)" if curve == "gls254"
                                else "(-k.public_key.point).mul128_add_mulgen_vartime(c, &s)")))
    return ds


def b2s_uf_spec(msg, tag="b2s"):
    """RFC 7693 BLAKE2s-256, unkeyed: chaining over the uninterpreted compression function"""
    h = list(B2S_IV)
    h[0] ^= 0x01010020
    n = len(msg)
    blocks = [msg[i:i + 64] for i in range(0, n, 64)] or [[]]
    t = 0
    for i, b in enumerate(blocks):
        last = (i == len(blocks) - 1)
        t += len(b)
        blk = list(b) + [0] * (64 - len(b))
        h = [glue.uf(tag, k, h + blk + [t & 0xFFFFFFFFFFFFFFFF, 1 if last else 0], 32, B2S_W) for k in range(8)]
    out = []
    for x in h:
        for k in range(4):
            out.append(T.t_extract(x, 8 * k, 8) if isinstance(x, T.Term) else (x >> (8 * k)) & 255)
    return out


def install(ex, rec, curve, module):
    def h_pdec(ex_, name, argv, rty):
        self_p, buf_p = argv[0], argv[1]
        data = ex_.read_bytes(buf_p, 32)
        ok = rec.fresh("pdec_ok", 1)
        pt = [rec.fresh("pt", 64) for _ in range(16)]
        for i, w in enumerate(pt):
            ex_.store(Ptr(self_p.obj, self_p.off + 8 * i), 8, w)
        rec.calls.append(("pdec", {"bytes": data, "ok": ok, "point": pt, "nc": len(rec.path.conds)}))
        return T.t_sub(0, T.t_zext(ok, 32), 32)
    ex.add_call_hook(r"%s.*Point.*set_decode" % curve, h_pdec)

    def h_sdec(ex_, name, argv, rty):
        self_p, buf_p = argv[0], argv[1]
        data = ex_.read_bytes(buf_p, 32)
        ok = rec.fresh("sdec_ok", 1)
        sc = [rec.fresh("sc", 64) for _ in range(4)]
        for i, w in enumerate(sc):
            ex_.store(Ptr(self_p.obj, self_p.off + 8 * i), 8, w)
        rec.calls.append(("sdec", {"bytes": data, "ok": ok, "scalar": sc, "nc": len(rec.path.conds)}))
        return T.t_sub(0, T.t_zext(ok, 32), 32)
    ex.add_call_hook(r"modint.*ModInt256.*set_decode32", h_sdec)

    def h_mm(ex_, name, argv, rty):
        # (self, u: u128 [as i128 or two i64], v: &Scalar)
        pt = ex_.read_words(argv[0], 16, 8)
        ints = [a for a in argv[1:] if not isinstance(a, Ptr)]
        ptrs = [a for a in argv[1:] if isinstance(a, Ptr)]
        if len(ints) == 1:
            u = ints[0]
            uw = [T.t_extract(u, 0, 64) if isinstance(u, T.Term) else u & (2**64 - 1),
                  T.t_extract(u, 64, 64) if isinstance(u, T.Term) else u >> 64]
        elif len(ints) == 2:
            uw = ints
        else:
            raise ExecError("unexpected signature of mul128_add_mulgen_vartime")
        v = ex_.read_words(ptrs[-1], 4, 8)
        res = [rec.fresh("mm", 64) for _ in range(16)]
        for i, w in enumerate(res):
            ex_.store(Ptr(argv[0].obj, argv[0].off + 8 * i), 8, w)
        rec.calls.append(("mulmul", {"P": pt, "u": uw, "v": v, "res": res}))
        return None
    ex.add_call_hook(r"%s.*Point.*%s" % (curve, MMFN[curve]), h_mm)

    def h_enc(ex_, name, argv, rty):
        pt = ex_.read_words(argv[1], 16, 8)
        out = [rec.fresh("encb", 8) for _ in range(32)]
        for i, b in enumerate(out):
            ex_.store(Ptr(argv[0].obj, argv[0].off + i), 1, b)
        rec.calls.append(("enc", {"P": pt, "bytes": out}))
        return None
    ex.add_call_hook(r"%s5Point6encode" % curve, h_enc)

    def h_b2s(ex_, name, argv, rty):
        hp, bp = argv[0], argv[1]
        ints = [a for a in argv[2:]]
        # remaining integer parameters: [len,] ctr, last  (len is dropped when constant-propagated)
        if len(ints) == 3:
            ctr, last = ints[1], ints[2]
        elif len(ints) == 2:
            ctr, last = ints
        else:
            raise ExecError("unexpected signature of Blake2s::process_block")
        if isinstance(ctr, T.Term) or isinstance(last, T.Term):
            raise ExecError("symbolic BLAKE2s counter / last flag")
        h = [ex_.load(Ptr(hp.obj, hp.off + 4 * i), 4) for i in range(8)]
        b = ex_.read_bytes(bp, 64)
        rec.calls.append(("b2s", {"h": h, "block": b, "ctr": ctr, "last": last & 1}))
        for i in range(8):
            ex_.store(Ptr(hp.obj, hp.off + 4 * i), 4, glue.uf("b2s", i, h + b + [ctr, last & 1], 32, B2S_W))
        return None
    ex.add_call_hook(r"blake2s.*Blake2s.*process_block", h_b2s)


def run_paths(built, drv, curve, max_paths=48):
    paths, work, nq = [], [[]], [0]
    while work and len(paths) < max_paths:
        dec = work.pop()
        rec = glue.Recorder()
        path = Path()
        rec.path = path
        pos = [0]

        def policy(ex_, c, where, dec=dec, path=path, pos=pos):
            i = pos[0]
            pos[0] += 1
            if i < len(dec):
                path.conds.append((c, dec[i]))
                return dec[i]
            sides = []
            for val in (1, 0):
                st, _ = _feasible(path.conds + [(c, val)], 20)
                nq[0] += 1
                if st != "unsat":
                    sides.append(val)
            if not sides:
                raise ExecError("both sides infeasible at %s" % where)
            if len(sides) == 2:
                work.append(dec[:i] + [sides[1]])
            dec.append(sides[0])
            path.conds.append((c, sides[0]))
            return sides[0]

        def setup(ex):
            install(ex, rec, curve, built.module)
            ex.branch_policy = policy
        try:
            ex, ins, outs = sym_run(built, drv, executor_setup=setup)
            path.outcome, path.ins, path.outs = "ret", ins, outs
        except PanicReached as e:
            path.outcome, path.info = "panic", {"callee": e.callee, "where": e.where}
        except ExecError as e:
            path.outcome, path.info = "error", {"msg": str(e)}
        path.rec = rec
        paths.append(path)
    return paths, nq[0], bool(work)


def check_shape(built, shape, timeout):
    curve, siglen, namelen, datalen = shape
    mod = CURVES[curve]
    drv = "drv_%s_vf_%d_%d_%d" % shape
    name = "default:%s.verify[sig=%d,name=%d,data=%d]" % shape
    ob = Obligation(name, "L", ["%s::PublicKey::decode" % mod, "%s::PublicKey::verify" % mod, "%s::make_challenge" % mod],
                    "all key, signature, hash-name and data bytes at these lengths",
                    "accept <=> the Schnorr glue predicate over the stubs (see module doc)")
    t0 = time.time()
    paths, nq, trunc = run_paths(built, drv, curve)
    if trunc:
        return [ob.unknown("path budget exhausted")]
    rets = []
    for p in paths:
        if p.outcome == "error":
            return [ob.unknown("executor: %s" % p.info["msg"][:300])]
        if p.outcome == "panic":
            # from_utf8().unwrap_or never panics; any reachable panic is reported as inconclusive here (C19 owns totality)
            st, _ = _feasible(p.conds, timeout)
            if st != "unsat":
                return [ob.unknown("a panic path is reachable in the stubbed model: %s" % p.info["callee"][:80])]
            continue
        rets.append(p)
    ins = rets[0].ins
    pk, sig, nm, data = ins["pk"], ins["sig"], ins.get("name", []), ins["data"]
    problems = []
    reached = False
    for p in rets:
        st = p.outs["st"][0]
        c = p.rec.calls
        pd = [x for t, x in c if t == "pdec"]
        sd = [x for t, x in c if t == "sdec"]
        mm = [x for t, x in c if t == "mulmul"]
        en = [x for t, x in c if t == "enc"]
        hb = [x for t, x in c if t == "b2s"]
        if not pd or not glue.same_terms(pd[0]["bytes"], pk):
            problems.append("public key not decoded from the key bytes")
            continue
        if not isinstance(st, T.Term) and st == 2:
            continue
        em = BVEmitter()
        pc = ["(= %s %s)" % (em.ref(cc, 1), "#b1" if v else "#b0") for cc, v in p.conds]
        pcs = " ".join(pc) if pc else "true"
        st_s = em.ref(st, 32)
        c0, c1 = bvc(0, 32), bvc(1, 32)
        if namelen:
            # the driver turns invalid UTF-8 names into "": only the valid-UTF-8 branch matches the stated shape;
            # recognise it by the tag byte fed to the hash below
            pass
        if siglen != 48:
            v, _, _ = run_solver(em.script(pc + ["(= %s %s)" % (st_s, c1)], get_model=False), "z3", timeout)
            nq += 1
            if v != "unsat" or mm:
                problems.append("signature of length %d is not rejected" % siglen)
            continue
        if sd:
            if not glue.same_terms(sd[0]["bytes"], sig[16:48]):
                problems.append("s is not decoded from sig[16..48]")
                continue
            s_ok = "(= %s #b1)" % em.ref(sd[0]["ok"], 1)
            nk = sd[0]["nc"]
            s_scalar = sd[0]["scalar"]
        else:
            # strict scalar decoding was inlined: its acceptance condition must be int(sig[16..48]) < r and its
            # value the library's own decode32 of those bytes (reference run of the real code)
            Sint = em.ref(sig[16], 8)
            for b in sig[17:48]:
                Sint = "(concat %s %s)" % (em.ref(b, 8), Sint)
            s_ok = "(bvult %s %s)" % (Sint, bvc(RORD[curve], 256))
            nk = 0
            for cc, _v in p.conds:
                vs = [x.aux[0] for x in T.variables([cc])]
                if vs and all(n_.startswith("pdec_ok") or n_.startswith("pt_") for n_ in vs):
                    nk += 1
                else:
                    break
            _, _, so = sym_run(built, "drv_%s_sdec32" % curve, concrete={"buf": sig[16:48]})
            s_scalar = so["out"]
        key_ok = "(and true %s)" % " ".join(pc[:nk])
        if not mm:
            v, _, _ = run_solver(em.script(pc + ["(or (distinct %s %s) (and %s %s))" % (st_s, c0, key_ok, s_ok)],
                                           get_model=False), "z3", timeout)
            nq += 1
            if v != "unsat":
                problems.append("a path rejects before the point computation although s is canonical: solver %s" % v)
            continue
        reached = True
        m = mm[0]
        # -Q : the library's own negation of the decoded key point (real code on the stub's fresh point)
        cexp = [sig[0], sig[8]]
        uexp = []
        for half in (0, 1):
            w = sig[8 * half]
            acc = w
            width = 8
            for b in sig[8 * half + 1:8 * half + 8]:
                acc = T.t_concat(b, acc, 8, width)
                width += 8
            uexp.append(acc)
        if not glue.same_terms(m["u"], uexp):
            em2 = BVEmitter()
            diffs = ["(distinct %s %s)" % (em2.ref(x, 64), em2.ref(y, 64)) for x, y in zip(m["u"], uexp) if x is not y]
            v, _, _ = run_solver(em2.script(["(or %s)" % " ".join(diffs)] if len(diffs) > 1 else diffs, get_model=False), "z3", timeout)
            nq += 1
            if v != "unsat":
                problems.append("the multiplier c is not the little-endian 128-bit integer sig[0..16]")
        if not glue.same_terms(m["v"], s_scalar):
            em3 = BVEmitter()
            diffs = ["(distinct %s %s)" % (em3.ref(x, 64), em3.ref(y, 64)) for x, y in zip(m["v"], s_scalar) if x is not y]
            v, _, _ = run_solver(em3.script(["(or %s)" % " ".join(diffs)] if len(diffs) > 1 else diffs, get_model=False), "z3", timeout)
            nq += 1
            if v != "unsat":
                problems.append("the generator multiplier is not Scalar::decode32(sig[16..48])")
        # the point operand must depend only on the decoded key (its negation); checked structurally:
        pvars = set(x.aux[0] for x in T.variables([w for w in m["P"] if isinstance(w, T.Term)]))
        kvars = set(x.aux[0] for x in pd[0]["point"])
        if not pvars or not pvars <= kvars:
            problems.append("the point operand of the double multiplication is not derived from the decoded key alone")
        if not en or not glue.same_terms(en[0]["P"], m["res"]):
            problems.append("the hashed point is not the result of the double multiplication")
        else:
            tag = [0x52] if namelen == 0 else [0x48] + list(nm) + [0x00]
            expect = b2s_uf_spec(list(en[0]["bytes"]) + list(pk) + tag + list(data))
            # the digest actually produced = state after the last compression call
            if not hb:
                problems.append("no BLAKE2s compression call")
            else:
                last = hb[-1]
                got_h = [glue.uf("b2s", i, last["h"] + last["block"] + [last["ctr"], last["last"]], 32, B2S_W) for i in range(8)]
                got = []
                for x in got_h:
                    for k in range(4):
                        got.append(T.t_extract(x, 8 * k, 8))
                if not glue.same_terms(got[:16], expect[:16]):
                    if namelen and not glue.same_terms(got[:16], b2s_uf_spec(list(en[0]["bytes"]) + list(pk) + [0x52] + list(data))[:16]):
                        problems.append("challenge hash input is not encode(R) || pk || tag || data (or padding/chaining differs)")
                    elif not namelen:
                        problems.append("challenge hash input is not encode(R) || pk || 0x52 || data (or padding/chaining differs)")
                # accept <=> first 16 digest bytes equal sig[0..16], reached <=> key ok and s ok
                eqs = " ".join("(= %s %s)" % (em.ref(g, 8), em.ref(b, 8)) for g, b in zip(got[:16], sig[0:16]))
                exp = "(ite (and %s) %s %s)" % (eqs, c1, c0)
                want = "(and %s %s)" % (key_ok, s_ok)
                # other branches (e.g. UTF-8 validity of the hash name in the driver) may further split the path:
                # require pc => want, and st == exp on this path
                v, _, _ = run_solver(em.script(["(and %s (or (not %s) (distinct %s %s)))" % (pcs, want, st_s, exp)],
                                               get_model=False), "z3", timeout)
                nq += 1
                if v != "unsat":
                    problems.append("verdict is not [challenge bytes == sig[0..16]] under (key ok, s canonical): solver %s" % v)
    if siglen == 48 and not reached:
        problems.append("no path reaches the point computation (vacuous)")
    if problems:
        return [_confirm(ob, built, drv, shape, problems, time.time() - t0, nq)]
    return [ob.ok("path-forking symbolic execution with contract stubs; z3-bv x%d; %d paths" % (nq, len(paths)),
                  time.time() - t0, nq)]


def _confirm(ob, built, drv, shape, problems, secs, nq):
    """native confirmation: sign with the library (separate drivers are not available here), so use
    mutation of library-made signatures through the native driver of another shape is not possible;
    we therefore replay boundary cases for which the expected verdict is known a priori."""
    curve, siglen, namelen, datalen = shape
    r = rng("c09", drv)
    # (1) sign-then-verify round trip through the library's own signer, and single-bit corruptions
    for nl in (0, 3):
        for it in range(16):
            flip = 1000 if it % 4 == 0 else r.randrange(384)
            inp = {"seed": [r.getrandbits(8) for _ in range(32)], "name": [0x41 + r.randrange(26) for _ in range(nl)],
                   "data": [r.getrandbits(8) for _ in range(24)], "flip": flip}
            nat = built.native("drv_%s_rt%d" % (curve, nl), inp)["st"][0]
            exp = 1 if flip >= 384 else 0
            if nat != exp:
                return ob.fail({"key": "%s.verify" % curve, "problems": problems,
                                "inputs": {k: (bytes(v).hex() if isinstance(v, list) else v) for k, v in inp.items()},
                                "native": nat, "expected": exp,
                                "found_by": "structural mismatch in the stubbed model; natively a signature made by sign_seeded is %s"
                                            % ("rejected" if exp else "accepted after flipping bit %d" % flip)},
                               "z3-bv+replay", secs, nq)
    # (1a) a library-made signature with bytes appended / removed must be rejected
    if siglen != 48 and namelen == 0 and datalen == 24:
        for it in range(8):
            base = {"seed": [r.getrandbits(8) for _ in range(32)], "name": [], "data": [r.getrandbits(8) for _ in range(24)]}
            parts = built.native("drv_%s_parts0" % curve, base)
            sg = list(parts["sig"])
            sg = (sg + [0] * (siglen - 48)) if siglen > 48 else sg[:siglen]
            inp = {"pk": list(parts["pk"]), "sig": sg, "name": [], "data": base["data"]}
            nat = built.native(drv, inp)["st"][0]
            if nat == 1:
                return ob.fail({"key": "%s.verify" % curve, "problems": problems,
                                "inputs": {k: bytes(v).hex() for k, v in inp.items()}, "native": nat, "expected": 0,
                                "found_by": "structural mismatch; natively a valid signature %s is accepted"
                                            % ("with trailing bytes" if siglen > 48 else "truncated")},
                               "z3-bv+replay", secs, nq)
    # (1b) non-canonical s (s + r) on a library-made signature must be rejected
    for it in range(12):
        inp = {"seed": [r.getrandbits(8) for _ in range(32)], "name": [], "data": [r.getrandbits(8) for _ in range(24)], "flip": 2000}
        nat = built.native("drv_%s_rt0" % curve, inp)["st"][0]
        if nat == 1:
            return ob.fail({"key": "%s.verify" % curve, "problems": problems,
                            "inputs": {k: (bytes(v).hex() if isinstance(v, list) else v) for k, v in inp.items()},
                            "native": nat, "expected": 0,
                            "found_by": "structural mismatch; natively a signature with s replaced by s + r (non-canonical) is accepted"},
                           "z3-bv+replay", secs, nq)
    # (1c) the challenge of a library-made signature must be BLAKE2s(encode(R) || pk || tag || data)[0..16]
    import hashlib
    for nl in (0, 3):
        for it in range(6):
            nm_ = [0x41 + r.randrange(26) for _ in range(nl)]
            inp = {"seed": [r.getrandbits(8) for _ in range(32)], "name": nm_, "data": [r.getrandbits(8) for _ in range(24)]}
            nat = built.native("drv_%s_parts%d" % (curve, nl), inp)
            tag = b"\x52" if nl == 0 else b"\x48" + bytes(nm_) + b"\x00"
            exp = hashlib.blake2s(bytes(nat["renc"]) + bytes(nat["pk"]) + tag + bytes(inp["data"])).digest()[:16]
            if bytes(nat["sig"][:16]) != exp:
                return ob.fail({"key": "%s.verify" % curve, "problems": problems,
                                "inputs": {k: bytes(v).hex() for k, v in inp.items()},
                                "native_challenge": bytes(nat["sig"][:16]).hex(), "expected_challenge": exp.hex(),
                                "found_by": "structural mismatch; natively the challenge of a library-made signature is not "
                                            "BLAKE2s(encode(R) || pk || tag || data)[0..16] (independent hashlib digest)"},
                               "z3-bv+replay", secs, nq)
    # (2) a priori rejected inputs: wrong length, or s >= group order (all-ones)
    for it in range(20):
        inp = {"pk": [r.getrandbits(8) for _ in range(32)], "sig": [r.getrandbits(8) for _ in range(siglen)],
               "name": [0x41 + r.randrange(26) for _ in range(namelen)], "data": [r.getrandbits(8) for _ in range(datalen)]}
        if siglen == 48 and it % 2:
            inp["sig"][16:48] = [0xFF] * 32
        nat = built.native(drv, inp)["st"][0]
        if nat == 1:
            return ob.fail({"key": "%s.verify" % curve, "problems": problems,
                            "inputs": {k: bytes(v).hex() for k, v in inp.items()}, "native": nat, "expected": "0 or 2",
                            "found_by": "structural mismatch in the stubbed model; a random / non-canonical signature is accepted natively"},
                           "z3-bv+replay", secs, nq)
    return ob.unknown("structural mismatch (%s) not confirmed natively" % "; ".join(problems)[:300])


QUICK = [("jq255e", 48, 0, 8), ("jq255e", 47, 0, 24), ("jq255e", 49, 0, 24), ("jq255s", 49, 0, 24), ("jq255e", 48, 3, 8), ("jq255e", 48, 0, 0),
         ("jq255e", 48, 0, 70), ("jq255s", 48, 0, 8), ("jq255s", 48, 6, 32), ("jq255s", 0, 0, 0),
         ("gls254", 48, 0, 8), ("gls254", 48, 4, 24), ("gls254", 49, 0, 24)]
THOROUGH = QUICK + [("jq255e", 48, n, d) for n in (1, 8) for d in (0, 1, 63, 64, 65)] + [("jq255s", 48, 0, d) for d in (1, 64, 129)]


def run(tier, only=None):
    from . import C09_ecdh as EC
    from . import C09_sign as SG
    t0 = time.time()
    # --only sign: the signing-side obligations alone; curve names restrict every family
    sign_only = bool(only) and "sign" in only
    conly = [o for o in (only or []) if o != "sign"]
    shapes = [] if sign_only else [s for s in (QUICK if tier == "quick" else THOROUGH) if not conly or s[0] in conly]
    eshapes = [] if sign_only else [s for s in (EC.QUICK if tier == "quick" else EC.THOROUGH) if not conly or s[0] in conly]
    sshapes = [s for s in (SG.QUICK if tier == "quick" else SG.THOROUGH) if not conly or s[0] in conly]
    built = build(drivers(shapes) + EC.drivers(eshapes) + SG.drivers(sshapes), tag="C09-cut", cut=True)
    timeout = 60 if tier == "quick" else 300
    items = [("v", s) for s in shapes] + [("e", s) for s in eshapes] + [("s", s) for s in sshapes]

    def work(it):
        T.reset()
        if it[0] == "v":
            return check_shape(built, it[1], timeout)
        if it[0] == "s":
            return SG.check_sign(built, it[1], timeout)
        return EC.check_shape(built, it[1], timeout)
    res = pmap(work, items, nproc=NCPU, timeout=timeout * 20)
    obs = []
    for it, (st, val) in zip(items, res):
        if st == "ok":
            obs.extend(val)
        else:
            o = Obligation("default:%s.%s%s" % (it[1][0], {"v": "verify", "e": "ECDH", "s": "sign"}[it[0]], list(it[1][1:])), "L")
            o.unknown("%s: %s" % (st, str(val)[-400:]))
            obs.append(o)
    built.close()
    return finish("C09", tier, obs, t0,
                  functions_encoded=sorted(set(fn for o in obs for fn in o.functions)),
                  bounds={"shapes (curve, signature length, hash-name length, data length)": [list(s) for s in shapes],
                          "sign_shapes (curve, det|seeded|rand, seed length, hash-name length, data length)": [list(s) for s in sshapes],
                          "build": "optimized IR with --cfg pornin_crrl_verif_cut"},
                  stubs={"Point::set_decode": "fresh point + status bit (C06/C19)",
                         "ModInt256::set_decode32": "fresh scalar + status bit (C05); in the sign_then_verify runs: success "
                                                    "(the signer's s.encode() is canonical: C05)",
                         "Point::set_mul128_add_mulgen_vartime": "fresh point = [c]P + [s]B (C10)",
                         "Point::encode": "fresh 32 bytes (C06); in the sign_then_verify runs the verifier-side call returns the "
                                          "signer's encode(R) (premise R' = R)",
                         "Blake2s::process_block": "uninterpreted compression function (C17)",
                         "ModInt256::set_decode_reduce (signing side)": "fresh scalar = digest mod r (C05)",
                         "Point::set_mulgen (signing side)": "fresh point = [k]B (C04)"},
                  assumptions=["the stubs' contracts are decided by the checks named in `stubs`",
                               "signing side: Scalar::encode / from_u128 / from_u64 / add / mul are the real inlined code, compared by term "
                               "identity with reference drivers applying the same library operations to the stub outputs (ring semantics: C05)",
                               "seed / name / data lengths beyond the listed shapes follow the same code path (lengths only drive the hash buffering: C17)"],
                  outside=["that a signature so produced is accepted needs, beyond the two signing-side obligations and the verify obligations, "
                           "the group identity [s]B - [c']Q = [k]B for s = k + c'*d, Q = [d]B (contracts of mulgen and mul128/mul64mu_add_mulgen: "
                           "C04/C10) and canonical encodings (C05/C06): mathematics over the stubs' contracts, not decided here",
                           "sign_randomized: the RNG is modelled as delivering 32 arbitrary bytes through fill_bytes (any RngCore implementation "
                           "that does so); the stored public key bytes are arbitrary (not tied to the secret scalar)",
                           "that -Q is the group negation (C03): only 'derived from the decoded key alone' is checked structurally"])
